(* The three variable rules (5.8.3 all variable uses defined, 5.8.4 all variables used, 5.8.5 all variable usages are
   allowed), EXACT over the books of the walk -- which Proofs/ValidateScopes.v shows to be a pure function of the
   document.  What an operation "sees" is what is recorded in its own scope plus what is recorded in every fragment
   REACHABLE through spreads (the engine's traversal has no visited set: it returns a result exactly when it
   terminates, and then membership is reachability). *)
From Coq Require Import ZArith List String Bool Lia.
From TV Require Import Py.Prelude Model.Schema Model.ImplValidate Model.SpecValidate Proofs.ValidateProofs.
Import ListNotations.
Open Scope list_scope.

Section Vars.
Variable V : vschema.

(* fragments reachable from a list of spread names, through the recorded spreads of each fragment's scope *)
Inductive reachf (pf : list (string * scope_info)) : list string -> string -> Prop :=
| reachf_here spreads n : In n spreads -> reachf pf spreads n
| reachf_step spreads m n : reachf pf spreads m -> In n (si_spreads (scope_of pf m)) -> reachf pf spreads n.

Lemma reachf_mono pf a b n : (forall x, In x a -> In x b) -> reachf pf a n -> reachf pf b n.
Proof. intros H. induction 1 as [sp n Hn|sp m n Hm IH Hn]; [apply reachf_here; auto|eapply reachf_step; eauto]. Qed.
Lemma reachf_lift pf sp spreads n : (forall x, In x sp -> reachf pf spreads x) -> reachf pf sp n -> reachf pf spreads n.
Proof.
  intros H. induction 1 as [sp0 n Hn|sp0 k n Hk IH Hn]; [now apply H|eapply reachf_step; [apply IH; exact H|exact Hn]].
Qed.
Lemma reachf_via pf spreads m n : In m spreads -> reachf pf (si_spreads (scope_of pf m)) n -> reachf pf spreads n.
Proof.
  intros Hm. apply reachf_lift. intros x Hx. eapply reachf_step; [apply reachf_here; exact Hm|exact Hx].
Qed.

Section Closure.
Context {A : Type}.
Variable pf : list (string * scope_info).
Variable get : scope_info -> list A.

Definition seen (spreads : list string) (x : A) : Prop := exists n, reachf pf spreads n /\ In x (get (scope_of pf n)).

Lemma seen_cons n r x : seen (n :: r) x <-> (In x (get (scope_of pf n)) \/ seen (si_spreads (scope_of pf n)) x) \/ seen r x.
Proof.
  unfold seen. split.
  - intros (k & Hk & Hx). revert Hx. remember (n :: r) as sp0 eqn:Esp. induction Hk as [sp k Hin|sp m k Hm IH Hin]; intros Hx; subst sp.
    + destruct Hin as [<-|Hin]; [left; now left|right; exists k; split; [now apply reachf_here|exact Hx]].
    + (* k reached from m *)
      assert (Hm' : (m = n \/ reachf pf (si_spreads (scope_of pf n)) m) \/ reachf pf r m).
      { clear - Hm. remember (n :: r) as sp1 eqn:E1. induction Hm as [sp m Hin|sp j m Hj IHj Hin]; subst sp.
        - destruct Hin as [<-|Hin]; [left; now left|right; now apply reachf_here].
        - destruct (IHj eq_refl) as [[->|Hj']|Hj']; [left; right; now apply reachf_here|left; right; eapply reachf_step; eauto|right; eapply reachf_step; eauto]. }
      destruct Hm' as [[->|Hm']|Hm'].
      * left. right. exists k. split; [now apply reachf_here|exact Hx].
      * left. right. exists k. split; [eapply reachf_step; eauto|exact Hx].
      * right. exists k. split; [eapply reachf_step; eauto|exact Hx].
  - intros [[Hx|(k & Hk & Hx)]|(k & Hk & Hx)].
    + exists n. split; [apply reachf_here; now left|exact Hx].
    + exists k. split; [eapply reachf_via; [now left|exact Hk]|exact Hx].
    + exists k. split; [eapply reachf_mono; [|exact Hk]; intros y Hy; now right|exact Hx].
Qed.

Lemma seen_nil x : ~ seen [] x.
Proof.
  intros (k & Hk & _). remember (@nil string) as sp0 eqn:E. induction Hk as [sp k Hin|sp m k Hm IH Hin]; subst sp; [contradiction|now apply IH].
Qed.

(* when the traversal returns, what it returns is exactly what is seen *)
Lemma via_spreads_mem : forall fuel spreads l,
  via_spreads fuel pf get spreads = Some l -> forall x, In x l <-> seen spreads x.
Proof.
  induction fuel as [|fuel IH]; intros spreads l H; [discriminate|]. cbn [via_spreads] in H.
  assert (Hgen : forall xs acc l0,
            (fix each (xs : list string) (acc : list A) : option (list A) :=
               match xs with
               | [] => Some acc
               | n :: r => match via_spreads fuel pf get (si_spreads (scope_of pf n)) with
                           | Some nested => each r (acc ++ nested ++ get (scope_of pf n))
                           | None => None end
               end) xs acc = Some l0 ->
            forall x, In x l0 <-> In x acc \/ seen xs x).
  { induction xs as [|n r IHr]; intros acc l0 H0 x.
    - injection H0 as <-. split; [now left|intros [Hx|Hx]; [exact Hx|now apply seen_nil in Hx]].
    - destruct (via_spreads fuel pf get (si_spreads (scope_of pf n))) as [nested|] eqn:Hn; [|discriminate].
      rewrite (IHr _ _ H0 x), !in_app_iff, (IH _ _ Hn x), seen_cons. tauto. }
  intros x. rewrite (Hgen spreads [] l H x). split; [intros [[]|Hx]; exact Hx|now right].
Qed.
End Closure.

(* what an operation sees of a kind of record *)
Definition op_sees {A} (st : vctx) (get : scope_info -> list A) (o : operation) (x : A) : Prop :=
  In x (get (scope_of (per_op st) (op_key o))) \/
  seen (per_frag st) get (si_spreads (scope_of (per_op st) (op_key o))) x.

Lemma scope_collect_mem {A} st (get : scope_info -> list A) o l :
  scope_collect st get o = Some l -> forall x, In x l <-> op_sees st get o x.
Proof.
  unfold scope_collect, op_sees. destruct (via_spreads _ _ _ _) as [l0|] eqn:H; [|discriminate].
  intros E x. injection E as <-. rewrite in_app_iff, (via_spreads_mem _ _ _ _ _ H x). reflexivity.
Qed.

(* ---------- the shape shared by the three rules ---------- *)
Lemma fold_rule_quiet {U} (c : operation -> option U) (E : operation -> U -> list verror) ops :
  fold_left (fun acc o => match acc, c o with
                          | Some es, Some u => Some (es ++ E o u)
                          | _, _ => None end) ops (Some []) = Some [] <->
  forall o, In o ops -> exists u, c o = Some u /\ E o u = [].
Proof.
  assert (Hnone : forall l, fold_left (fun acc o => match acc, c o with Some es, Some u => Some (es ++ E o u) | _, _ => None end) l None = None).
  { induction l as [|o l IH]; [reflexivity|exact IH]. }
  assert (Hgen : forall l es, fold_left (fun acc o => match acc, c o with Some es, Some u => Some (es ++ E o u) | _, _ => None end) l (Some es) = Some [] <->
                              es = [] /\ forall o, In o l -> exists u, c o = Some u /\ E o u = []).
  { induction l as [|o l IH]; intros es; cbn [fold_left].
    - split; [intros H; injection H as ->; split; [reflexivity|intros o []]|intros [-> _]; reflexivity].
    - destruct (c o) as [u|] eqn:Ec.
      + rewrite IH. split.
        * intros [H1 H2]. apply app_eq_nil in H1. destruct H1 as [-> H1]. split; [reflexivity|].
          intros o' [<-|Ho']; [exists u; split; [exact Ec|exact H1]|now apply H2].
        * intros [-> H]. destruct (H o (or_introl eq_refl)) as (u' & Eu & Hu). rewrite Ec in Eu. injection Eu as <-.
          split; [cbn; exact Hu|intros o' Ho'; apply H; now right].
      + rewrite Hnone. split; [discriminate|]. intros [_ H]. destruct (H o (or_introl eq_refl)) as (u' & Eu & _). congruence. }
  rewrite Hgen. split; [intros [_ H]; exact H|intros H; split; [reflexivity|exact H]].
Qed.

Lemma upd_assoc_nonnil {K B} (eqb : K -> K -> bool) k (dflt : B) f l : upd_assoc eqb k dflt f l <> [].
Proof. destruct l as [|[k' v] r]; cbn [upd_assoc]; [discriminate|]. destruct (eqb k k'); discriminate. Qed.
Lemma group_vars_nil l : forall acc, group_vars l acc = [] -> l = [] /\ acc = [].
Proof.
  induction l as [|[k v] r IH]; intros acc H; cbn [group_vars] in H; [split; [reflexivity|exact H]|].
  destruct (IH _ H) as [_ Hn]. now apply upd_assoc_nonnil in Hn.
Qed.
Lemma grouped_errors_nil (mk : string * list loc -> verror) l : map mk (group_vars l []) = [] <-> l = [].
Proof.
  split.
  - intros H. apply map_eq_nil in H. now apply group_vars_nil in H.
  - intros ->. reflexivity.
Qed.
Lemma filter_nil {X} (p : X -> bool) l : filter p l = [] <-> forall x, In x l -> p x = false.
Proof.
  induction l as [|a l IH]; cbn [filter]; [split; [intros _ x []|reflexivity]|].
  destruct (p a) eqn:E.
  - split; [discriminate|]. intros H. rewrite (H a (or_introl eq_refl)) in E. discriminate.
  - rewrite IH. split; [intros H x [<-|Hx]; [exact E|now apply H]|intros H x Hx; apply H; now right].
Qed.

(* ---------- 5.8.3: every variable an operation uses -- in its own selection tree or in a fragment it reaches -- is
   declared by that operation ---------- *)
Theorem uses_defined_exact st ops :
  uses_defined_rule st ops = Some [] <->
  forall o, In o ops ->
    scope_collect st si_used o <> None /\
    forall n l, op_sees st si_used o (n, l) -> exists vd, In vd (o_vars o) /\ v_name vd = n.
Proof.
  unfold uses_defined_rule.
  rewrite (fold_rule_quiet (scope_collect st si_used)
             (fun o used => map (fun g => mkerr "all-variable-uses-defined" None (o_loc o :: snd g))
                                (group_vars (filter (fun u => negb (existsb (fun vd => String.eqb (v_name vd) (fst u)) (o_vars o))) used) []))).
  split; intros H o Ho; specialize (H o Ho).
  - destruct H as (used & Ec & He). split; [congruence|]. intros n l Hs.
    apply grouped_errors_nil in He. rewrite filter_nil in He.
    apply (scope_collect_mem st si_used o used Ec) in Hs. specialize (He (n, l) Hs). cbn [fst] in He.
    apply negb_false_iff, existsb_exists in He. destruct He as (vd & Hvd & Heq). apply String.eqb_eq in Heq. eauto.
  - destruct H as [Hc Hd]. destruct (scope_collect st si_used o) as [used|] eqn:Ec; [|now elim Hc].
    exists used. split; [reflexivity|]. apply grouped_errors_nil, filter_nil. intros [n l] Hin. cbn [fst].
    apply negb_false_iff, existsb_exists.
    destruct (Hd n l (proj1 (scope_collect_mem st si_used o used Ec (n, l)) Hin)) as (vd & Hvd & <-).
    exists vd. split; [exact Hvd|apply String.eqb_refl].
Qed.

(* ---------- 5.8.4: every declared variable is used in the operation's selection tree or in a fragment it reaches ---------- *)
Theorem variables_used_exact st ops :
  variables_used_rule st ops = Some [] <->
  forall o, In o ops ->
    scope_collect st si_used o <> None /\
    forall vd, In vd (o_vars o) -> exists l, op_sees st si_used o (v_name vd, l).
Proof.
  unfold variables_used_rule.
  rewrite (fold_rule_quiet (scope_collect st si_used)
             (fun o used => map (fun g => mkerr "all-variables-used" None (o_loc o :: snd g))
                                (group_vars (map (fun vd => (v_name vd, v_loc vd))
                                               (filter (fun vd => negb (existsb (fun u => String.eqb (fst u) (v_name vd)) used)) (o_vars o))) []))).
  split; intros H o Ho; specialize (H o Ho).
  - destruct H as (used & Ec & He). split; [congruence|]. intros vd Hvd.
    apply grouped_errors_nil, map_eq_nil in He. rewrite filter_nil in He. specialize (He vd Hvd).
    apply negb_false_iff, existsb_exists in He. destruct He as ([n l] & Hin & Heq). cbn [fst] in Heq. apply String.eqb_eq in Heq. subst n.
    exists l. now apply (scope_collect_mem st si_used o used Ec).
  - destruct H as [Hc Hd]. destruct (scope_collect st si_used o) as [used|] eqn:Ec; [|now elim Hc].
    exists used. split; [reflexivity|]. apply grouped_errors_nil.
    assert (Hf : filter (fun vd => negb (existsb (fun u => String.eqb (fst u) (v_name vd)) used)) (o_vars o) = []).
    { apply filter_nil. intros vd Hvd. apply negb_false_iff, existsb_exists. destruct (Hd vd Hvd) as (l & Hs).
      exists (v_name vd, l). split; [now apply (scope_collect_mem st si_used o used Ec)|apply String.eqb_refl]. }
    now rewrite Hf.
Qed.

(* ---------- 5.8.5: every recorded use of a variable as the value of an argument the schema knows, by an operation
   declaring that variable, passes the position check ---------- *)
Theorem usages_allowed_exact st ops :
  usages_allowed_rule V st ops = Some [] <->
  forall o, In o ops ->
    scope_collect st si_args o <> None /\
    forall u a vd, op_sees st si_args o u -> schema_argument V u = Some a ->
                   find (fun vd0 => String.eqb (v_name vd0) (au_var u)) (o_vars o) = Some vd -> usage_ok a vd = true.
Proof.
  unfold usages_allowed_rule.
  rewrite (fold_rule_quiet (scope_collect st si_args)
             (fun o uses => flat_map (fun u =>
                match schema_argument V u, find (fun vd => String.eqb (v_name vd) (au_var u)) (o_vars o) with
                | Some a, Some vd => if usage_ok a vd then [] else [mkerr "all-variable-usages-are-allowed" (au_path u) [v_loc vd; au_varloc u]]
                | _, _ => [] end) uses)).
  split; intros H o Ho; specialize (H o Ho).
  - destruct H as (uses & Ec & He). split; [congruence|]. intros u a vd Hs Ha Hvd.
    apply (scope_collect_mem st si_args o uses Ec) in Hs.
    assert (Hu : match schema_argument V u, find (fun vd0 => String.eqb (v_name vd0) (au_var u)) (o_vars o) with
                 | Some a0, Some vd0 => if usage_ok a0 vd0 then [] else [mkerr "all-variable-usages-are-allowed" (au_path u) [v_loc vd0; au_varloc u]]
                 | _, _ => [] end = []).
    { clear - He Hs. induction uses as [|x r IH]; [contradiction|]. cbn [flat_map] in He. apply app_eq_nil in He. destruct He as [H1 H2].
      destruct Hs as [<-|Hs]; [exact H1|now apply IH]. }
    rewrite Ha, Hvd in Hu. destruct (usage_ok a vd); [reflexivity|discriminate].
  - destruct H as [Hc Hd]. destruct (scope_collect st si_args o) as [uses|] eqn:Ec; [|now elim Hc].
    exists uses. split; [reflexivity|].
    assert (Hall : forall u, In u uses -> match schema_argument V u, find (fun vd0 => String.eqb (v_name vd0) (au_var u)) (o_vars o) with
                 | Some a0, Some vd0 => if usage_ok a0 vd0 then [] else [mkerr "all-variable-usages-are-allowed" (au_path u) [v_loc vd0; au_varloc u]]
                 | _, _ => [] end = []).
    { intros u Hin. destruct (schema_argument V u) as [a|] eqn:Ha; [|reflexivity].
      destruct (find _ (o_vars o)) as [vd|] eqn:Hvd; [|reflexivity].
      now rewrite (Hd u a vd (proj1 (scope_collect_mem st si_args o uses Ec u) Hin) Ha Hvd). }
    clear - Hall. induction uses as [|x r IH]; [reflexivity|]. cbn [flat_map]. rewrite (Hall x (or_introl eq_refl)). cbn [app].
    apply IH. intros u Hu. apply Hall. now right.
Qed.

End Vars.
