(* Rule 5.5.2.3 (fragment spread is possible), EXACT.  The walk records every inline fragment and every fragment
   spread under the type scope it is written in (`inlined_in`, `spreaded_in` of the shared context); this file shows
   that what it records is a PURE function of the document -- the entries of each selection tree with the scope handed
   down as the walk's parent_type bookkeeping does -- and that the rule reports nothing exactly when every recorded
   inline fragment with a type condition, and every spread of a defined fragment, can apply in its scope
   (both composite => their possible types intersect). *)
From Coq Require Import ZArith List String Bool Lia.
From TV Require Import Py.Prelude Model.Schema Model.ImplValidate Model.SpecValidate Proofs.ValidateProofs
     Proofs.ValidateValues Proofs.ValidateSites Proofs.ValidateWalk.
From RecordUpdate Require Import RecordSet.
Import ListNotations.
Import RecordSetNotations.
Open Scope list_scope.

Section Spreads.
Variable V : vschema.

(* ---------- steps that leave the scope and the two books alone ---------- *)
Definition K (st st' : vctx) : Prop :=
  parent_type st' = parent_type st /\ inlined_in st' = inlined_in st /\ spreaded_in st' = spreaded_in st.
Lemma K_refl st : K st st. Proof. repeat split. Qed.
Lemma K_trans a b c : K a b -> K b c -> K a c.
Proof. intros (A1 & A2 & A3) (B1 & B2 & B3). repeat split; congruence. Qed.

Lemma emit_K b r st : K st (emit b r st).
Proof.
  unfold emit. destruct (aborted st || crashed st); [apply K_refl|]. destruct r as [es|]; [|repeat split].
  destruct (b && negb match es with [] => true | _ :: _ => false end); repeat split.
Qed.
Lemma emit_ok_K es st : K st (emit_ok es st). Proof. apply emit_K. Qed.
Lemma upd_scope_K f st : K st (upd_scope f st).
Proof. unfold upd_scope. destruct (in_operation st); repeat split. Qed.
Lemma record_var_K n l st : K st (record_var n l st).
Proof. unfold record_var. destruct (in_vardefs st); [apply K_refl|apply upd_scope_K]. Qed.

Fixpoint walk_value_K path v {struct v} : forall st, K st (walk_value path v st).
Proof.
  destruct v; intros st; cbn [walk_value]; try apply K_refl.
  - apply record_var_K.
  - revert st. induction items as [|x r IH]; intros st; [apply K_refl|].
    exact (K_trans _ _ _ (walk_value_K path x st) (IH _)).
  - assert (H : forall st0, K st0 ((fix go (xs : list (string * lit)) (st : vctx) : vctx :=
                  match xs with [] => st | (_, x) :: r => go r (walk_value path x st) end) fields st0)).
    { induction fields as [|[k x] r IH]; intros st0; [apply K_refl|].
      exact (K_trans _ _ _ (walk_value_K path x st0) (IH _)). }
    destruct fields as [|kv r]; [apply K_refl|]. exact (K_trans _ _ _ (H st) (emit_ok_K _ _)).
Qed.

Lemma walk_argument_K path a st : K st (walk_argument path a st).
Proof.
  unfold walk_argument. pose proof (walk_value_K path (a_value a) st) as H.
  destruct (a_value a); try exact H. exact (K_trans _ _ _ H (upd_scope_K _ _)).
Qed.
Lemma walk_arguments_K path args st : K st (walk_arguments path args st).
Proof.
  unfold walk_arguments. destruct args as [|a0 r0]; [apply K_refl|].
  apply K_trans with (fold_left (fun st a => walk_argument path a st) (a0 :: r0) st); [|apply emit_ok_K].
  generalize (a0 :: r0). intros args. revert st. induction args as [|a r IH]; intros st; [apply K_refl|].
  cbn [fold_left]. exact (K_trans _ _ _ (walk_argument_K path a st) (IH _)).
Qed.
Lemma walk_directive_K path d st : K st (walk_directive V path d st).
Proof.
  unfold walk_directive.
  repeat (eapply K_trans; [|apply emit_ok_K || apply emit_K]).
  eapply K_trans; [|match goal with |- K _ (?x <| in_directive := false |>) => instantiate (1 := x); repeat split end].
  eapply K_trans; [|apply walk_arguments_K]. repeat split.
Qed.
Lemma walk_directives_K path ds st : K st (walk_directives V path ds st).
Proof.
  unfold walk_directives. destruct ds as [|d0 r0]; [apply K_refl|].
  apply K_trans with (fold_left (fun st d => walk_directive V path d st) (d0 :: r0) st); [|apply emit_ok_K].
  generalize (d0 :: r0). intros ds. revert st. induction ds as [|d r IH]; intros st; [apply K_refl|].
  cbn [fold_left]. exact (K_trans _ _ _ (walk_directive_K path d st) (IH _)).
Qed.
Lemma field_rules_K path l name args dirs hs st : K st (field_rules V path l name args dirs hs st).
Proof. unfold field_rules. repeat (eapply K_trans; [|apply emit_ok_K || apply emit_K]). apply K_refl. Qed.

(* ---------- what the walk records below a selection: a pure function of the scope ---------- *)
Definition ientry := (option string * (option string * loc))%type.                 (* scope, (type condition, location) *)
Definition sentry := (option string * (string * loc * option (list pkey)))%type.  (* scope, (fragment name, location, path) *)

Definition inner_scope (scope tc : option string) : option string := match tc with Some t => Some t | None => scope end.

Fixpoint inl_of (scope : option string) (s : selection) {struct s} : list ientry :=
  match s with
  | SField _ _ name _ _ sels =>
      (fix go (xs : list selection) : list ientry :=
         match xs with [] => [] | x :: r => inl_of (field_type_name V scope name) x ++ go r end) sels
  | SSpread _ _ _ => []
  | SInline l tc _ sels =>
      (fix go (xs : list selection) : list ientry :=
         match xs with [] => [] | x :: r => inl_of (inner_scope scope tc) x ++ go r end) sels ++ [(scope, (tc, l))]
  end.

Fixpoint spr_of (scope : option string) (path : opath) (s : selection) {struct s} : list sentry :=
  match s with
  | SField _ _ name _ _ sels =>
      (fix go (xs : list selection) : list sentry :=
         match xs with [] => [] | x :: r => spr_of (field_type_name V scope name) (path_push path name) x ++ go r end) sels
  | SSpread l name _ => [(scope, (name, l, path))]
  | SInline _ tc _ sels =>
      (fix go (xs : list selection) : list sentry :=
         match xs with [] => [] | x :: r => spr_of (inner_scope scope tc) path x ++ go r end) sels
  end.

Definition inl_of_sels scope sels : list ientry := flat_map (inl_of scope) sels.
Definition spr_of_sels scope path sels : list sentry := flat_map (spr_of scope path) sels.

Definition addI (G : list (option string * list (option string * loc))) (e : ientry) :=
  upd_assoc opt_str_eqb (fst e) [] (fun x => x ++ [snd e]) G.
Definition addS (G : list (option string * list (string * loc * option (list pkey)))) (e : sentry) :=
  upd_assoc opt_str_eqb (fst e) [] (fun x => x ++ [snd e]) G.

Definition books (scope : option string) (IE : list ientry) (SE : list sentry) (st st' : vctx) : Prop :=
  parent_type st' = scope /\
  inlined_in st' = fold_left addI IE (inlined_in st) /\
  spreaded_in st' = fold_left addS SE (spreaded_in st).

Lemma books_K scope st st' : parent_type st = scope -> K st st' -> books scope [] [] st st'.
Proof. intros <- (A & B & C). repeat split; assumption. Qed.
Lemma books_trans scope I1 S1 I2 S2 a b c :
  books scope I1 S1 a b -> books scope I2 S2 b c -> books scope (I1 ++ I2) (S1 ++ S2) a c.
Proof.
  intros (A1 & A2 & A3) (B1 & B2 & B3). split; [exact B1|]. rewrite !fold_left_app. split; congruence.
Qed.
Lemma books_then_K scope IE SE a b c : books scope IE SE a b -> K b c -> books scope IE SE a c.
Proof.
  intros H Hk. rewrite <- (app_nil_r IE), <- (app_nil_r SE). eapply books_trans; [exact H|].
  apply books_K; [exact (proj1 H)|exact Hk].
Qed.
Lemma K_then_books scope IE SE a b c : K a b -> books scope IE SE b c -> books scope IE SE a c.
Proof.
  intros (A1 & A2 & A3) (B1 & B2 & B3). repeat split; congruence.
Qed.

Fixpoint walk_selection_books path s {struct s} : forall st,
  books (parent_type st) (inl_of (parent_type st) s) (spr_of (parent_type st) path s) st (walk_selection V path s st).
Proof.
  destruct s as [l alias name args dirs sels|l name dirs|l tc dirs sels]; intros st; cbn [walk_selection inl_of spr_of].
  - (* field *)
    set (saved := parent_type st). set (path' := path_push path name).
    set (ftn := field_type_name V saved name).
    set (st1 := st <| parent_type := ftn |> <| in_directive := false |> <| cur_field := (show_opt saved ++ "." ++ name)%string |>).
    set (st3 := walk_directives V path' dirs (walk_arguments path' args st1)).
    assert (H3 : books ftn [] [] st st3 /\ inlined_in st3 = inlined_in st /\ spreaded_in st3 = spreaded_in st).
    { pose proof (K_trans _ _ _ (walk_arguments_K path' args st1) (walk_directives_K path' dirs _)) as (A & B & C).
      fold st3 in A, B, C. repeat split; [rewrite A; reflexivity|rewrite B; reflexivity|rewrite C; reflexivity|rewrite B; reflexivity|rewrite C; reflexivity]. }
    assert (Hin : forall sels0 st0, parent_type st0 = ftn ->
              books ftn ((fix go (xs : list selection) : list ientry :=
                            match xs with [] => [] | x :: r => inl_of ftn x ++ go r end) sels0)
                        ((fix go (xs : list selection) : list sentry :=
                            match xs with [] => [] | x :: r => spr_of ftn path' x ++ go r end) sels0)
                    st0 ((fix go (xs : list selection) (st : vctx) : vctx :=
                            match xs with [] => st | x :: r => go r (walk_selection V path' x st) end) sels0 st0)).
    { clear - walk_selection_books. induction sels0 as [|x r IH]; intros st0 Hp; [repeat split; exact Hp|].
      pose proof (walk_selection_books path' x st0) as Hx. rewrite Hp in Hx.
      eapply books_trans; [exact Hx|]. apply IH. exact (proj1 Hx). }
    destruct H3 as [(P3 & _) [I3 S3]].
    pose proof (Hin sels st3 P3) as (P4 & I4 & S4).
    set (st4 := (fix go (xs : list selection) (st : vctx) : vctx :=
                   match xs with [] => st | x :: r => go r (walk_selection V path' x st) end) sels st3) in *.
    pose proof (field_rules_K path' l name args dirs (match sels with [] => false | _ => true end) (st4 <| parent_type := saved |>)) as (A & B & C).
    repeat split.
    + rewrite A. reflexivity.
    + rewrite B. cbn. rewrite I4, I3. reflexivity.
    + rewrite C. cbn. rewrite S4, S3. reflexivity.
  - (* spread *)
    set (st1 := emit_ok (valid_locations_errors V path "FRAGMENT_SPREAD" l dirs) (walk_directives V path dirs st)).
    pose proof (K_trans _ _ _ (walk_directives_K path dirs st)
                  (emit_ok_K (valid_locations_errors V path "FRAGMENT_SPREAD" l dirs) (walk_directives V path dirs st))) as (A & B & C).
    fold st1 in A, B, C.
    pose proof (upd_scope_K (fun si => si <| si_spreads ::= fun x => x ++ [name] |>)
                  (st1 <| frag_spreads ::= fun x => x ++ [(name, l)] |>
                       <| spreaded_in ::= upd_assoc opt_str_eqb (parent_type st1) [] (fun x => x ++ [(name, l, path)]) |>)) as (A' & B' & C').
    repeat split.
    + rewrite A'. cbn. exact A.
    + rewrite B'. cbn. exact B.
    + rewrite C'. cbn. unfold addS. cbn [fst snd]. now rewrite A, C.
  - (* inline fragment *)
    set (saved := parent_type st). set (inner := inner_scope saved tc).
    set (st1 := match tc with Some t => st <| parent_type := Some t |> | None => st end).
    assert (H1 : parent_type st1 = inner /\ inlined_in st1 = inlined_in st /\ spreaded_in st1 = spreaded_in st).
    { unfold st1, inner, inner_scope. destruct tc; repeat split. }
    destruct H1 as (P1 & I1 & S1).
    set (st2 := walk_directives V path dirs st1).
    pose proof (walk_directives_K path dirs st1) as (A2 & B2 & C2). fold st2 in A2, B2, C2.
    assert (Hin : forall sels0 st0, parent_type st0 = inner ->
              books inner ((fix go (xs : list selection) : list ientry :=
                            match xs with [] => [] | x :: r => inl_of inner x ++ go r end) sels0)
                        ((fix go (xs : list selection) : list sentry :=
                            match xs with [] => [] | x :: r => spr_of inner path x ++ go r end) sels0)
                    st0 ((fix go (xs : list selection) (st : vctx) : vctx :=
                            match xs with [] => st | x :: r => go r (walk_selection V path x st) end) sels0 st0)).
    { clear - walk_selection_books. induction sels0 as [|x r IH]; intros st0 Hp; [repeat split; exact Hp|].
      pose proof (walk_selection_books path x st0) as Hx. rewrite Hp in Hx.
      eapply books_trans; [exact Hx|]. apply IH. exact (proj1 Hx). }
    pose proof (Hin sels st2 ltac:(congruence)) as (P3 & I3 & S3).
    set (st3 := (fix go (xs : list selection) (st : vctx) : vctx :=
                   match xs with [] => st | x :: r => go r (walk_selection V path x st) end) sels st2) in *.
    match goal with |- books _ _ _ _ (?x <| parent_type := saved |>) =>
      match x with ?y <| inlined_in ::= ?f |> => set (st6 := y) end end.
    assert (K6 : K st3 st6).
    { unfold st6. eapply K_trans; [eapply K_trans; [apply emit_ok_K|apply emit_ok_K]|apply emit_ok_K]. }
    destruct K6 as (A6 & B6 & C6).
    repeat split.
    + cbn. rewrite fold_left_app. cbn [fold_left]. unfold addI at 1. cbn [fst snd]. now rewrite B6, I3, B2, I1.
    + cbn. now rewrite C6, S3, C2, S1.
Qed.

(* ---------- selections, fragments, operations, the whole document ---------- *)
Lemma walk_selections_books path sels : forall st,
  books (parent_type st) (inl_of_sels (parent_type st) sels) (spr_of_sels (parent_type st) path sels) st (walk_selections V path sels st).
Proof.
  unfold walk_selections, inl_of_sels, spr_of_sels. induction sels as [|x r IH]; intros st; [repeat split|].
  cbn [fold_left flat_map]. pose proof (walk_selection_books path x st) as Hx.
  eapply books_trans; [exact Hx|]. specialize (IH (walk_selection V path x st)). rewrite (proj1 Hx) in IH. exact IH.
Qed.

Lemma walk_vardefs_K vds st : K st (walk_vardefs V vds st).
Proof.
  unfold walk_vardefs. destruct vds as [|v0 r0]; [apply K_refl|].
  eapply K_trans; [|apply emit_ok_K].
  set (st1 := st <| in_vardefs := true |>).
  assert (H : forall vds0 st0, K st0 (fold_left (fun st vd => walk_vardef V vd st) vds0 st0)).
  { induction vds0 as [|vd r IH]; intros st0; [apply K_refl|]. cbn [fold_left].
    eapply K_trans; [|apply IH]. unfold walk_vardef. eapply K_trans; [|apply emit_ok_K].
    destruct (v_default vd); [apply walk_value_K|apply K_refl]. }
  eapply K_trans; [eapply K_trans; [|apply (H (v0 :: r0) st1)]|]; repeat split.
Qed.

Definition op_inl (o : operation) := inl_of_sels (op_root V (o_kind o)) (o_sels o).
Definition op_spr (o : operation) := spr_of_sels (op_root V (o_kind o)) None (o_sels o).
Definition fr_inl (f : fragment) := inl_of_sels (Some (fr_type f)) (fr_sels f).
Definition fr_spr (f : fragment) := spr_of_sels (Some (fr_type f)) None (fr_sels f).

Lemma walk_operation_books o st :
  inlined_in (walk_operation V o st) = fold_left addI (op_inl o) (inlined_in st) /\
  spreaded_in (walk_operation V o st) = fold_left addS (op_spr o) (spreaded_in st).
Proof.
  unfold walk_operation.
  set (st1 := st <| parent_type := op_root V (o_kind o) |> <| in_operation := true |> <| cur_op := op_key o |>
                 <| per_op ::= upd_assoc String.eqb (op_key o) empty_si (fun x => x) |>).
  set (st3 := walk_directives V None (o_dirs o) (walk_vardefs V (o_vars o) st1)).
  pose proof (K_trans _ _ _ (walk_vardefs_K (o_vars o) st1) (walk_directives_K None (o_dirs o) _)) as (A & B & C). fold st3 in A, B, C.
  pose proof (walk_selections_books None (o_sels o) st3) as (_ & I4 & S4).
  pose proof (emit_ok_K (valid_locations_errors V None (op_loc_name (o_kind o)) (o_loc o) (o_dirs o)) (walk_selections V None (o_sels o) st3)) as (_ & B5 & C5).
  rewrite B5, C5, I4, S4, B, C, A. split; reflexivity.
Qed.

Lemma walk_fragment_books f st :
  inlined_in (walk_fragment V f st) = fold_left addI (fr_inl f) (inlined_in st) /\
  spreaded_in (walk_fragment V f st) = fold_left addS (fr_spr f) (spreaded_in st).
Proof.
  unfold walk_fragment.
  set (st1 := st <| parent_type := Some (fr_type f) |> <| in_operation := false |> <| cur_frag := fr_name f |>
                 <| per_frag ::= upd_assoc String.eqb (fr_name f) empty_si (fun x => x) |>).
  set (st2 := walk_directives V None (fr_dirs f) st1).
  pose proof (walk_directives_K None (fr_dirs f) st1) as (A & B & C). fold st2 in A, B, C.
  pose proof (walk_selections_books None (fr_sels f) st2) as (_ & I3 & S3).
  set (st3 := walk_selections V None (fr_sels f) st2) in *.
  match goal with |- inlined_in (?x <| parent_type := _ |>) = _ /\ _ => set (st6 := x) end.
  assert (K6 : K st3 st6) by (unfold st6; eapply K_trans; [eapply K_trans; [apply emit_ok_K|apply emit_ok_K]|apply emit_ok_K]).
  destruct K6 as (_ & B6 & C6). cbn. rewrite B6, C6, I3, S3, B, C, A. split; reflexivity.
Qed.

Definition doc_inl (doc : document) : list ientry := flat_map op_inl (operations doc) ++ flat_map fr_inl (fragments doc).
Definition doc_spr (doc : document) : list sentry := flat_map op_spr (operations doc) ++ flat_map fr_spr (fragments doc).

Theorem walked_books doc :
  inlined_in (walked V doc) = fold_left addI (doc_inl doc) [] /\
  spreaded_in (walked V doc) = fold_left addS (doc_spr doc) [].
Proof.
  unfold walked, doc_inl, doc_spr. rewrite !fold_left_app.
  assert (Hops : forall ops st, inlined_in (fold_left (fun st o => walk_operation V o st) ops st) = fold_left addI (flat_map op_inl ops) (inlined_in st) /\
                                spreaded_in (fold_left (fun st o => walk_operation V o st) ops st) = fold_left addS (flat_map op_spr ops) (spreaded_in st)).
  { induction ops as [|o r IH]; intros st; [split; reflexivity|]. cbn [fold_left flat_map]. rewrite !fold_left_app.
    destruct (walk_operation_books o st) as [A B]. destruct (IH (walk_operation V o st)) as [A' B']. rewrite A', B', A, B. split; reflexivity. }
  assert (Hfrs : forall frs st, inlined_in (fold_left (fun st f => walk_fragment V f st) frs st) = fold_left addI (flat_map fr_inl frs) (inlined_in st) /\
                                spreaded_in (fold_left (fun st f => walk_fragment V f st) frs st) = fold_left addS (flat_map fr_spr frs) (spreaded_in st)).
  { induction frs as [|f r IH]; intros st; [split; reflexivity|]. cbn [fold_left flat_map]. rewrite !fold_left_app.
    destruct (walk_fragment_books f st) as [A B]. destruct (IH (walk_fragment V f st)) as [A' B']. rewrite A', B', A, B. split; reflexivity. }
  destruct (Hfrs (fragments doc) (fold_left (fun st o => walk_operation V o st) (operations doc) init_ctx)) as [A B].
  destruct (Hops (operations doc) init_ctx) as [A' B']. rewrite A, B, A', B'. split; reflexivity.
Qed.

(* ---------- the grouped books hold exactly the recorded entries ---------- *)
Lemma opt_str_eqb_eq a b : opt_str_eqb a b = true <-> a = b.
Proof.
  destruct a as [x|], b as [y|]; cbn; split; intros H; try discriminate; try reflexivity.
  - apply String.eqb_eq in H. now subst.
  - injection H as ->. apply String.eqb_refl.
Qed.

Section Groups.
Context {A : Type}.
Definition gmem (G : list (option string * list A)) (k : option string) (m : A) : Prop :=
  exists ms, In (k, ms) G /\ In m ms.
Definition gadd (G : list (option string * list A)) (e : option string * A) :=
  upd_assoc opt_str_eqb (fst e) [] (fun x => x ++ [snd e]) G.

Lemma gadd_mem G e k m : gmem (gadd G e) k m <-> gmem G k m \/ (k, m) = e.
Proof.
  destruct e as [k0 m0]. unfold gadd. cbn [fst snd].
  induction G as [|[k' ms'] G IH]; cbn [upd_assoc].
  - split.
    + intros (ms & [H|[]] & Hm). injection H as <- <-. destruct Hm as [<-|[]]. now right.
    + intros [(ms & [] & _)|H]. injection H as -> ->. exists [m0]. split; [now left|now left].
  - destruct (opt_str_eqb k0 k') eqn:E.
    + apply opt_str_eqb_eq in E. subst k'. split.
      * intros (ms & [H|H] & Hm).
        -- injection H as <- <-. apply in_app_or in Hm. destruct Hm as [Hm|[<-|[]]]; [left; exists ms'; split; [now left|exact Hm]|now right].
        -- left. exists ms. split; [now right|exact Hm].
      * intros [(ms & [H|H] & Hm)|H].
        -- injection H as <- <-. exists (ms' ++ [m0]). split; [now left|apply in_or_app; now left].
        -- exists ms. split; [now right|exact Hm].
        -- injection H as -> ->. exists (ms' ++ [m0]). split; [now left|apply in_or_app; right; now left].
    + split.
      * intros (ms & [H|H] & Hm).
        -- injection H as <- <-. left. exists ms'. split; [now left|exact Hm].
        -- destruct (proj1 IH (ex_intro _ ms (conj H Hm))) as [(ms2 & H2 & Hm2)|H2]; [left; exists ms2; split; [now right|exact Hm2]|now right].
      * intros [(ms & [H|H] & Hm)|H].
        -- injection H as <- <-. exists ms'. split; [now left|exact Hm].
        -- destruct (proj2 IH (or_introl (ex_intro _ ms (conj H Hm)))) as (ms2 & H2 & Hm2). exists ms2. split; [now right|exact Hm2].
        -- destruct (proj2 IH (or_intror H)) as (ms2 & H2 & Hm2). exists ms2. split; [now right|exact Hm2].
Qed.

Lemma gfold_mem E : forall G k m, gmem (fold_left gadd E G) k m <-> gmem G k m \/ In (k, m) E.
Proof.
  induction E as [|e E IH]; intros G k m; cbn [fold_left].
  - split; [now left|intros [H|[]]; exact H].
  - rewrite IH, gadd_mem. cbn [In]. split.
    + intros [[H|H]|H]; [now left|right; left; now symmetry|right; now right].
    + intros [H|[H|H]]; [left; now left|left; right; now symmetry|now right].
Qed.
End Groups.

(* ---------- the rule ---------- *)
(* can a fragment with this type condition apply in this scope?  (the specification's rule: when both are
   composite their possible types must intersect) *)
Definition applies_in (scope tc : option string) : bool :=
  match composite_possible V scope with
  | None => true
  | Some ps => node_possible V tc ps
  end.

Lemma applies_in_spec scope t : applies_in scope (Some t) = applies V scope t.
Proof.
  unfold applies_in, applies, composite_possible, node_possible, s_composite, s_type, s_possible.
  destruct scope as [p|]; [|reflexivity].
  destruct (vfind_type V p) as [dp|]; [|reflexivity].
  destruct (is_composite_def dp); [|reflexivity]. cbn [andb].
  destruct (vfind_type V t) as [dt|]; [|reflexivity]. destruct (is_composite_def dt); reflexivity.
Qed.

Lemma flat_map_nil {X Y} (f : X -> list Y) l : flat_map f l = [] <-> forall x, In x l -> f x = [].
Proof.
  induction l as [|a l IH]; cbn [flat_map]; [split; [intros _ x []|reflexivity]|].
  split.
  - intros H x [<-|Hx]; apply app_eq_nil in H; destruct H as [H1 H2]; [exact H1|now apply IH].
  - intros H. rewrite (H a (or_introl eq_refl)). apply IH. intros x Hx. apply H. now right.
Qed.

Lemma inline_rule_exact G :
  inline_possible_errors V G = [] <-> forall k tc l, gmem G k (tc, l) -> applies_in k tc = true.
Proof.
  unfold inline_possible_errors. rewrite flat_map_nil. split.
  - intros H k tc l (ms & Hin & Hm). specialize (H (k, ms) Hin). cbn [fst snd] in H. unfold applies_in.
    destruct (composite_possible V k) as [ps|]; [|reflexivity].
    rewrite flat_map_nil in H. specialize (H (tc, l) Hm). cbn [fst snd] in H.
    destruct (node_possible V tc ps); [reflexivity|discriminate].
  - intros H [k ms] Hin. cbn [fst snd]. destruct (composite_possible V k) as [ps|] eqn:Ec; [|reflexivity].
    rewrite flat_map_nil. intros [tc l] Hm. cbn [fst snd].
    pose proof (H k tc l (ex_intro _ ms (conj Hin Hm))) as Ha. unfold applies_in in Ha. rewrite Ec in Ha. now rewrite Ha.
Qed.

Lemma combine_found_fst {X Y} (found : list X) (ss : list Y) : (List.length found <= List.length ss)%nat -> map fst (combine found ss) = found.
Proof.
  revert ss. induction found as [|f r IH]; intros ss H; [reflexivity|]. destruct ss as [|y ss]; [cbn in H; lia|].
  cbn [combine map fst]. f_equal. apply IH. cbn in H. lia.
Qed.

Lemma found_length (frs : list fragment) {Y} (name : Y -> string) (ss : list Y) :
  (List.length (flat_map (fun s => match find_fragment frs (name s) with Some f => [f] | None => [] end) ss) <= List.length ss)%nat.
Proof.
  induction ss as [|y ss IH]; [reflexivity|]. cbn [flat_map]. rewrite app_length. cbn [List.length].
  destruct (find_fragment frs (name y)); cbn [List.length]; lia.
Qed.

Lemma spread_rule_exact frs G :
  spread_possible_errors V frs G = [] <->
  forall k n l p f, gmem G k (n, l, p) -> find_fragment frs n = Some f -> applies_in k (Some (fr_type f)) = true.
Proof.
  unfold spread_possible_errors. rewrite flat_map_nil. split.
  - intros H k n l p f (ms & Hin & Hm) Hf. specialize (H (k, ms) Hin). cbn [fst snd] in H. unfold applies_in.
    destruct (composite_possible V k) as [ps|]; [|reflexivity].
    set (found := flat_map (fun s => match find_fragment frs (fst (fst s)) with Some f0 => [f0] | None => [] end) ms) in H.
    assert (Hfin : In f found).
    { unfold found. apply in_flat_map. exists (n, l, p). split; [exact Hm|]. cbn [fst]. rewrite Hf. now left. }
    rewrite flat_map_nil in H.
    pose proof (combine_found_fst found ms (found_length frs (fun s => fst (fst s)) ms)) as Hfst.
    rewrite <- Hfst in Hfin. apply in_map_iff in Hfin. destruct Hfin as ([f' s'] & Hf' & Hpair). cbn [fst] in Hf'. subst f'.
    specialize (H (f, s') Hpair). cbn beta iota in H. destruct (node_possible V (Some (fr_type f)) ps); [reflexivity|discriminate].
  - intros H [k ms] Hin. cbn [fst snd]. destruct (composite_possible V k) as [ps|] eqn:Ec; [|reflexivity].
    rewrite flat_map_nil. intros [f s'] Hpair.
    assert (Hfin : In f (flat_map (fun s => match find_fragment frs (fst (fst s)) with Some f0 => [f0] | None => [] end) ms)).
    { apply in_combine_l in Hpair. exact Hpair. }
    apply in_flat_map in Hfin. destruct Hfin as ([[n l] p] & Hm & Hf). cbn [fst] in Hf.
    destruct (find_fragment frs n) as [f0|] eqn:Ef; [|contradiction]. destruct Hf as [<-|[]].
    pose proof (H k n l p f0 (ex_intro _ ms (conj Hin Hm)) Ef) as Ha. unfold applies_in in Ha. rewrite Ec in Ha. now rewrite Ha.
Qed.

(* EXACTNESS of rule 5.5.2.3 over the whole document *)
Theorem possible_spreads_exact doc :
  inline_possible_errors V (inlined_in (walked V doc)) ++
  spread_possible_errors V (fragments doc) (spreaded_in (walked V doc)) = [] <->
  (forall scope tc l, In (scope, (tc, l)) (doc_inl doc) -> applies_in scope tc = true) /\
  (forall scope n l p f, In (scope, (n, l, p)) (doc_spr doc) -> find_fragment (fragments doc) n = Some f ->
                         applies_in scope (Some (fr_type f)) = true).
Proof.
  destruct (walked_books doc) as [HI HS]. rewrite HI, HS.
  split.
  - intros H. apply app_eq_nil in H. destruct H as [H1 H2].
    rewrite inline_rule_exact in H1. rewrite spread_rule_exact in H2. split.
    + intros scope tc l Hin. apply (H1 scope tc l). apply (gfold_mem (doc_inl doc) [] scope (tc, l)). now right.
    + intros scope n l p f Hin Hf. apply (H2 scope n l p f); [|exact Hf].
      apply (gfold_mem (doc_spr doc) [] scope (n, l, p)). now right.
  - intros [H1 H2].
    assert (E1 : inline_possible_errors V (fold_left addI (doc_inl doc) []) = []).
    { apply inline_rule_exact. intros k tc l Hm. apply (gfold_mem (doc_inl doc) [] k (tc, l)) in Hm.
      destruct Hm as [(ms & [] & _)|Hm]. now apply (H1 k tc l). }
    assert (E2 : spread_possible_errors V (fragments doc) (fold_left addS (doc_spr doc) []) = []).
    { apply spread_rule_exact. intros k n l p f Hm Hf. apply (gfold_mem (doc_spr doc) [] k (n, l, p)) in Hm.
      destruct Hm as [(ms & [] & _)|Hm]. now apply (H2 k n l p f). }
    now rewrite E1, E2.
Qed.

End Spreads.
