(* execute_fields with per-field settings (Model/ImplExec.v exec_fields_mixed): when every field of the
   selection set is concurrent it is exec_fields_conc, when every field is sequential it is
   exec_fields_seq -- so the uniform configurations are the two corner cases of one definition. *)
From Coq Require Import ZArith List String Bool.
From TV Require Import Py.Prelude Model.Schema Model.ImplInput Model.ImplExec.
Import ListNotations.

Section Mixed.
Variable rf : string -> list fnode -> M (option pyval).

Lemma pass1_all_conc isc fs s :
  (forall k ns, isc k ns = true) ->
  mixed_pass1 isc rf fs s = (OVal (map (fun _ => None) fs), s).
Proof.
  intros H. induction fs as [|[k nodes] rest IH]; cbn [mixed_pass1 map]; [reflexivity|].
  rewrite H, IH. reflexivity.
Qed.

Lemma pass2_all_deferred fs s :
  mixed_pass2 rf fs (map (fun _ => None) fs) s = exec_fields_conc rf fs s.
Proof.
  revert s. induction fs as [|[k nodes] rest IH]; intros s; cbn [mixed_pass2 exec_fields_conc map]; [reflexivity|].
  destruct (rf k nodes s) as [r s1]. rewrite IH. reflexivity.
Qed.

Theorem mixed_all_conc isc fs s :
  (forall k ns, isc k ns = true) -> exec_fields_mixed isc rf fs s = exec_fields_conc rf fs s.
Proof. intros H. unfold exec_fields_mixed. rewrite (pass1_all_conc isc fs s H). apply pass2_all_deferred. Qed.

Theorem mixed_all_seq isc fs s :
  (forall k ns, isc k ns = false) -> exec_fields_mixed isc rf fs s = exec_fields_seq rf fs s.
Proof.
  intros H. unfold exec_fields_mixed. revert s.
  induction fs as [|[k nodes] rest IH]; intros s; cbn [mixed_pass1 exec_fields_seq]; [reflexivity|].
  rewrite H. destruct (rf k nodes s) as [[o|l|e] s1]; try reflexivity.
  specialize (IH s1). destruct (mixed_pass1 isc rf rest s1) as [[slots|l|e] s2].
  - cbn [mixed_pass2]. rewrite IH. destruct (exec_fields_seq rf rest s1) as [[kv|l|e] s3]; reflexivity.
  - rewrite <- IH. reflexivity.
  - rewrite <- IH. reflexivity.
Qed.
End Mixed.
