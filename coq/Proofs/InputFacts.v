(* Consequences of the specification model of variable coercion used by property C04. *)
From Coq Require Import ZArith List String Bool Lia.
From TV Require Import Py.Prelude Model.Schema Model.ImplInput Model.SpecInput Proofs.InputRefine.
Import ListNotations.
Open Scope string_scope.
Open Scope list_scope.

Section Facts.
Variable sch : schema.

(* only the declared variables are looked at *)
Lemma spec_variable_depends_on_own_entry fuel vd raw raw' :
  dict_get (v_name vd) raw = dict_get (v_name vd) raw' ->
  spec_variable sch fuel vd raw = spec_variable sch fuel vd raw'.
Proof. unfold spec_variable. now intros ->. Qed.

Theorem extra_variables_ignored fuel vds raw raw' :
  (forall vd, In vd vds -> dict_get (v_name vd) raw = dict_get (v_name vd) raw') ->
  spec_coerce_variables sch fuel vds raw = spec_coerce_variables sch fuel vds raw'.
Proof.
  induction vds as [|vd vds IH]; intros H; cbn [spec_coerce_variables]; [reflexivity|].
  rewrite (spec_variable_depends_on_own_entry fuel vd raw raw') by (apply H; now left).
  rewrite IH; [reflexivity|]. intros; apply H; now right.
Qed.

(* what one declared variable contributes *)
Inductive contributes (vd : var_def) : option cres -> vars -> list verr -> Prop :=
| ContribNothing : contributes vd None [] []
| ContribValue v : contributes vd (Some (v, [])) [(v_name vd, v)] []
| ContribErrors v e es :
    contributes vd (Some (v, e :: es)) [] (map (fun x => (v_name vd, x)) (e :: es)).

(* the result is the concatenation, in declaration order, of each variable's contribution *)
Theorem coerce_variables_shape fuel raw : forall vds vals errs,
  spec_coerce_variables sch fuel vds raw = Ok (vals, errs) ->
  exists parts : list (option cres * vars * list verr),
    List.length parts = List.length vds /\
    vals = flat_map (fun p => snd (fst p)) parts /\
    errs = flat_map snd parts /\
    Forall2 (fun vd p => spec_variable sch fuel vd raw = Ok (fst (fst p)) /\
                         contributes vd (fst (fst p)) (snd (fst p)) (snd p)) vds parts.
Proof.
  induction vds as [|vd vds IH]; intros vals errs; cbn [spec_coerce_variables].
  - intros H; inversion H. exists []. repeat split; constructor.
  - destruct (spec_variable sch fuel vd raw) as [o|e] eqn:Ev; cbn [bind]; [|discriminate].
    destruct (spec_coerce_variables sch fuel vds raw) as [[vals' errs']|e] eqn:Er; cbn [bind]; [|discriminate].
    destruct (IH vals' errs' eq_refl) as (parts & Hl & Hv & He & Hf).
    destruct o as [[v [|e es]]|]; intros H; inversion H; subst vals errs.
    + exists ((Some (v, []), [(v_name vd, v)], []) :: parts).
      split; [cbn; congruence|]. split; [cbn; congruence|]. split; [cbn; congruence|].
      constructor; [split; [exact Ev|constructor]|exact Hf].
    + exists ((Some (v, e :: es), [], map (fun x => (v_name vd, x)) (e :: es)) :: parts).
      split; [cbn; congruence|]. split; [cbn; congruence|].
      split; [cbn [flat_map snd fst]; rewrite <- He; reflexivity|].
      constructor; [split; [exact Ev|constructor]|exact Hf].
    + exists ((None, [], []) :: parts).
      split; [cbn; congruence|]. split; [cbn; congruence|]. split; [cbn; congruence|].
      constructor; [split; [exact Ev|constructor]|exact Hf].
Qed.

(* every reported error names a declared variable whose own coercion failed with that error *)
Theorem errors_sound fuel raw vds vals errs n e :
  spec_coerce_variables sch fuel vds raw = Ok (vals, errs) ->
  In (n, e) errs ->
  exists vd v es, In vd vds /\ v_name vd = n /\
                  spec_variable sch fuel vd raw = Ok (Some (v, es)) /\ In e es.
Proof.
  intros H Hin. destruct (coerce_variables_shape fuel raw vds vals errs H) as (parts & _ & _ & -> & Hf).
  apply in_flat_map in Hin. destruct Hin as (p & Hp & Hin).
  clear H. induction Hf as [|vd p' vds' parts' [Hs Hc] Hf IH]; [contradiction|].
  destruct Hp as [-> | Hp].
  - inversion Hc as [H0 H1 H2|v H0 H1 H2|v e0 es H0 H1 H2]; rewrite <- ?H2, <- ?H1 in Hin;
      try contradiction.
    change (In (n, e) (map (fun x : cerr => (v_name vd, x)) (e0 :: es))) in Hin.
    apply in_map_iff in Hin. destruct Hin as (x & Hx & Hin). inversion Hx; subst.
    exists vd, v, (e0 :: es). rewrite <- H0 in Hs. repeat split; auto. now left.
  - destruct (IH Hp) as (vd' & v & es & Hin' & Hn & Hs' & He).
    exists vd', v, es. repeat split; auto. now right.
Qed.

(* every declared variable whose coercion fails is reported, and nothing is delivered for it *)
Theorem errors_complete fuel raw vds vals errs vd v e es :
  spec_coerce_variables sch fuel vds raw = Ok (vals, errs) ->
  In vd vds -> spec_variable sch fuel vd raw = Ok (Some (v, e :: es)) ->
  In (v_name vd, e) errs.
Proof.
  intros H Hin Hs. destruct (coerce_variables_shape fuel raw vds vals errs H) as (parts & _ & _ & -> & Hf).
  clear H. induction Hf as [|vd' p vds' parts' [Hs' Hc] Hf IH]; [contradiction|].
  cbn [flat_map]. apply in_or_app. destruct Hin as [-> | Hin].
  - left. rewrite Hs in Hs'. inversion Hs' as [H0]. rewrite <- H0 in Hc.
    inversion Hc. now left.
  - right. now apply IH.
Qed.

(* omitted, no default, nullable: the variable stays absent; explicit null is delivered as null *)
Theorem absent_stays_absent fuel vd raw :
  dict_get (v_name vd) raw = None -> v_default vd = None -> is_non_null (v_type vd) = false ->
  spec_variable sch fuel vd raw = Ok None.
Proof. unfold spec_variable. now intros -> -> ->. Qed.

Theorem explicit_null_kept fuel vd raw :
  dict_get (v_name vd) raw = Some PNone -> is_non_null (v_type vd) = false ->
  spec_variable sch fuel vd raw = Raise OutOfFuel \/
  spec_variable sch fuel vd raw = Ok (Some (PNone, [])) \/
  (exists e, spec_variable sch fuel vd raw = Raise e).
Proof.
  unfold spec_variable. intros -> Hn. rewrite Hn. cbn [is_none andb].
  destruct (spec_coerce sch fuel (v_type vd) [] PNone) as [r|e] eqn:E; cbn [bind].
  - right; left. destruct (v_type vd) as [n|t|t]; try discriminate.
    + destruct fuel; [discriminate|]. cbn [spec_coerce] in E.
      destruct (find_type sch n) as [[ |values|fields|ifs fs|fs|ms]|]; try discriminate;
        try (destruct (scalars sch n); try discriminate); cbn [is_none] in E; now inversion E.
    + rewrite spec_coerce_list in E. cbn [is_none] in E. now inversion E.
  - right; right. eauto.
Qed.

(* a single non-list value is coerced as the one-element list, at every list level *)
Theorem single_value_wrapped fuel t p v :
  is_none v = false -> (forall l, v <> PList l) ->
  spec_coerce sch fuel (TList t) p v =
  bind (spec_coerce sch fuel t p v) (fun r => Ok (wrap_single r)).
Proof.
  intros Hn Hl. rewrite spec_coerce_list, Hn. destruct v; try reflexivity.
  exfalso. eapply Hl. reflexivity.
Qed.

(* a non-null variable that is missing or null is refused *)
Theorem non_null_missing_or_null_refused fuel vd raw :
  is_non_null (v_type vd) = true -> v_default vd = None ->
  (dict_get (v_name vd) raw = None \/ dict_get (v_name vd) raw = Some PNone) ->
  exists e, spec_variable sch fuel vd raw = Ok (Some (PNone, [e])).
Proof.
  unfold spec_variable. intros Hn Hd [-> | ->]; rewrite ?Hd, Hn; cbn; eauto.
Qed.

End Facts.
