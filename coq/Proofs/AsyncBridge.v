(* The executor written in the async calculus (Model/Async.v a_execute_operation), run with every
   awaited coroutine completing at once, IS the state-passing executor of Model/ImplExec.v: same
   result, and the events it emits are exactly the errors and invocations the state-passing model
   appends.  This transfers the theorems of C08 / C09 / C15 (proved for every program of the
   calculus) to the executor C01 / C02 / C03 are proved about. *)
From Coq Require Import ZArith List String Bool Lia.
From TV Require Import Py.Prelude Model.Schema Model.ImplInput Model.ImplExec Model.Async Proofs.AsyncProofs.
Import ListNotations.
Open Scope string_scope.
Open Scope list_scope.

Section Bridge.
Variable sch : schema.
Variable doc : document.
Variable vs : vars.
Variable U : usercode.
Variable cfg : config.

Notation O := (resolver U).
Notation rs := (run_seq O).

Definition apply_events (ev : list event) (s : st) : st :=
  {| s_errors := s_errors s ++ errors_of ev; s_log := s_log s ++ calls_of ev |}.

Lemma errors_of_app a b : errors_of (a ++ b) = errors_of a ++ errors_of b.
Proof. unfold errors_of. apply flat_map_app. Qed.
Lemma calls_of_app a b : calls_of (a ++ b) = calls_of a ++ calls_of b.
Proof. unfold calls_of. apply flat_map_app. Qed.

Lemma apply_events_app a b s : apply_events (a ++ b) s = apply_events b (apply_events a s).
Proof. unfold apply_events. cbn. now rewrite errors_of_app, calls_of_app, !app_assoc. Qed.
Lemma apply_events_nil s : apply_events [] s = s.
Proof. unfold apply_events. cbn. rewrite !app_nil_r. now destruct s. Qed.

Definition out_val (r : res) : outcome pyval :=
  match r with RVal v => OVal v | RExc l => OExc l | RCrash e => OCrash e | _ => OCrash KeyError end.
Definition out_opt (r : res) : outcome (option pyval) :=
  match r with ROpt o => OVal o | RExc l => OExc l | RCrash e => OCrash e | _ => OCrash KeyError end.
Definition out_kvs (r : res) : outcome (list (string * pyval)) :=
  match r with RKVs kv => OVal kv | RExc l => OExc l | RCrash e => OCrash e | _ => OCrash KeyError end.

Definition val_shaped (r : res) : Prop := match r with RVal _ | RExc _ | RCrash _ => True | _ => False end.
Definition opt_shaped (r : res) : Prop := match r with ROpt _ | RExc _ | RCrash _ => True | _ => False end.
Definition kvs_shaped (r : res) : Prop := match r with RKVs _ | RExc _ | RCrash _ => True | _ => False end.

(* a program and a state-passing computation describe the same thing *)
Definition Bv (p : prog) (m : M pyval) : Prop :=
  val_shaped (fst (rs p)) /\ forall s, m s = (out_val (fst (rs p)), apply_events (snd (rs p)) s).
Definition Bo (p : prog) (m : M (option pyval)) : Prop :=
  opt_shaped (fst (rs p)) /\ forall s, m s = (out_opt (fst (rs p)), apply_events (snd (rs p)) s).
Definition Bk (p : prog) (m : M (list (string * pyval))) : Prop :=
  kvs_shaped (fst (rs p)) /\ forall s, m s = (out_kvs (fst (rs p)), apply_events (snd (rs p)) s).

Lemma rs_bind p f :
  rs (bind p f) = (fst (rs (f (fst (rs p)))), snd (rs p) ++ snd (rs (f (fst (rs p))))).
Proof.
  rewrite (run_seq_bind O f p). destruct (rs p) as [r ev]. cbn [fst snd].
  destruct (rs (f r)) as [r' ev']. reflexivity.
Qed.

(* emit_errors / handle_field_error *)
Lemma rs_emit_errors l k :
  rs (emit_errors l k) = (fst (rs k), map (fun e => EUser (UError (finalize e))) l ++ snd (rs k)).
Proof.
  induction l as [|e l IH]; cbn [emit_errors fold_right map app]; [now destruct (rs k)|].
  fold (emit_errors l k). cbn [run_seq]. rewrite IH. reflexivity.
Qed.

Lemma errors_of_error_events l : errors_of (map (fun e => EUser (UError (finalize e))) l) = map finalize l.
Proof. induction l as [|e l IH]; [reflexivity|]. simpl. f_equal. exact IH. Qed.
Lemma calls_of_error_events l : calls_of (map (fun e => EUser (UError (finalize e))) l) = [].
Proof. induction l as [|e l IH]; [reflexivity|]. simpl. exact IH. Qed.

Lemma apply_error_events l s :
  apply_events (map (fun e => EUser (UError (finalize e))) l) s = add_errors l s.
Proof.
  unfold apply_events, add_errors. now rewrite errors_of_error_events, calls_of_error_events, app_nil_r.
Qed.

Lemma handle_field_error_bridge l nodes path t :
  Bv (a_handle_field_error l nodes path t) (handle_field_error l nodes path t).
Proof.
  unfold Bv, a_handle_field_error, handle_field_error. destruct (is_non_null t).
  - split; [exact I|]. intros s. cbn. now rewrite apply_events_nil.
  - rewrite rs_emit_errors. cbn. split; [exact I|]. intros s.
    rewrite app_nil_r, apply_error_events. reflexivity.
Qed.

(* ---------- sibling fields ---------- *)
Lemma run_seqs_map_fst {A} (f : A -> prog) l :
  fst (run_seqs O (map f l)) = map (fun x => fst (rs (f x))) l.
Proof. rewrite run_seqs_fst, map_map. reflexivity. Qed.

Lemma conc_bridge (rf : string -> list fnode -> M (option pyval)) (arf : string -> list fnode -> prog) :
  (forall k ns, Bo (arf k ns) (rf k ns)) -> forall sub,
  kvs_shaped (merge_fields (map fst sub) (fst (run_seqs O (map (fun kn => arf (fst kn) (snd kn)) sub)))) /\
  forall s, exec_fields_conc rf sub s =
            (out_kvs (merge_fields (map fst sub) (fst (run_seqs O (map (fun kn => arf (fst kn) (snd kn)) sub)))),
             apply_events (snd (run_seqs O (map (fun kn => arf (fst kn) (snd kn)) sub))) s).
Proof.
  intros H. induction sub as [|[k ns] rest [IHs IH]]; cbn [map run_seqs merge_fields exec_fields_conc fst snd].
  - split; [exact I|]. intros s. now rewrite apply_events_nil.
  - destruct (H k ns) as [Hshape Hk].
    destruct (rs (arf k ns)) as [r e1] eqn:E1. destruct (run_seqs O (map (fun kn => arf (fst kn) (snd kn)) rest)) as [rl e2] eqn:E2.
    cbn [fst snd] in *.
    split.
    + destruct r; try destruct Hshape; destruct (merge_fields (map fst rest) rl); try destruct IHs; try exact I;
        try (destruct o; exact I).
    + intros s. rewrite Hk, IH, apply_events_app.
      destruct r as [v|o|kv|l|e]; try destruct Hshape;
        destruct (merge_fields (map fst rest) rl) as [v'|o'|kv'|l'|e']; try destruct IHs; cbn [out_opt out_kvs];
        try reflexivity; destruct o; reflexivity.
Qed.

Lemma rs_sequence_abort_nil : rs (sequence_abort []) = (RKVs [], []).
Proof. reflexivity. Qed.

Lemma seq_bridge (rf : string -> list fnode -> M (option pyval)) (arf : string -> list fnode -> prog) :
  (forall k ns, Bo (arf k ns) (rf k ns)) -> forall sub,
  Bk (sequence_abort (map (fun kn => (fst kn, arf (fst kn) (snd kn))) sub)) (exec_fields_seq rf sub).
Proof.
  intros H sub. unfold Bk. induction sub as [|[k ns] rest [IHs IH]]; cbn [map sequence_abort exec_fields_seq fst snd].
  - split; [exact I|]. intros s. cbn. now rewrite apply_events_nil.
  - destruct (H k ns) as [Hshape Hk]. rewrite rs_bind.
    destruct (rs (arf k ns)) as [r e1] eqn:E1. cbn [fst snd] in *.
    destruct r as [v|o|kv|l|e]; try destruct Hshape.
    + (* ROpt o *)
      rewrite rs_bind.
      destruct (rs (sequence_abort (map (fun kn => (fst kn, arf (fst kn) (snd kn))) rest))) as [r' e2] eqn:E2.
      cbn [fst snd] in *.
      split.
      * destruct r'; try destruct IHs; cbn; exact I.
      * intros s. rewrite Hk. cbn [out_opt]. rewrite IH.
        destruct r' as [v'|o'|kv'|l'|e']; try destruct IHs; cbn [out_kvs run_seq fst snd];
          rewrite ?app_nil_r, apply_events_app; reflexivity.
    + split; [exact I|]. intros s. rewrite Hk. cbn. now rewrite app_nil_r.
    + split; [exact I|]. intros s. rewrite Hk. cbn. now rewrite app_nil_r.
Qed.

(* ---------- per-field settings: the two passes ---------- *)
Definition aligned (isc : string -> list fnode -> bool) (fs : fields) (slots : list (option (option pyval))) : Prop :=
  Forall2 (fun kn slot => match slot with None => isc (fst kn) (snd kn) = true | Some _ => isc (fst kn) (snd kn) = false end) fs slots.

Lemma pass2_bridge isc (rf : string -> list fnode -> M (option pyval)) (arf : string -> list fnode -> prog) :
  (forall k ns, Bo (arf k ns) (rf k ns)) -> forall fs slots, aligned isc fs slots ->
  let cs := map (fun kn => arf (fst kn) (snd kn)) (filter (fun kn => isc (fst kn) (snd kn)) fs) in
  kvs_shaped (merge_fields (map fst fs) (interleave slots (fst (run_seqs O cs)))) /\
  forall s, mixed_pass2 rf fs slots s =
            (out_kvs (merge_fields (map fst fs) (interleave slots (fst (run_seqs O cs)))),
             apply_events (snd (run_seqs O cs)) s).
Proof.
  intros H fs slots Ha. induction Ha as [|[k ns] slot rest srest Hs Ha [IHs IH]];
    cbn [map filter fst snd mixed_pass2 interleave merge_fields run_seqs].
  - split; [exact I|]. intros s. now rewrite apply_events_nil.
  - destruct slot as [o|]; cbn [fst snd] in Hs; rewrite Hs; cbn [map run_seqs interleave merge_fields].
    + cbv zeta in IHs, IH.
      set (cs := map (fun kn => arf (fst kn) (snd kn)) (filter (fun kn => isc (fst kn) (snd kn)) rest)) in *.
      destruct (merge_fields (map fst rest) (interleave srest (fst (run_seqs O cs)))) as [v'|o'|kv'|l'|e'] eqn:Em; try destruct IHs.
      * split; [destruct o; exact I|]. intros s. rewrite IH. destruct o; try reflexivity.
      * split; [destruct o; exact I|]. intros s. rewrite IH. destruct o; reflexivity.
      * split; [destruct o; exact I|]. intros s. rewrite IH. destruct o; reflexivity.
    + cbv zeta in IHs, IH. destruct (H k ns) as [Hshape Hk]. cbn [fst snd].
      set (cs := map (fun kn => arf (fst kn) (snd kn)) (filter (fun kn => isc (fst kn) (snd kn)) rest)) in *.
      destruct (rs (arf k ns)) as [r e1] eqn:E1. destruct (run_seqs O cs) as [rl e2] eqn:E2. cbn [fst snd interleave merge_fields] in *.
      split.
      * destruct r; try destruct Hshape; destruct (merge_fields (map fst rest) (interleave srest rl)); try destruct IHs; try exact I;
          try (destruct o; exact I).
      * intros s. rewrite Hk, IH, apply_events_app.
        destruct r as [v|o|kv|l|e]; try destruct Hshape;
          destruct (merge_fields (map fst rest) (interleave srest rl)) as [v'|o'|kv'|l'|e']; try destruct IHs; cbn [out_opt out_kvs];
          try reflexivity; destruct o; reflexivity.
Qed.

Lemma pass1_bridge isc (rf : string -> list fnode -> M (option pyval)) (arf : string -> list fnode -> prog) :
  (forall k ns, Bo (arf k ns) (rf k ns)) -> forall fs (k : list (option (option pyval)) -> prog)
    (mk : list (option (option pyval)) -> M (list (string * pyval))),
  (forall slots, aligned isc fs slots -> Bk (k slots) (mk slots)) ->
  Bk (a_mixed_pass1 isc arf fs k)
     (fun s => match mixed_pass1 isc rf fs s with
               | (OVal slots, s1) => mk slots s1
               | (OExc l, s1) => (OExc l, s1)
               | (OCrash e, s1) => (OCrash e, s1)
               end).
Proof.
  intros H. induction fs as [|[key ns] rest IH]; intros k mk Hk; cbn [a_mixed_pass1 mixed_pass1].
  - apply Hk. constructor.
  - destruct (isc key ns) eqn:Ec.
    + specialize (IH (fun slots => k (None :: slots)) (fun slots => mk (None :: slots))).
      destruct IH as [IHs IHm].
      { intros slots Ha. apply Hk. constructor; [exact Ec|exact Ha]. }
      split; [exact IHs|]. intros s. rewrite <- IHm.
      destruct (mixed_pass1 isc rf rest s) as [[slots|l|e] s1]; reflexivity.
    + destruct (H key ns) as [Hshape Hf]. unfold Bk. rewrite rs_bind.
      destruct (rs (arf key ns)) as [r e1] eqn:E1. cbn [fst snd] in *.
      destruct r as [v|o|kv|l|e]; try destruct Hshape.
      * specialize (IH (fun slots => k (Some o :: slots)) (fun slots => mk (Some o :: slots))).
        destruct IH as [IHs IHm].
        { intros slots Ha. apply Hk. constructor; [exact Ec|exact Ha]. }
        split; [exact IHs|]. intros s. rewrite Hf. cbn [out_opt]. rewrite apply_events_app, <- IHm.
        destruct (mixed_pass1 isc rf rest (apply_events e1 s)) as [[slots|l|e] s1]; reflexivity.
      * split; [exact I|]. intros s. rewrite Hf. cbn. now rewrite app_nil_r.
      * split; [exact I|]. intros s. rewrite Hf. cbn. now rewrite app_nil_r.
Qed.

Lemma mixed_bridge isc (rf : string -> list fnode -> M (option pyval)) (arf : string -> list fnode -> prog) :
  (forall k ns, Bo (arf k ns) (rf k ns)) -> forall fs,
  Bk (a_exec_fields_mixed isc arf fs) (exec_fields_mixed isc rf fs).
Proof.
  intros H fs. unfold a_exec_fields_mixed.
  apply (pass1_bridge isc rf arf H fs _ (fun slots => mixed_pass2 rf fs slots)).
  intros slots Ha. destruct (pass2_bridge isc rf arf H fs slots Ha) as [Hs Hm]. cbv zeta in Hs, Hm.
  unfold Bk. rewrite run_seq_gather.
  set (cs := map (fun kn => arf (fst kn) (snd kn)) (filter (fun kn => isc (fst kn) (snd kn)) fs)) in *.
  cbn [run_seq fst snd]. split; [exact Hs|]. intros s. rewrite Hm, app_nil_r. reflexivity.
Qed.

Definition arf_bridge (arf : arfun) (rf : rfun) : Prop :=
  forall otype value opath k ns, Bo (arf otype value opath k ns) (rf otype value opath k ns).

Lemma exec_sub_bridge arf rf nodes otype value opath :
  arf_bridge arf rf ->
  Bv (a_exec_sub sch doc vs cfg arf nodes otype value opath) (exec_sub sch doc vs cfg rf nodes otype value opath).
Proof.
  intros H. unfold Bv, a_exec_sub, exec_sub.
  destruct (collect_subfields sch doc vs COLLECT_FUEL otype nodes [] []) as [sub|].
  2:{ split; [exact I|]. intros s. cbn. now rewrite apply_events_nil. }
  rewrite rs_bind.
  destruct (mixed_bridge (field_conc cfg otype) (fun k ns => rf otype value opath k ns) (fun k ns => arf otype value opath k ns)
                         (fun k ns => H otype value opath k ns) sub) as [Hs Hc].
  set (p := a_exec_fields_mixed (field_conc cfg otype) (fun k ns => arf otype value opath k ns) sub) in *.
  destruct (fst (rs p)) as [v|o|kv|l|e] eqn:Em; try destruct Hs;
    cbn [run_seq fst snd]; (split; [exact I|]); intros s; rewrite Hc, app_nil_r; reflexivity.
Qed.

(* ---------- list items: gather or one by one, the same thing when nothing suspends ---------- *)
Lemma rs_sequence ps : forall k,
  rs (sequence ps k) = (fst (rs (k (fst (run_seqs O ps)))), snd (run_seqs O ps) ++ snd (rs (k (fst (run_seqs O ps))))).
Proof.
  induction ps as [|p ps IH]; intros k; cbn [sequence run_seqs fst snd].
  - now destruct (rs (k [])).
  - rewrite rs_bind, IH. destruct (rs p) as [r e1]. destruct (run_seqs O ps) as [rl e2]. cbn [fst snd].
    now rewrite app_assoc.
Qed.

Definition out_list (r : res) : outcome (list pyval) :=
  match r with RVal (PList l) => OVal l | RExc l => OExc l | RCrash e => OCrash e | _ => OCrash KeyError end.
Definition list_shaped (r : res) : Prop :=
  match r with RVal (PList _) | RExc _ | RCrash _ => True | _ => False end.

Lemma items_bridge (aci : pyval -> list pkey -> prog) (ci : pyval -> list pkey -> M pyval) path :
  (forall x p, Bv (aci x p) (ci x p)) -> forall items i,
  let progs := map (fun ix : Z * pyval => aci (snd ix) (path ++ [KIdx (fst ix)])) (enumerate_from i items) in
  list_shaped (collect_item_results (fst (run_seqs O progs))) /\
  forall s, complete_items ci path i items s =
            (out_list (collect_item_results (fst (run_seqs O progs))), apply_events (snd (run_seqs O progs)) s).
Proof.
  intros H. induction items as [|x xs IH]; intros i; cbn [enumerate_from map run_seqs collect_item_results complete_items fst snd].
  - split; [exact I|]. intros s. now rewrite apply_events_nil.
  - destruct (H x (path ++ [KIdx i])) as [Hshape Hx]. destruct (IH (i + 1)%Z) as [IHs IHc]. clear IH.
    destruct (rs (aci x (path ++ [KIdx i]))) as [r e1].
    destruct (run_seqs O (map (fun ix : Z * pyval => aci (snd ix) (path ++ [KIdx (fst ix)])) (enumerate_from (i + 1) xs))) as [rl e2].
    cbn [fst snd] in *. cbn [collect_item_results]. split.
    + destruct r; try destruct Hshape; destruct (collect_item_results rl) as [[]| | | |]; try destruct IHs; exact I.
    + intros s. rewrite Hx, IHc, apply_events_app.
      destruct r as [v|o|kv|l|e]; try destruct Hshape;
        destruct (collect_item_results rl) as [[]| | | |]; try destruct IHs; reflexivity.
Qed.

Lemma Bv_ret_val v : Bv (Ret (RVal v)) (fun s => (OVal v, s)).
Proof. split; [exact I|]. intros s. cbn. now rewrite apply_events_nil. Qed.
Lemma Bv_ret_exc l : Bv (Ret (RExc l)) (fun s => (OExc l, s)).
Proof. split; [exact I|]. intros s. cbn. now rewrite apply_events_nil. Qed.
Lemma Bv_ret_crash e : Bv (Ret (RCrash e)) (fun s => (OCrash e, s)).
Proof. split; [exact I|]. intros s. cbn. now rewrite apply_events_nil. Qed.

Lemma Bv_ext p m m' : (forall s, m s = m' s) -> Bv p m -> Bv p m'.
Proof. intros E [Hs H]. split; [exact Hs|]. intros s. now rewrite <- E. Qed.

Lemma Bv_emit_call c p m : Bv p m -> Bv (Emit (UCall c) p) (fun s => m (add_call c s)).
Proof.
  intros [Hs H]. unfold Bv. cbn [run_seq]. destruct (rs p) as [r ev]. cbn [fst snd] in *.
  split; [exact Hs|]. intros s. rewrite H. f_equal. unfold apply_events, add_call. cbn. now rewrite <- app_assoc.
Qed.

Section Chain.
Variable arf : arfun.
Variable rf : rfun.
Hypothesis Hrf : arf_bridge arf rf.
Variable ptype : string.
Variable fd : field_def.
Variable nodes : list fnode.
Variable fpath : list pkey.

Lemma continue_bridge n v lp t :
  Bv (match t with
      | URaise msg _ ext => Ret (RExc [user_raise msg ext])
      | URet tn =>
          match resolve_runtime_type sch n tn nodes with
          | OVal rt => a_exec_sub sch doc vs cfg arf nodes rt v lp
          | OExc l => Ret (RExc l)
          | OCrash e => Ret (RCrash e)
          end
      end)
     (fun s1 => match t with
                | URaise msg _ ext => (OExc [user_raise msg ext], s1)
                | URet tn =>
                    match resolve_runtime_type sch n tn nodes with
                    | OVal rt => exec_sub sch doc vs cfg rf nodes rt v lp s1
                    | OExc l => (OExc l, s1)
                    | OCrash e => (OCrash e, s1)
                    end
                end).
Proof.
  destruct t as [tn|msg g ext]; [|apply Bv_ret_exc].
  destruct (resolve_runtime_type sch n tn nodes) as [rt|l|e];
    [apply (Bv_ext _ (exec_sub sch doc vs cfg rf nodes rt v lp)); [reflexivity|apply exec_sub_bridge; exact Hrf]
    |apply Bv_ret_exc|apply Bv_ret_crash].
Qed.

Lemma abstract_bridge n v lp :
  Bv (match type_resolver_kind U n ptype (fd_name fd) with
      | TRDefault =>
          match URet (default_type_resolver v) with
          | URaise msg _ ext => Ret (RExc [user_raise msg ext])
          | URet tn => match resolve_runtime_type sch n tn nodes with
                       | OVal rt => a_exec_sub sch doc vs cfg arf nodes rt v lp
                       | OExc l => Ret (RExc l)
                       | OCrash e => Ret (RCrash e)
                       end
          end
      | TRCustom =>
          Emit (UCall (CTypeResolver fpath n v))
            match type_resolver U fpath n v with
            | URaise msg _ ext => Ret (RExc [user_raise msg ext])
            | URet tn => match resolve_runtime_type sch n tn nodes with
                         | OVal rt => a_exec_sub sch doc vs cfg arf nodes rt v lp
                         | OExc l => Ret (RExc l)
                         | OCrash e => Ret (RCrash e)
                         end
            end
      end)
     (fun s0 =>
        match (match type_resolver_kind U n ptype (fd_name fd) with
               | TRDefault => (URet (default_type_resolver v), s0)
               | TRCustom => (type_resolver U fpath n v, add_call (CTypeResolver fpath n v) s0)
               end) with
        | (URaise msg _ ext, s1) => (OExc [user_raise msg ext], s1)
        | (URet t, s1) =>
            match resolve_runtime_type sch n t nodes with
            | OVal rt => exec_sub sch doc vs cfg rf nodes rt v lp s1
            | OExc l => (OExc l, s1)
            | OCrash e => (OCrash e, s1)
            end
        end).
Proof.
  destruct (type_resolver_kind U n ptype (fd_name fd)).
  - apply (continue_bridge n v lp (URet (default_type_resolver v))).
  - pose proof (Bv_emit_call (CTypeResolver fpath n v) _ _ (continue_bridge n v lp (type_resolver U fpath n v))) as H.
    eapply Bv_ext; [|exact H]. intros s. cbn beta. destruct (type_resolver U fpath n v); reflexivity.
Qed.

Lemma leaf_bridge n v lp :
  Bv (a_leaf sch doc vs U cfg arf ptype fd nodes fpath n v lp)
     (leaf_coercer sch doc vs U cfg rf ptype fd nodes fpath n v lp).
Proof.
  unfold a_leaf, leaf_coercer.
  destruct (find_type sch n) as [[|values|ifs|ifaces fs|fs|ms]|] eqn:Et.
  - destruct v; try apply Bv_ret_val;
      (destruct (scalars sch n) as [ops|]; [|apply Bv_ret_exc]);
      match goal with |- context [s_output ops ?x] => destruct (s_output ops x) as [r|ex] end;
      try (destruct (is_undef r); [apply Bv_ret_exc|apply Bv_ret_val]);
      destruct ex; first [apply Bv_ret_crash|apply Bv_ret_exc].
  - destruct v; try apply Bv_ret_val; try apply Bv_ret_exc.
    destruct (mem_str s values); [apply Bv_ret_val|apply Bv_ret_exc].
  - apply Bv_ret_exc.
  - destruct v; try apply Bv_ret_val;
      (eapply Bv_ext; [|apply exec_sub_bridge; exact Hrf]); reflexivity.
  - destruct v; try apply Bv_ret_val; apply abstract_bridge.
  - destruct v; try apply Bv_ret_val; apply abstract_bridge.
  - apply Bv_ret_exc.
Qed.
End Chain.

Lemma Bv_bind p m (f : res -> prog) (g : outcome pyval -> M pyval) :
  Bv p m ->
  (forall r, val_shaped r -> Bv (f r) (g (out_val r))) ->
  Bv (bind p f) (fun s => g (fst (m s)) (snd (m s))).
Proof.
  intros [Hs H] Hf. unfold Bv. rewrite rs_bind.
  destruct (Hf _ Hs) as [Hs' H']. split; [exact Hs'|].
  intros s. rewrite H. cbn [fst snd]. rewrite H', apply_events_app. reflexivity.
Qed.

Section Chain2.
Variable arf : arfun.
Variable rf : rfun.
Hypothesis Hrf : arf_bridge arf rf.
Variable ptype : string.
Variable fd : field_def.
Variable nodes : list fnode.
Variable fpath : list pkey.
Variable lc : bool.

Lemma item_bridge t (IH : forall v p, Bv (a_coerce_output nodes (a_leaf sch doc vs U cfg arf ptype fd nodes fpath) lc t v p)
                                          (coerce_output nodes (leaf_coercer sch doc vs U cfg rf ptype fd nodes fpath) t v p)) x ip :
  Bv (bind (match is_exc_value x with
            | Some e => Ret (RExc [e])
            | None => a_coerce_output nodes (a_leaf sch doc vs U cfg arf ptype fd nodes fpath) lc t x ip
            end)
           (fun r => match r with
                     | RExc l => a_handle_field_error l nodes ip t
                     | other => Ret other
                     end))
     (fun s0 => match (match is_exc_value x with
                       | Some e => (OExc [e], s0)
                       | None => coerce_output nodes (leaf_coercer sch doc vs U cfg rf ptype fd nodes fpath) t x ip s0
                       end) with
                | (OExc l, s1) => handle_field_error l nodes ip t s1
                | r => r
                end).
Proof.
  set (g := fun (o : outcome pyval) (s1 : st) =>
              match o with OExc l => handle_field_error l nodes ip t s1 | other => (other, s1) end).
  assert (Hg : forall r, val_shaped r ->
                Bv (match r with RExc l => a_handle_field_error l nodes ip t | other => Ret other end) (g (out_val r))).
  { intros r Hr. destruct r; try destruct Hr; cbn [out_val g].
    - apply Bv_ret_val.
    - apply handle_field_error_bridge.
    - apply Bv_ret_crash. }
  destruct (is_exc_value x) as [e|].
  - eapply Bv_ext; [|apply (Bv_bind _ _ _ g (Bv_ret_exc [e]) Hg)]. intros s. reflexivity.
  - eapply Bv_ext; [|apply (Bv_bind _ _ _ g (IH x ip) Hg)]. intros s. cbn beta.
    destruct (coerce_output nodes _ t x ip s) as [[v|l|e] s1]; reflexivity.
Qed.

Lemma coerce_output_bridge t : forall v p,
  Bv (a_coerce_output nodes (a_leaf sch doc vs U cfg arf ptype fd nodes fpath) lc t v p)
     (coerce_output nodes (leaf_coercer sch doc vs U cfg rf ptype fd nodes fpath) t v p).
Proof.
  induction t as [n|t IH|t IH]; intros v p.
  - apply leaf_bridge. exact Hrf.
  - cbn [a_coerce_output coerce_output]. destruct v; try apply Bv_ret_val; try apply Bv_ret_exc.
    pose proof (items_bridge _ _ p (item_bridge t IH) l 0%Z) as Hi. cbn zeta in Hi. destruct Hi as [Hs Hc].
    match type of Hc with context [run_seqs O ?ps] => set (progs := ps) in * end.
    match type of Hc with context [complete_items ?c _ _ _ _] => set (ci := c) in * end.
    assert (Hrun : forall q : prog, rs q = (collect_item_results (fst (run_seqs O progs)), snd (run_seqs O progs)) ->
                   Bv q (fun s => match complete_items ci p 0%Z l s with
                                  | (OVal l0, s') => (OVal (PList l0), s')
                                  | (OExc l0, s') => (OExc l0, s')
                                  | (OCrash e, s') => (OCrash e, s')
                                  end)).
    { intros q Eq. unfold Bv. rewrite Eq. cbn [fst snd]. split.
      - destruct (collect_item_results (fst (run_seqs O progs))) as [[]| | | |]; try destruct Hs; exact I.
      - intros s. rewrite Hc. destruct (collect_item_results (fst (run_seqs O progs))) as [[]| | | |]; try destruct Hs; reflexivity. }
    destruct lc.
    + apply Hrun. rewrite run_seq_gather. cbn [run_seq]. now rewrite app_nil_r.
    + apply Hrun. rewrite rs_sequence. cbn [run_seq fst snd]. now rewrite app_nil_r.
  - cbn [a_coerce_output coerce_output].
    set (g := fun (o : outcome pyval) (s1 : st) =>
                match o with OVal PNone => (OExc [engine_err "null-for-non-null"], s1) | other => (other, s1) end).
    eapply Bv_ext; [|apply (Bv_bind _ _ _ g (IH v p))].
    + intros s. cbn beta. destruct (coerce_output nodes _ t v p s) as [[[]|l|e] s1]; reflexivity.
    + intros r Hr. destruct r as [[]| | | |]; try destruct Hr; cbn [out_val g];
        first [apply Bv_ret_val|apply Bv_ret_exc|apply Bv_ret_crash].
Qed.
End Chain2.

Lemma Bo_ret_opt o : Bo (Ret (ROpt o)) (fun s => (OVal o, s)).
Proof. split; [exact I|]. intros s. cbn. now rewrite apply_events_nil. Qed.
Lemma Bo_ret_exc l : Bo (Ret (RExc l)) (fun s => (OExc l, s)).
Proof. split; [exact I|]. intros s. cbn. now rewrite apply_events_nil. Qed.
Lemma Bo_ret_crash e : Bo (Ret (RCrash e)) (fun s => (OCrash e, s)).
Proof. split; [exact I|]. intros s. cbn. now rewrite apply_events_nil. Qed.
Lemma Bo_ext p m m' : (forall s, m s = m' s) -> Bo p m -> Bo p m'.
Proof. intros E [Hs H]. split; [exact Hs|]. intros s. now rewrite <- E. Qed.

Lemma Bo_bind p m (f : res -> prog) (g : outcome pyval -> M (option pyval)) :
  Bv p m ->
  (forall r, val_shaped r -> Bo (f r) (g (out_val r))) ->
  Bo (bind p f) (fun s => g (fst (m s)) (snd (m s))).
Proof.
  intros [Hs H] Hf. unfold Bo. rewrite rs_bind.
  destruct (Hf _ Hs) as [Hs' H']. split; [exact Hs'|].
  intros s. rewrite H. cbn [fst snd]. rewrite H', apply_events_app. reflexivity.
Qed.

Lemma Bo_emit_call c p m : Bo p m -> Bo (Emit (UCall c) p) (fun s => m (add_call c s)).
Proof.
  intros [Hs H]. unfold Bo. cbn [run_seq]. destruct (rs p) as [r ev]. cbn [fst snd] in *.
  split; [exact Hs|]. intros s. rewrite H. f_equal. unfold apply_events, add_call. cbn. now rewrite <- app_assoc.
Qed.

Lemma Bo_call path ptype fname source args (k : uret -> prog) (m : uret -> M (option pyval)) :
  (forall u, Bo (k u) (m u)) ->
  Bo (Call path ptype fname source args k) (m (resolver U path ptype fname source args)).
Proof.
  intros H. destruct (H (resolver U path ptype fname source args)) as [Hs Hc]. unfold Bo. cbn [run_seq].
  destruct (rs (k (resolver U path ptype fname source args))) as [r ev]. cbn [fst snd] in *.
  split; [exact Hs|]. intros s. rewrite Hc. reflexivity.
Qed.

(* complete_value_catching_error at the field level *)
Lemma complete_bridge arf rf ptype fd nodes path (Hrf : arf_bridge arf rf) (raw : res) :
  val_shaped raw ->
  Bo (bind (match raw with
            | RVal v =>
                match is_exc_value v with
                | Some e => Ret (RExc [e])
                | None => a_coerce_output nodes (a_leaf sch doc vs U cfg arf ptype fd nodes path) (match field_list cfg ptype (fd_name fd) with Some b => b | None => list_concurrently cfg end) (fd_type fd) v path
                end
            | other => Ret other
            end)
           (fun r => match r with
                     | RExc l => bind (a_handle_field_error l nodes path (fd_type fd))
                                      (fun r' => match r' with RVal v => Ret (ROpt (Some v)) | o => Ret o end)
                     | RVal v => Ret (ROpt (Some v))
                     | other => Ret other
                     end))
     (complete_field sch doc vs U cfg rf ptype fd nodes path (out_val raw)).
Proof.
  intros Hraw.
  set (g := fun (o : outcome pyval) (s2 : st) =>
              match o with
              | OExc l => match handle_field_error l nodes path (fd_type fd) s2 with
                          | (OVal v, s3) => (OVal (Some v), s3)
                          | (OExc l', s3) => (OExc l', s3)
                          | (OCrash e, s3) => (OCrash e, s3)
                          end
              | OVal v => (OVal (Some v), s2)
              | OCrash e => (OCrash e, s2)
              end).
  assert (Hg : forall r, val_shaped r ->
     Bo (match r with
         | RExc l => bind (a_handle_field_error l nodes path (fd_type fd))
                          (fun r' => match r' with RVal v => Ret (ROpt (Some v)) | o => Ret o end)
         | RVal v => Ret (ROpt (Some v))
         | other => Ret other
         end) (g (out_val r))).
  { intros r Hr. destruct r as [v|o|kv|l|e]; try destruct Hr; cbn [out_val g].
    - apply Bo_ret_opt.
    - set (g2 := fun (o : outcome pyval) (s3 : st) =>
                   match o with OVal v => (OVal (Some v), s3) | OExc l' => (OExc l', s3) | OCrash e => (OCrash e, s3) end).
      eapply Bo_ext; [|apply (Bo_bind _ _ _ g2 (handle_field_error_bridge l nodes path (fd_type fd)))].
      + intros s. unfold g, g2. cbn beta. destruct (handle_field_error l nodes path (fd_type fd) s) as [[v|l'|e] s3]; reflexivity.
      + intros r' Hr'. destruct r'; try destruct Hr'; cbn [out_val g2];
          first [apply Bo_ret_opt|apply Bo_ret_exc|apply Bo_ret_crash].
    - apply Bo_ret_crash. }
  unfold complete_field.
  destruct raw as [v|o|kv|l|e]; try destruct Hraw; cbn [out_val].
  - destruct (is_exc_value v) as [ex|].
    + eapply Bo_ext; [|apply (Bo_bind _ _ _ g (Bv_ret_exc [ex]) Hg)]. intros s. unfold g. reflexivity.
    + eapply Bo_ext; [|apply (Bo_bind _ _ _ g (coerce_output_bridge arf rf Hrf ptype fd nodes path _ (fd_type fd) v path) Hg)].
      intros s. unfold g. cbn beta. destruct (coerce_output nodes _ (fd_type fd) v path s) as [[v'|l'|e'] s2]; reflexivity.
  - eapply Bo_ext; [|apply (Bo_bind _ _ _ g (Bv_ret_exc l) Hg)]. intros s. unfold g. reflexivity.
  - eapply Bo_ext; [|apply (Bo_bind _ _ _ g (Bv_ret_crash e) Hg)]. intros s. unfold g. reflexivity.
Qed.

Lemma call_bridge c path ptype fname source args (KA : res -> prog) (Mo : outcome pyval -> M (option pyval)) :
  (forall raw, val_shaped raw -> Bo (KA raw) (Mo (out_val raw))) ->
  Bo (Emit (UCall c) (Call path ptype fname source args
        (fun u => match u with
                  | URet v => KA (RVal v)
                  | URaise msg _ ext => KA (RExc [user_raise msg ext])
                  end)))
     (fun s => match resolver U path ptype fname source args with
               | URet v => Mo (OVal v) (add_call c s)
               | URaise msg _ ext => Mo (OExc [user_raise msg ext]) (add_call c s)
               end).
Proof.
  intros H. unfold Bo. cbn [run_seq].
  destruct (resolver U path ptype fname source args) as [v|msg g ext].
  - destruct (H (RVal v) I) as [Hs Hc]. destruct (rs (KA (RVal v))) as [r ev]. cbn [fst snd out_val] in *.
    split; [exact Hs|]. intros s. rewrite Hc. f_equal. unfold apply_events, add_call. cbn. now rewrite <- app_assoc.
  - destruct (H (RExc [user_raise msg ext]) I) as [Hs Hc]. destruct (rs (KA (RExc [user_raise msg ext]))) as [r ev].
    cbn [fst snd out_val] in *.
    split; [exact Hs|]. intros s. rewrite Hc. f_equal. unfold apply_events, add_call. cbn. now rewrite <- app_assoc.
Qed.

Lemma resolve_field_body_bridge arf rf :
  arf_bridge arf rf -> arf_bridge (a_resolve_field_body sch doc vs U cfg arf) (resolve_field_body sch doc vs U cfg rf).
Proof.
  intros Hrf ptype source ppath key nodes. unfold a_resolve_field_body, resolve_field_body.
  destruct nodes as [|node rest]; [apply Bo_ret_crash|].
  destruct (get_field_definition sch ptype (fn_name node)) as [fd|]; [|apply Bo_ret_opt].
  set (path := ppath ++ [KName key]).
  pose proof (complete_bridge arf rf ptype fd (node :: rest) path Hrf) as Hc.
  match type of Hc with forall raw, _ -> Bo (?f raw) _ => idtac end || idtac.
  set (KA := fun raw : res =>
         bind (match raw with
               | RVal v =>
                   match is_exc_value v with
                   | Some e => Ret (RExc [e])
                   | None => a_coerce_output (node :: rest) (a_leaf sch doc vs U cfg arf ptype fd (node :: rest) path) (match field_list cfg ptype (fd_name fd) with Some b => b | None => list_concurrently cfg end) (fd_type fd) v path
                   end
               | other => Ret other
               end)
              (fun r => match r with
                        | RExc l => bind (a_handle_field_error l (node :: rest) path (fd_type fd))
                                         (fun r' => match r' with RVal v => Ret (ROpt (Some v)) | o => Ret o end)
                        | RVal v => Ret (ROpt (Some v))
                        | other => Ret other
                        end)).
  change (forall raw, val_shaped raw -> Bo (KA raw) (complete_field sch doc vs U cfg rf ptype fd (node :: rest) path (out_val raw))) in Hc.
  unfold resolve_value.
  destruct (String.eqb (fn_name node) "__typename").
  - eapply Bo_ext; [|apply (Hc (RVal (PStr ptype)) I)]. intros s. reflexivity.
  - destruct (coerce_arguments sch 20 (fd_args fd) (fn_loc node) (fn_args node) vs) as [[args aerrs]|e]; [|apply Bo_ret_crash].
    destruct aerrs as [|ae aes].
    + destruct (has_resolver U ptype (fd_name fd)).
      * eapply Bo_ext; [|apply (call_bridge (CResolver path ptype (fd_name fd) source args) path ptype (fd_name fd) source args KA
                                   (complete_field sch doc vs U cfg rf ptype fd (node :: rest) path) Hc)].
        intros s. cbn beta. destruct (resolver U path ptype (fd_name fd) source args); reflexivity.
      * eapply Bo_ext; [|apply (Hc (RVal (default_field_resolver source (fd_name fd))) I)]. intros s. reflexivity.
    + eapply Bo_ext; [|apply (Hc (RExc (map (fun ae0 => {| p_path := None; p_locs := Some [snd ae0]; p_msg := MEngine "argument"; p_ext := false |}) (ae :: aes))) I)].
      intros s. reflexivity.
Qed.

Theorem resolve_field_bridge fuel : arf_bridge (a_resolve_field sch doc vs U cfg fuel) (resolve_field sch doc vs U cfg fuel).
Proof.
  induction fuel as [|fuel IH]; cbn [a_resolve_field resolve_field].
  - intros ? ? ? ? ?. apply Bo_ret_crash.
  - now apply resolve_field_body_bridge.
Qed.

(* ---------- the whole operation ---------- *)
Definition finish_prog (r : res) : prog :=
  match r with
  | RKVs kv => Ret (RVal (PDict kv))
  | RExc l => emit_errors l (Ret (RVal PNone))
  | other => Ret other
  end.

Definition finish_state (x : outcome (list (string * pyval)) * st) : outcome response :=
  match x with
  | (OVal kv, s) => OVal {| r_data := PDict kv; r_errors := s_errors s; r_log := s_log s |}
  | (OExc l, s) =>
      let s' := add_errors l s in
      OVal {| r_data := PNone; r_errors := s_errors s'; r_log := s_log s' |}
  | (OCrash e, _) => OCrash e
  end.

Lemma finish_bridge x ev0 :
  kvs_shaped x ->
  response_of (fst (rs (finish_prog x))) (ev0 ++ snd (rs (finish_prog x))) =
  finish_state (out_kvs x, apply_events ev0 st0).
Proof.
  intros Hx. destruct x as [v|o|kv|l|e]; try destruct Hx; cbn [finish_prog out_kvs finish_state].
  - cbn. now rewrite app_nil_r.
  - rewrite rs_emit_errors. cbn [run_seq fst snd response_of]. rewrite app_nil_r.
    unfold apply_events, add_errors. cbn.
    now rewrite errors_of_app, calls_of_app, errors_of_error_events, calls_of_error_events, app_nil_r.
  - reflexivity.
Qed.

Theorem execute_operation_bridge op root :
  response_of (fst (rs (a_execute_operation sch doc vs U cfg op root)))
              (snd (rs (a_execute_operation sch doc vs U cfg op root))) =
  execute_operation sch doc vs U cfg op root.
Proof.
  unfold a_execute_operation, execute_operation.
  destruct (root_type_of sch (o_kind op)) as [rt|]; [|reflexivity].
  destruct (collect_fields sch doc vs COLLECT_FUEL rt (o_sels op) [] []) as [[fs visited]|]; [|reflexivity].
  set (rf := fun k ns => resolve_field sch doc vs U cfg EXEC_FUEL rt root [] k ns).
  set (arf := fun k ns => a_resolve_field sch doc vs U cfg EXEC_FUEL rt root [] k ns).
  assert (Hk : forall k ns, Bo (arf k ns) (rf k ns)) by (intros; apply resolve_field_bridge).
  change (fun r : res => match r with
                         | RKVs kv => Ret (RVal (PDict kv))
                         | RExc l => emit_errors l (Ret (RVal PNone))
                         | other => Ret other
                         end) with finish_prog.
  assert (Hserial :
    response_of (fst (rs (bind (sequence_abort (map (fun kn => (fst kn, arf (fst kn) (snd kn))) fs)) finish_prog)))
                (snd (rs (bind (sequence_abort (map (fun kn => (fst kn, arf (fst kn) (snd kn))) fs)) finish_prog))) =
    finish_state (exec_fields_seq rf fs st0)).
  { rewrite rs_bind. cbn [fst snd]. destruct (seq_bridge rf arf Hk fs) as [Hs Hc].
    rewrite finish_bridge by exact Hs. now rewrite Hc. }
  assert (Hmixed :
    response_of (fst (rs (bind (a_exec_fields_mixed (field_conc cfg rt) arf fs) finish_prog)))
                (snd (rs (bind (a_exec_fields_mixed (field_conc cfg rt) arf fs) finish_prog))) =
    finish_state (exec_fields_mixed (field_conc cfg rt) rf fs st0)).
  { rewrite rs_bind. cbn [fst snd]. destruct (mixed_bridge (field_conc cfg rt) rf arf Hk fs) as [Hs Hc].
    rewrite finish_bridge by exact Hs. now rewrite Hc. }
  destruct (o_kind op); first [exact Hmixed|exact Hserial].
Qed.

End Bridge.
