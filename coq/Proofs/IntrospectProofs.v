(* Lemmas about the introspection model (Model/Introspect.v). *)
From Coq Require Import ZArith List String Bool.
From TV Require Import Py.Prelude Model.Schema Model.ImplValidate Model.SchemaBuild Model.Introspect Proofs.ValidateProofs.
Import ListNotations.
Open Scope string_scope.
Open Scope list_scope.

Lemma type_info_name g t : it_name (type_info g t) = td_name t.
Proof. unfold type_info. destruct (td_def t); reflexivity. Qed.

(* nothing missing, nothing extra: the reported type names are exactly the defined ones that do not
   start with two underscores *)
Lemma introspect_type_names g :
  map it_name (introspect_types g) = filter (fun n => negb (prefix "__" n)) (map td_name (g_types g)).
Proof.
  unfold introspect_types. induction (g_types g) as [|t ts IH]; [reflexivity|].
  cbn [filter map]. destruct (negb (prefix "__" (td_name t))); cbn [map]; [rewrite type_info_name|]; now rewrite IH.
Qed.

(* extensions never add or remove a type *)
Lemma upd_tdecl_names ts n f : (forall t, td_name (f t) = td_name t) -> map td_name (upd_tdecl ts n f) = map td_name ts.
Proof.
  intros Hf. induction ts as [|t ts IH]; [reflexivity|]. cbn [upd_tdecl].
  destruct (String.eqb n (td_name t)); cbn [map]; [now rewrite Hf|now rewrite IH].
Qed.
Lemma apply_ext_names g e : map td_name (g_types (apply_ext g e)) = map td_name (g_types g).
Proof. destruct e; cbn [apply_ext g_types]; [apply upd_tdecl_names; reflexivity|reflexivity]. Qed.
Lemma apply_exts_names exts : forall g, map td_name (g_types (fold_left apply_ext exts g)) = map td_name (g_types g).
Proof. induction exts as [|e r IH]; intros g; [reflexivity|]. cbn [fold_left]. now rewrite IH, apply_ext_names. Qed.

Theorem built_type_names s g :
  impl_build s = Built g ->
  map it_name (introspect_types g) =
  filter (fun n => negb (prefix "__" n)) (map td_name (s_types s ++ builtin_types)).
Proof.
  unfold impl_build. destruct (initial s) as [g0|] eqn:Ei; [|discriminate].
  destruct (validate_extensions g0 (s_exts s)); [|discriminate].
  destruct (validate (fold_left apply_ext (s_exts s) g0)) as [[|]|] eqn:Ev; try discriminate.
  intros H. inversion H; subst. rewrite introspect_type_names, apply_exts_names. f_equal.
  unfold initial in Ei.
  destruct (first_dup (map td_name (s_types s ++ builtin_types)) []); [discriminate|].
  destruct (first_dup (map (fun d => dd_name (dd_def d)) (s_dirdefs s ++ builtin_ddecls)) []); [discriminate|].
  inversion Ei. reflexivity.
Qed.

(* __type(name:) *)
Lemma find_tdecl_some ts n t : find_tdecl ts n = Some t -> In t ts /\ td_name t = n.
Proof.
  induction ts as [|x ts IH]; cbn [find_tdecl]; [discriminate|].
  destruct (String.eqb n (td_name x)) eqn:E.
  - intros H. inversion H; subst. apply String.eqb_eq in E. split; [now left|now symmetry].
  - intros H. destruct (IH H). split; [now right|assumption].
Qed.

Theorem type_by_name_agrees g n ti :
  introspect_type g n = Some ti -> prefix "__" n = false ->
  In ti (introspect_types g) /\ it_name ti = n.
Proof.
  unfold introspect_type. destruct (find_tdecl (g_types g) n) as [t|] eqn:E; [|discriminate].
  intros H Hp. inversion H; subst. destruct (find_tdecl_some _ _ _ E) as [Hi Hn]. split.
  - unfold introspect_types. apply in_map. apply filter_In. split; [exact Hi|]. now rewrite Hn, Hp.
  - now rewrite type_info_name.
Qed.

Theorem type_by_name_unknown g n : g_has_type g n = false -> introspect_type g n = None.
Proof. unfold g_has_type, introspect_type. destruct (find_tdecl (g_types g) n); [discriminate|reflexivity]. Qed.

(* includeDeprecated *)
Theorem include_deprecated_filters fs f :
  In f (without_deprecated fs) <-> In f fs /\ if_deprecated f = false.
Proof. unfold without_deprecated. rewrite filter_In, negb_true_iff. reflexivity. Qed.

(* possibleTypes of an interface: exactly the objects declaring it *)
Theorem possible_types_exact g i o :
  In o (g_implementers g i) <->
  exists t ifs fs, In t (g_types g) /\ td_name t = o /\ td_def t = DObject ifs fs /\ In i ifs.
Proof.
  unfold g_implementers. rewrite in_flat_map. split.
  - intros (t & Ht & Ho). destruct (td_def t) as [| | |ifs fs| |] eqn:E; try destruct Ho.
    destruct (mem_str i ifs) eqn:Em; [|destruct Ho]. destruct Ho as [<-|[]].
    exists t, ifs, fs. repeat split; try assumption. now apply mem_str_iff.
  - intros (t & ifs & fs & Ht & Hn & Hd & Hi). exists t. split; [exact Ht|]. rewrite Hd.
    apply mem_str_iff in Hi. rewrite Hi. now left.
Qed.

(* hidden and injected fields are never reported; everything else is *)
Theorem reported_fields_exact g tn fs name :
  In name (map if_name (fields_of_type g tn fs)) <->
  exists f, In f fs /\ fd_name f = name /\ prefix "__" name = false /\ hidden g tn name = false.
Proof.
  unfold fields_of_type. rewrite in_map_iff. split.
  - intros (x & Hx & Hi). apply in_flat_map in Hi. destruct Hi as (f & Hf & Hi).
    destruct (prefix "__" (fd_name f) || hidden g tn (fd_name f)) eqn:E; [destruct Hi|].
    destruct Hi as [<-|[]]. cbn in Hx. subst. apply orb_false_iff in E. destruct E. exists f. auto.
  - intros (f & Hf & Hn & Hp & Hh). subst.
    exists {| if_name := fd_name f; if_args := map (arg_of g) (fd_args f); if_type := ref_of g (fd_type f);
              if_deprecated := deprecated g tn (fd_name f) |}.
    split; [reflexivity|]. apply in_flat_map. exists f. split; [exact Hf|]. rewrite Hp, Hh. now left.
Qed.
