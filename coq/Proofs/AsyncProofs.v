(* Schedule independence for EVERY program of the async calculus (Model/Async.v):
   whatever order the blocked user coroutines are released in, a run that reaches the end has the
   result of the run in which every coroutine returns at once, and the same events up to
   permutation; every release strictly decreases the number of coroutines still to finish. *)
From Coq Require Import ZArith List String Bool Lia Permutation.
From TV Require Import Py.Prelude Model.Schema Model.ImplInput Model.ImplExec Model.Async.
Import ListNotations.
Open Scope list_scope.

(* ---------- induction principles through the nested lists ---------- *)
Section ProgInd.
Variable P : prog -> Prop.
Hypothesis HRet : forall r, P (Ret r).
Hypothesis HCall : forall s t f src a k, (forall u, P (k u)) -> P (Call s t f src a k).
Hypothesis HEmit : forall e k, P k -> P (Emit e k).
Hypothesis HGather : forall cs k, Forall P cs -> (forall rs, P (k rs)) -> P (Gather cs k).

Fixpoint prog_ind' (p : prog) : P p :=
  match p with
  | Ret r => HRet r
  | Call s t f src a k => HCall s t f src a k (fun u => prog_ind' (k u))
  | Emit e k => HEmit e k (prog_ind' k)
  | Gather cs k =>
      HGather cs k
        ((fix go (cs : list prog) : Forall P cs :=
            match cs with
            | [] => Forall_nil P
            | c :: cs' => Forall_cons c (prog_ind' c) (go cs')
            end) cs)
        (fun rs => prog_ind' (k rs))
  end.
End ProgInd.

Section ProcInd.
Variable P : proc -> Prop.
Hypothesis HDone : forall r, P (PDone r).
Hypothesis HBlocked : forall s t f src a k, P (PBlocked s t f src a k).
Hypothesis HJoin : forall cs k, Forall P cs -> P (PJoin cs k).

Fixpoint proc_ind' (p : proc) : P p :=
  match p with
  | PDone r => HDone r
  | PBlocked s t f src a k => HBlocked s t f src a k
  | PJoin cs k =>
      HJoin cs k
        ((fix go (cs : list proc) : Forall P cs :=
            match cs with
            | [] => Forall_nil P
            | c :: cs' => Forall_cons c (proc_ind' c) (go cs')
            end) cs)
  end.
End ProcInd.

Section Confluence.
Variable oracle : site -> string -> string -> pyval -> list (string * pyval) -> uret.

(* list versions of the three interpreters (the anonymous fixes inside the definitions) *)
Fixpoint run_seqs (cs : list prog) : list res * list event :=
  match cs with
  | [] => ([], [])
  | c :: cs' => let (r, e1) := run_seq oracle c in
                let (rs, e2) := run_seqs cs' in (r :: rs, e1 ++ e2)
  end.
Fixpoint starts (cs : list prog) : list proc * list event :=
  match cs with
  | [] => ([], [])
  | c :: cs' => let (q, e1) := start c in
                let (qs, e2) := starts cs' in (q :: qs, e1 ++ e2)
  end.
Fixpoint completes (cs : list proc) : list res * list event :=
  match cs with
  | [] => ([], [])
  | c :: cs' => let (r, e1) := complete oracle c in
                let (rs, e2) := completes cs' in (r :: rs, e1 ++ e2)
  end.
Definition releases (s : site) : list proc -> option (list proc * list event) :=
  fix go (cs : list proc) : option (list proc * list event) :=
  match cs with
  | [] => None
  | c :: cs' =>
      match release oracle s c with
      | Some (c', ev) => Some (c' :: cs', ev)
      | None => match go cs' with
                | Some (cs'', ev) => Some (c :: cs'', ev)
                | None => None
                end
      end
  end.

Lemma run_seq_gather cs k :
  run_seq oracle (Gather cs k) =
  let (r, ev) := run_seq oracle (k (fst (run_seqs cs))) in (r, snd (run_seqs cs) ++ ev).
Proof. reflexivity. Qed.

Lemma start_gather cs k :
  start (Gather cs k) =
  match all_done (fst (starts cs)) with
  | Some rs => let (q, ev) := start (k rs) in (q, snd (starts cs) ++ ev)
  | None => (PJoin (fst (starts cs)) k, snd (starts cs))
  end.
Proof. reflexivity. Qed.

Lemma complete_join cs k :
  complete oracle (PJoin cs k) =
  let (r, ev) := run_seq oracle (k (fst (completes cs))) in (r, snd (completes cs) ++ ev).
Proof. reflexivity. Qed.

Lemma release_join s cs k :
  release oracle s (PJoin cs k) =
  match releases s cs with
  | None => None
  | Some (procs, ev) =>
      match all_done procs with
      | Some rs => let (q, ev') := start (k rs) in Some (q, ev ++ ev')
      | None => Some (PJoin procs k, ev)
      end
  end.
Proof. reflexivity. Qed.

Lemma all_done_completes qs rs : all_done qs = Some rs -> completes qs = (rs, []).
Proof.
  revert rs. induction qs as [|q qs IH]; intros rs; cbn.
  - intros H; inversion H; reflexivity.
  - destruct q as [r| |]; cbn; try discriminate.
    destruct (all_done qs) as [rs'|]; [|discriminate].
    intros H; inversion H; subst. now rewrite (IH rs' eq_refl).
Qed.

(* what `start` leaves to be done is what `run_seq` would have done *)
Definition start_ok (p : prog) : Prop :=
  fst (complete oracle (fst (start p))) = fst (run_seq oracle p) /\
  Permutation (snd (start p) ++ snd (complete oracle (fst (start p)))) (snd (run_seq oracle p)).

Lemma starts_ok cs :
  Forall start_ok cs ->
  fst (completes (fst (starts cs))) = fst (run_seqs cs) /\
  Permutation (snd (starts cs) ++ snd (completes (fst (starts cs)))) (snd (run_seqs cs)).
Proof.
  induction cs as [|c cs IH]; intros H; cbn; [split; [reflexivity|constructor]|].
  pose proof (Forall_inv H) as [Hr Hp]. specialize (IH (Forall_inv_tail H)). destruct IH as [IHr IHp].
  destruct (start c) as [q e1] eqn:Es. destruct (starts cs) as [qs e2] eqn:Ess. cbn [fst snd completes] in *.
  destruct (complete oracle q) as [r e1'] eqn:Ec. destruct (completes qs) as [rs e2'] eqn:Ecs.
  destruct (run_seq oracle c) as [r0 e10] eqn:Er. destruct (run_seqs cs) as [rs0 e20] eqn:Ers.
  cbn [fst snd] in *. subst. split; [reflexivity|].
  (* (e1 ++ e2) ++ (e1' ++ e2')  ~  (e1 ++ e1') ++ (e2 ++ e2') *)
  eapply Permutation_trans; [|apply Permutation_app; [exact Hp|exact IHp]].
  rewrite <- !app_assoc. apply Permutation_app_head.
  rewrite !app_assoc. apply Permutation_app_tail. apply Permutation_app_comm.
Qed.

Theorem start_complete : forall p, start_ok p.
Proof.
  apply prog_ind'; unfold start_ok.
  - intros r. cbn. split; [reflexivity|constructor].
  - intros s t f src a k IH. cbn.
    destruct (run_seq oracle (k (oracle s t f src a))) as [r ev]. cbn. split; [reflexivity|apply Permutation_refl].
  - intros e k [IHr IHp]. cbn.
    destruct (start k) as [q ev]. destruct (run_seq oracle k) as [r ev0]. cbn in *.
    split; [exact IHr|]. now constructor.
  - intros cs k Hcs Hk.
    destruct (starts_ok cs Hcs) as [Hr Hp].
    rewrite start_gather, run_seq_gather.
    destruct (all_done (fst (starts cs))) as [rs|] eqn:Ed.
    + rewrite (all_done_completes _ _ Ed) in Hr, Hp. cbn [fst snd] in Hr, Hp. rewrite app_nil_r in Hp.
      subst rs. specialize (Hk (fst (run_seqs cs))). destruct Hk as [Hkr Hkp].
      destruct (start (k (fst (run_seqs cs)))) as [q ev] eqn:Es.
      destruct (run_seq oracle (k (fst (run_seqs cs)))) as [r ev0] eqn:Er. cbn [fst snd] in *.
      split; [exact Hkr|].
      rewrite <- app_assoc. now apply Permutation_app.
    + cbn [fst snd]. rewrite complete_join. rewrite Hr.
      destruct (run_seq oracle (k (fst (run_seqs cs)))) as [r ev0]. cbn [fst snd].
      split; [reflexivity|]. rewrite app_assoc. now apply Permutation_app_tail.
Qed.

(* releasing one blocked coroutine does not change what the whole computes *)
Definition release_ok (p : proc) : Prop :=
  forall s p' ev, release oracle s p = Some (p', ev) ->
    fst (complete oracle p') = fst (complete oracle p) /\
    Permutation (ev ++ snd (complete oracle p')) (snd (complete oracle p)) /\
    finishes_of ev <> [].

Lemma releases_ok s cs :
  Forall release_ok cs -> forall procs ev, releases s cs = Some (procs, ev) ->
    fst (completes procs) = fst (completes cs) /\
    Permutation (ev ++ snd (completes procs)) (snd (completes cs)) /\
    finishes_of ev <> [].
Proof.
  induction cs as [|c cs IH]; intros H procs ev; cbn [releases]; [discriminate|].
  pose proof (Forall_inv H) as Hc. specialize (IH (Forall_inv_tail H)).
  fold (releases s cs).
  destruct (release oracle s c) as [[c' ev1]|] eqn:Er.
  - intros E; inversion E; subst. destruct (Hc _ _ _ Er) as (Hr & Hp & Hf). cbn.
    destruct (complete oracle c') as [r' e']. destruct (complete oracle c) as [r e].
    destruct (completes cs) as [rs es]. cbn [fst snd] in *. subst. split; [reflexivity|]. split; [|exact Hf].
    rewrite app_assoc. now apply Permutation_app_tail.
  - destruct (releases s cs) as [[cs'' ev1]|] eqn:Ers; [|discriminate].
    intros E; inversion E; subst. destruct (IH _ _ eq_refl) as (Hr & Hp & Hf). cbn.
    destruct (complete oracle c) as [r e]. destruct (completes cs'') as [rs' es'].
    destruct (completes cs) as [rs es]. cbn [fst snd] in *. subst. split; [reflexivity|]. split; [|exact Hf].
    (* ev ++ (e ++ es')  ~  e ++ es  given  ev ++ es' ~ es *)
    eapply Permutation_trans; [|apply Permutation_app_head; exact Hp].
    rewrite !app_assoc. apply Permutation_app_tail. apply Permutation_app_comm.
Qed.

Lemma finishes_app a b : finishes_of (a ++ b) = finishes_of a ++ finishes_of b.
Proof. unfold finishes_of. apply flat_map_app. Qed.

Theorem release_complete : forall p, release_ok p.
Proof.
  apply proc_ind'; unfold release_ok.
  - intros r s p' ev. cbn. discriminate.
  - intros s' t f src a k s p' ev. cbn.
    destruct (path_eqb s s'); [|discriminate].
    pose proof (start_complete (k (oracle s' t f src a))) as [Hr Hp].
    destruct (start (k (oracle s' t f src a))) as [q ev0]. cbn [fst snd] in *.
    intros E; inversion E; subst.
    destruct (run_seq oracle (k (oracle s' t f src a))) as [r evk]. cbn [fst snd] in *.
    split; [exact Hr|]. split; [cbn; now constructor|cbn; discriminate].
  - intros cs k Hcs s p' ev. rewrite release_join.
    destruct (releases s cs) as [[procs ev1]|] eqn:Ers; [|discriminate].
    destruct (releases_ok s cs Hcs _ _ Ers) as (Hr & Hp & Hf).
    rewrite complete_join.
    destruct (all_done procs) as [rs|] eqn:Ed.
    + rewrite (all_done_completes _ _ Ed) in Hr, Hp. cbn [fst snd] in Hr, Hp. rewrite app_nil_r in Hp. subst rs.
      pose proof (start_complete (k (fst (completes cs)))) as [Hkr Hkp].
      destruct (start (k (fst (completes cs)))) as [q ev'] eqn:Es.
      intros E; inversion E; subst.
      destruct (run_seq oracle (k (fst (completes cs)))) as [r evk]. cbn [fst snd] in *.
      split; [exact Hkr|]. split.
      * rewrite <- app_assoc. now apply Permutation_app.
      * rewrite finishes_app. intro Hn. apply app_eq_nil in Hn. now destruct Hn.
    + intros E; inversion E; subst. rewrite complete_join, Hr.
      destruct (run_seq oracle (k (fst (completes cs)))) as [r evk]. cbn [fst snd].
      split; [reflexivity|]. split; [|exact Hf].
      rewrite app_assoc. now apply Permutation_app_tail.
Qed.

(* any sequence of picks *)
Lemma run_picks_complete picks : forall q acc q' evs,
  run_picks oracle picks q acc = Some (q', evs) ->
  fst (complete oracle q') = fst (complete oracle q) /\
  Permutation (evs ++ snd (complete oracle q')) (acc ++ snd (complete oracle q)).
Proof.
  induction picks as [|s picks IH]; intros q acc q' evs; cbn.
  - intros E; inversion E; subst. split; [reflexivity|apply Permutation_refl].
  - destruct (release oracle s q) as [[q1 ev]|] eqn:Er; [|discriminate].
    intros E. destruct (IH _ _ _ _ E) as [Hr Hp].
    destruct (release_complete q _ _ _ Er) as (Hr1 & Hp1 & _).
    split; [congruence|].
    eapply Permutation_trans; [exact Hp|]. rewrite <- app_assoc. now apply Permutation_app_head.
Qed.

(* ===== the theorem: results do not depend on the schedule ===== *)
Theorem schedule_independence picks p r evs :
  run_sched oracle picks p = Some (PDone r, evs) ->
  r = fst (run_seq oracle p) /\ Permutation evs (snd (run_seq oracle p)).
Proof.
  unfold run_sched. pose proof (start_complete p) as [Hr Hp].
  destruct (start p) as [q ev0]. cbn [fst snd] in *.
  intros E. destruct (run_picks_complete _ _ _ _ _ E) as [Hr' Hp'].
  cbn [complete fst snd] in Hr', Hp'. rewrite app_nil_r in Hp'.
  split; [congruence|]. eapply Permutation_trans; eauto.
Qed.

(* two complete schedules agree with each other *)
Corollary any_two_schedules_agree picks1 picks2 p r1 r2 evs1 evs2 :
  run_sched oracle picks1 p = Some (PDone r1, evs1) ->
  run_sched oracle picks2 p = Some (PDone r2, evs2) ->
  r1 = r2 /\ Permutation evs1 evs2.
Proof.
  intros H1 H2. destruct (schedule_independence _ _ _ _ H1) as [-> P1].
  destruct (schedule_independence _ _ _ _ H2) as [-> P2].
  split; [reflexivity|]. eapply Permutation_trans; [exact P1|now apply Permutation_sym].
Qed.

(* ---------- started / finished ---------- *)
Lemma starts_of_app a b : starts_of (a ++ b) = starts_of a ++ starts_of b.
Proof. unfold starts_of. apply flat_map_app. Qed.

Lemma run_seqs_balanced cs :
  Forall (fun p => starts_of (snd (run_seq oracle p)) = finishes_of (snd (run_seq oracle p))) cs ->
  starts_of (snd (run_seqs cs)) = finishes_of (snd (run_seqs cs)).
Proof.
  induction cs as [|c cs IH]; intros H; cbn; [reflexivity|].
  pose proof (Forall_inv H) as Hc. cbv beta in Hc. specialize (IH (Forall_inv_tail H)).
  destruct (run_seq oracle c) as [r e1]. destruct (run_seqs cs) as [rs e2]. cbn [snd] in *.
  now rewrite starts_of_app, finishes_app, Hc, IH.
Qed.

(* in the sequential run every started coroutine finishes: the two logs are the same list *)
Theorem run_seq_balanced : forall p,
  starts_of (snd (run_seq oracle p)) = finishes_of (snd (run_seq oracle p)).
Proof.
  apply prog_ind'.
  - reflexivity.
  - intros s t f src a k IH. cbn. specialize (IH (oracle s t f src a)).
    destruct (run_seq oracle (k (oracle s t f src a))) as [r ev]. cbn in *. now rewrite IH.
  - intros e k IH. cbn. destruct (run_seq oracle k) as [r ev]. cbn in *. exact IH.
  - intros cs k Hcs Hk. rewrite run_seq_gather.
    pose proof (run_seqs_balanced cs Hcs) as Hb. specialize (Hk (fst (run_seqs cs))).
    destruct (run_seq oracle (k (fst (run_seqs cs)))) as [r ev]. cbn [snd] in *.
    now rewrite starts_of_app, finishes_app, Hb, Hk.
Qed.

Lemma flat_map_perm {A B} (f : A -> list B) l l' : Permutation l l' -> Permutation (flat_map f l) (flat_map f l').
Proof.
  induction 1; cbn.
  - constructor.
  - now apply Permutation_app_head.
  - rewrite !app_assoc. apply Permutation_app_tail. apply Permutation_app_comm.
  - eapply Permutation_trans; eauto.
Qed.

(* under every schedule: when the run has ended, the started coroutines are exactly the finished
   ones, and exactly those of the sequential run (none is started twice because of scheduling) *)
Theorem every_started_finishes picks p r evs :
  run_sched oracle picks p = Some (PDone r, evs) ->
  Permutation (starts_of evs) (finishes_of evs) /\
  Permutation (starts_of evs) (starts_of (snd (run_seq oracle p))).
Proof.
  intros H. destruct (schedule_independence _ _ _ _ H) as [_ Hp].
  assert (Hs : Permutation (starts_of evs) (starts_of (snd (run_seq oracle p)))) by (apply flat_map_perm; exact Hp).
  assert (Hf : Permutation (finishes_of evs) (finishes_of (snd (run_seq oracle p)))) by (apply flat_map_perm; exact Hp).
  split; [|exact Hs].
  eapply Permutation_trans; [exact Hs|]. rewrite run_seq_balanced. now apply Permutation_sym.
Qed.

(* ---------- termination ---------- *)
Definition pending (q : proc) : nat := List.length (finishes_of (snd (complete oracle q))).

Theorem release_decreases s q q' ev :
  release oracle s q = Some (q', ev) -> (pending q' < pending q)%nat.
Proof.
  intros H. destruct (release_complete q _ _ _ H) as (_ & Hp & Hf).
  unfold pending. apply (flat_map_perm (fun e => match e with EFinish s0 => [s0] | _ => [] end)) in Hp.
  fold (finishes_of (ev ++ snd (complete oracle q'))) in Hp. fold (finishes_of (snd (complete oracle q))) in Hp.
  apply Permutation_length in Hp. rewrite finishes_app, app_length in Hp.
  destruct (finishes_of ev); [congruence|]. cbn in Hp. lia.
Qed.

(* no schedule can release more coroutines than the sequential run awaits: execute terminates *)
Theorem schedules_are_bounded picks : forall q acc q' evs,
  run_picks oracle picks q acc = Some (q', evs) -> (List.length picks + pending q' <= pending q)%nat.
Proof.
  induction picks as [|s picks IH]; intros q acc q' evs; cbn.
  - intros E; inversion E; subst. lia.
  - destruct (release oracle s q) as [[q1 ev]|] eqn:Er; [|discriminate].
    intros E. specialize (IH _ _ _ _ E). pose proof (release_decreases _ _ _ _ Er). lia.
Qed.


(* ---------- no deadlock ---------- *)
Inductive normal : proc -> Prop :=
| NDone r : normal (PDone r)
| NBlocked s t f src a k : normal (PBlocked s t f src a k)
| NJoin cs k : Forall normal cs -> all_done cs = None -> normal (PJoin cs k).

Lemma starts_normal cs : Forall (fun p => normal (fst (start p))) cs -> Forall normal (fst (starts cs)).
Proof.
  induction cs as [|c cs IH]; intros H; cbn; [constructor|].
  pose proof (Forall_inv H) as Hc. cbv beta in Hc. specialize (IH (Forall_inv_tail H)).
  destruct (start c) as [q e1]. destruct (starts cs) as [qs e2]. cbn [fst] in *. now constructor.
Qed.

Theorem start_normal : forall p, normal (fst (start p)).
Proof.
  apply prog_ind'.
  - intros r. constructor.
  - intros. constructor.
  - intros e k IH. cbn. destruct (start k). exact IH.
  - intros cs k Hcs Hk. rewrite start_gather.
    destruct (all_done (fst (starts cs))) as [rs|] eqn:Ed.
    + specialize (Hk rs). destruct (start (k rs)). exact Hk.
    + cbn [fst]. constructor; [now apply starts_normal|exact Ed].
Qed.

Lemma releases_normal s cs :
  Forall (fun c => normal c -> forall c' ev, release oracle s c = Some (c', ev) -> normal c') cs ->
  Forall normal cs -> forall procs ev, releases s cs = Some (procs, ev) -> Forall normal procs.
Proof.
  induction cs as [|c cs IH]; intros H Hn procs ev; cbn [releases]; [discriminate|]. fold (releases s cs).
  pose proof (Forall_inv H) as Hc. cbv beta in Hc. specialize (IH (Forall_inv_tail H) (Forall_inv_tail Hn)).
  destruct (release oracle s c) as [[c' ev1]|] eqn:Er.
  - intros E; inversion E; subst. constructor; [eapply Hc; eauto; exact (Forall_inv Hn)|exact (Forall_inv_tail Hn)].
  - destruct (releases s cs) as [[cs'' ev1]|]; [|discriminate].
    intros E; inversion E; subst. constructor; [exact (Forall_inv Hn)|eapply IH; eauto].
Qed.

Theorem release_normal : forall p, normal p -> forall s p' ev, release oracle s p = Some (p', ev) -> normal p'.
Proof.
  apply (proc_ind' (fun p => normal p -> forall s p' ev, release oracle s p = Some (p', ev) -> normal p')).
  - intros r _ s p' ev. cbn. discriminate.
  - intros s' t f src a k _ s p' ev. cbn. destruct (path_eqb s s'); [|discriminate].
    pose proof (start_normal (k (oracle s' t f src a))) as Hn.
    destruct (start (k (oracle s' t f src a))) as [q ev0]. intros E; inversion E; subst. exact Hn.
  - intros cs k Hcs Hn s p' ev. rewrite release_join.
    destruct (releases s cs) as [[procs ev1]|] eqn:Ers; [|discriminate].
    assert (Hp : Forall normal procs).
    { inversion Hn; subst. eapply (releases_normal s cs); eauto.
      eapply Forall_impl; [|exact Hcs]. intros c Hc Hnc c' ev' Er. eapply Hc; eauto. }
    destruct (all_done procs) as [rs|] eqn:Ed.
    + pose proof (start_normal (k rs)) as Hk. destruct (start (k rs)) as [q ev']. intros E; inversion E; subst. exact Hk.
    + intros E; inversion E; subst. constructor; assumption.
Qed.

Lemma blocked_join cs k :
  blocked (PJoin cs k) = flat_map blocked cs.
Proof. cbn. induction cs as [|c cs IH]; [reflexivity|]. cbn. now rewrite IH. Qed.

Lemma releases_some s cs c :
  In c cs -> (exists c' ev, release oracle s c = Some (c', ev)) -> exists procs ev, releases s cs = Some (procs, ev).
Proof.
  induction cs as [|x cs IH]; intros Hin Hr; [contradiction|]. cbn [releases]. fold (releases s cs).
  destruct (release oracle s x) as [[x' ev]|] eqn:Ex; [eauto|].
  destruct Hin as [-> | Hin].
  - destruct Hr as (c' & ev & Hr). congruence.
  - destruct (IH Hin Hr) as (procs & ev & ->). eauto.
Qed.

(* a state that is not final always has a blocked coroutine, and releasing it succeeds *)
Theorem progress : forall p, normal p ->
  (exists r, p = PDone r) \/
  (exists s, In s (blocked p) /\ exists p' ev, release oracle s p = Some (p', ev)).
Proof.
  apply (proc_ind' (fun p => normal p -> (exists r, p = PDone r) \/
           (exists s, In s (blocked p) /\ exists p' ev, release oracle s p = Some (p', ev)))).
  - intros r _. left; eauto.
  - intros s t f src a k _. right. exists s. split; [now left|]. cbn.
    assert (Hs : path_eqb s s = true).
    { induction s as [|x s IHs]; [reflexivity|]. cbn. rewrite IHs, andb_true_r.
      destruct x; cbn; [apply String.eqb_refl|apply Z.eqb_refl]. }
    rewrite Hs. destruct (start (k (oracle s t f src a))). eauto.
  - intros cs k Hcs Hn. right. inversion Hn as [| |cs0 k0 Hall Hnd]; subst.
    (* some child is not done *)
    assert (Hex : exists c, In c cs /\ forall r, c <> PDone r).
    { clear Hcs Hall Hn. induction cs as [|c cs IH]; [discriminate|]. cbn in Hnd.
      destruct c as [r| |]; try (eexists; split; [now left|discriminate]).
      cbn in Hnd. destruct (all_done cs) eqn:E; [discriminate|].
      destruct (IH eq_refl) as (c & Hin & Hc). exists c. split; [now right|exact Hc]. }
    destruct Hex as (c & Hin & Hc).
    pose proof (proj1 (Forall_forall _ _) Hcs c Hin) as IHc.
    pose proof (proj1 (Forall_forall _ _) Hall c Hin) as Hnc.
    destruct (IHc Hnc) as [[r Hr]|(s & Hs & Hrel)]; [exfalso; eapply Hc; eauto|].
    exists s. split.
    + rewrite blocked_join. apply in_flat_map. eauto.
    + rewrite release_join. destruct (releases_some s cs c Hin Hrel) as (procs & ev & ->).
      destruct (all_done procs); [destruct (start (k l)); eauto|eauto].
Qed.


(* ---------- sequential composition is sequential under every schedule ---------- *)
Definition bind_proc (q : proc) (f : res -> prog) : proc :=
  match q with
  | PDone r => PDone r
  | PBlocked s t fd src a k => PBlocked s t fd src a (fun u => bind (k u) f)
  | PJoin cs k => PJoin cs (fun rs => bind (k rs) f)
  end.

Definition then_start (qe : proc * list event) (f : res -> prog) : proc * list event :=
  match fst qe with
  | PDone r => let (q', ev') := start (f r) in (q', snd qe ++ ev')
  | q => (bind_proc q f, snd qe)
  end.

Lemma start_bind f : forall p, start (bind p f) = then_start (start p) f.
Proof.
  apply prog_ind'.
  - intros r. cbn. unfold then_start. cbn. now destruct (start (f r)).
  - intros s t fd src a k IH. reflexivity.
  - intros e k IH. cbn [bind start]. rewrite IH. unfold then_start.
    destruct (start k) as [q ev]. cbn [fst snd].
    destruct q; [destruct (start (f r)); reflexivity|reflexivity|reflexivity].
  - intros cs k Hcs Hk. cbn [bind]. rewrite !start_gather.
    destruct (all_done (fst (starts cs))) as [rs|].
    + rewrite Hk. unfold then_start. destruct (start (k rs)) as [q ev]. cbn [fst snd].
      destruct q; [destruct (start (f r)); now rewrite app_assoc|reflexivity|reflexivity].
    + reflexivity.
Qed.

Definition then_release (o : option (proc * list event)) (f : res -> prog) : option (proc * list event) :=
  match o with
  | None => None
  | Some qe => Some (then_start qe f)
  end.

Lemma release_bind f s q : (forall r, q <> PDone r) ->
  release oracle s (bind_proc q f) = then_release (release oracle s q) f.
Proof.
  intros Hq. destruct q as [r|s' t fd src a k|cs k]; [exfalso; eapply Hq; reflexivity| |].
  - cbn. destruct (path_eqb s s'); [|reflexivity].
    rewrite start_bind. unfold then_release, then_start.
    destruct (start (k (oracle s' t fd src a))) as [q ev]. cbn [fst snd].
    destruct q; [destruct (start (f r)); reflexivity|reflexivity|reflexivity].
  - cbn [bind_proc]. rewrite !release_join.
    destruct (releases s cs) as [[procs ev]|]; [|reflexivity].
    destruct (all_done procs) as [rs|].
    + rewrite start_bind. unfold then_release, then_start.
      destruct (start (k rs)) as [q ev']. cbn [fst snd].
      destruct q; [destruct (start (f r)); now rewrite app_assoc|reflexivity|reflexivity].
    + reflexivity.
Qed.

(* a complete run of `bind p f` is a complete run of p followed by a complete run of f's
   continuation: every event of p -- all its finishes included -- precedes every event of what
   follows -- its first start included *)
Lemma run_picks_bind f : forall picks q acc r evs,
  (forall r0, q <> PDone r0) ->
  run_picks oracle picks (bind_proc q f) acc = Some (PDone r, evs) ->
  exists picks1 picks2 r1 evs1 q2 ev2,
    picks = picks1 ++ picks2 /\
    run_picks oracle picks1 q acc = Some (PDone r1, evs1) /\
    start (f r1) = (q2, ev2) /\
    run_picks oracle picks2 q2 (evs1 ++ ev2) = Some (PDone r, evs).
Proof.
  induction picks as [|s picks IH]; intros q acc r evs Hq; cbn [run_picks].
  - intros E; inversion E as [[E1 E2]]. destruct q; cbn in E1; try discriminate. exfalso; eapply Hq; eauto.
  - rewrite release_bind by exact Hq. unfold then_release.
    destruct (release oracle s q) as [[q' ev]|] eqn:Er; [|discriminate].
    unfold then_start. cbn [fst snd].
    destruct q' as [r1|s' t fd src a k|cs k].
    + destruct (start (f r1)) as [q2 ev2] eqn:Es. intros E.
      exists [s], picks, r1, (acc ++ ev), q2, ev2. repeat split; auto.
      * cbn. now rewrite Er.
      * now rewrite <- app_assoc.
    + intros E. destruct (IH (PBlocked s' t fd src a k) _ _ _ ltac:(discriminate) E)
        as (p1 & p2 & r1 & evs1 & q2 & ev2 & -> & H1 & H2 & H3).
      exists (s :: p1), p2, r1, evs1, q2, ev2. repeat split; auto. cbn. now rewrite Er.
    + intros E. destruct (IH (PJoin cs k) _ _ _ ltac:(discriminate) E)
        as (p1 & p2 & r1 & evs1 & q2 & ev2 & -> & H1 & H2 & H3).
      exists (s :: p1), p2, r1, evs1, q2, ev2. repeat split; auto. cbn. now rewrite Er.
Qed.

Theorem bind_is_sequential f p picks r evs :
  run_sched oracle picks (bind p f) = Some (PDone r, evs) ->
  exists picks1 picks2 r1 evs1,
    picks = picks1 ++ picks2 /\
    run_sched oracle picks1 p = Some (PDone r1, evs1) /\
    exists q2 ev2, start (f r1) = (q2, ev2) /\ run_picks oracle picks2 q2 (evs1 ++ ev2) = Some (PDone r, evs).
Proof.
  unfold run_sched. rewrite start_bind. unfold then_start.
  destruct (start p) as [q ev]. cbn [fst snd].
  destruct q as [r1|s' t fd src a k|cs k].
  - destruct (start (f r1)) as [q2 ev2] eqn:Es. intros E.
    exists [], picks, r1, ev. repeat split; auto. exists q2, ev2. auto.
  - intros E. destruct (run_picks_bind f _ (PBlocked s' t fd src a k) _ _ _ ltac:(discriminate) E)
      as (p1 & p2 & r1 & evs1 & q2 & ev2 & -> & H1 & H2 & H3).
    exists p1, p2, r1, evs1. repeat split; auto. exists q2, ev2. auto.
  - intros E. destruct (run_picks_bind f _ (PJoin cs k) _ _ _ ltac:(discriminate) E)
      as (p1 & p2 & r1 & evs1 & q2 & ev2 & -> & H1 & H2 & H3).
    exists p1, p2, r1, evs1. repeat split; auto. exists q2, ev2. auto.
Qed.

(* events only ever get appended: a run extends the accumulated log *)
Lemma run_picks_extends : forall picks q acc q' evs,
  run_picks oracle picks q acc = Some (q', evs) -> exists more, evs = acc ++ more.
Proof.
  induction picks as [|s picks IH]; intros q acc q' evs; cbn.
  - intros E; inversion E. exists []. now rewrite app_nil_r.
  - destruct (release oracle s q) as [[q1 ev]|]; [|discriminate].
    intros E. destruct (IH _ _ _ _ E) as [more ->]. exists (ev ++ more). now rewrite app_assoc.
Qed.

(* hence the log of `bind p f` is: the whole log of p, then the log of the continuation *)
Corollary bind_log_is_prefixed f p picks r evs :
  run_sched oracle picks (bind p f) = Some (PDone r, evs) ->
  exists picks1 r1 evs1 rest,
    run_sched oracle picks1 p = Some (PDone r1, evs1) /\ evs = evs1 ++ rest.
Proof.
  intros H. destruct (bind_is_sequential _ _ _ _ _ H) as (p1 & p2 & r1 & evs1 & _ & H1 & q2 & ev2 & _ & H3).
  destruct (run_picks_extends _ _ _ _ _ H3) as [more ->].
  exists p1, r1, evs1, (ev2 ++ more). split; [exact H1|]. now rewrite app_assoc.
Qed.


Lemma run_seq_bind f : forall p,
  run_seq oracle (bind p f) =
  let (r, ev) := run_seq oracle p in let (r', ev') := run_seq oracle (f r) in (r', ev ++ ev').
Proof.
  apply prog_ind'.
  - intros r. cbn. now destruct (run_seq oracle (f r)).
  - intros s t fd src a k IH. cbn. rewrite IH.
    destruct (run_seq oracle (k (oracle s t fd src a))) as [r ev].
    destruct (run_seq oracle (f r)) as [r' ev']. reflexivity.
  - intros e k IH. cbn. rewrite IH. destruct (run_seq oracle k) as [r ev].
    destruct (run_seq oracle (f r)) as [r' ev']. reflexivity.
  - intros cs k Hcs Hk. cbn [bind]. rewrite !run_seq_gather, Hk.
    destruct (run_seq oracle (k (fst (run_seqs cs)))) as [r ev].
    destruct (run_seq oracle (f r)) as [r' ev']. now rewrite app_assoc.
Qed.

Lemma run_seqs_fst cs : fst (run_seqs cs) = map (fun c => fst (run_seq oracle c)) cs.
Proof.
  induction cs as [|c cs IH]; [reflexivity|]. cbn.
  destruct (run_seq oracle c). destruct (run_seqs cs). cbn in *. now rewrite IH.
Qed.

End Confluence.
