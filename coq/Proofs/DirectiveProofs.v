(* Lemmas about the directive-hook model (Model/Directives.v). *)
From Coq Require Import ZArith List String Bool.
From TV Require Import Py.Prelude Model.Schema Model.Directives.
Import ListNotations.
Open Scope string_scope.
Open Scope list_scope.

Section Generic.
Variable V E : Type.
Variable impl : dinst -> string -> stage V E -> stage V E.

Lemma fold_right_filter (h : string) (base : stage V E) ds :
  fold_right (fun d f => if has_hook h d then impl d h f else f) base ds =
  fold_right (fun d f => impl d h f) base (filter (has_hook h) ds).
Proof.
  induction ds as [|d ds IH]; cbn [fold_right filter]; [reflexivity|].
  destruct (has_hook h d); cbn [fold_right]; now rewrite IH.
Qed.

(* the reversed wrapping loop nests the hooks in declaration order, first declared outermost *)
Lemma wraps_eq_nest ds h base : wraps_with_directives V E impl ds h base = nest V E impl ds h base.
Proof.
  unfold wraps_with_directives, nest. rewrite <- fold_right_filter.
  rewrite <- (rev_involutive ds) at 2. rewrite fold_left_rev_right. reflexivity.
Qed.

(* query-side directives wrapped around the baked (schema-side) resolver *)
Lemma wraps_twice q s h base :
  wraps_with_directives V E impl q h (wraps_with_directives V E impl s h base) = nest V E impl (q ++ s) h base.
Proof.
  rewrite !wraps_eq_nest. unfold nest. now rewrite filter_app, fold_right_app.
Qed.
End Generic.

(* tagging hooks: every applicable hook is invoked exactly once, in declaration order, with its
   own argument; what the next stage sees is what the previous hook produced *)
Lemma nest_tagging h l : forall v log,
  fold_right (fun d f => tagging d h f) ret_stage l v log =
  (fold_left (fun v d => tag (di_name d) v) l v, log ++ map (fun d => (di_name d, h, di_arg d)) l).
Proof.
  induction l as [|d l IH]; intros v log; cbn [fold_right fold_left map].
  - unfold ret_stage. now rewrite app_nil_r.
  - unfold tagging at 1. rewrite IH. now rewrite <- app_assoc.
Qed.

Lemma run_hooks_spec ds h v log :
  run_hooks ds h v log =
  (apply_tags ds h v, log ++ map (fun d => (di_name d, h, di_arg d)) (filter (has_hook h) ds)).
Proof. unfold run_hooks. rewrite wraps_eq_nest. unfold nest, apply_tags. apply nest_tagging. Qed.

(* literal path = variable path, hooks included *)
Lemma literal_eq_variable raw vars : forall q t,
  well_placed raw vars t q -> literal_coerce vars t q = input_coerce t (subst raw q).
Proof.
  fix IH 1. intros q t. destruct q as [s| |n|kvs|xs].
  - destruct t; reflexivity.
  - reflexivity.
  - cbn [well_placed literal_coerce subst]. intros H. exact H.
  - cbn [well_placed literal_coerce subst input_coerce]. destruct t as [ds|ds fields|it]; try contradiction.
    intros H. f_equal. f_equal.
    induction kvs as [|[k x] r IHr]; [reflexivity|].
    destruct H as [Hx Hr]. destruct (assoc3 k fields) as [[fds ft]|] eqn:E; [|contradiction].
    rewrite (IH x ft Hx). f_equal. apply IHr. exact Hr.
  - cbn [well_placed literal_coerce subst input_coerce]. destruct t as [ds|ds fields|it]; try contradiction.
    intros H. f_equal.
    induction xs as [|x r IHr]; [reflexivity|].
    destruct H as [Hx Hr]. rewrite (IH x it Hx). f_equal. apply IHr. exact Hr.
Qed.
