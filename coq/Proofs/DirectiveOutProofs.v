(* The output side of the hooks: what is executed (Model/DirectivesOut.v output_run, hooks logging
   their invocations in order) is the pure view -- the value with the applicable tags applied, and one
   on_pre_output_coercion invocation per applicable instance per governed value, null values included. *)
From Coq Require Import ZArith List String Bool Lia.
From TV Require Import Py.Prelude Model.Schema Model.Directives Model.DirectivesOut Proofs.DirectiveProofs.
Import ListNotations.
Open Scope string_scope.
Open Scope list_scope.

Section OtyInd.
Variable P : oty -> Prop.
Hypothesis HS : forall ds, P (OScalar ds).
Hypothesis HO : forall ds fields, Forall (fun p => P (ftype p)) fields -> P (OObject ds fields).
Hypothesis HL : forall item, P item -> P (OListOf item).
Fixpoint oty_ind2 (t : oty) : P t :=
  match t with
  | OScalar ds => HS ds
  | OObject ds fields =>
      HO ds fields ((fix go (fs : list (string * list dinst * oty)) : Forall (fun p => P (ftype p)) fs :=
                       match fs with
                       | [] => Forall_nil _
                       | p :: r => Forall_cons p (oty_ind2 (ftype p)) (go r)
                       end) fields)
  | OListOf item => HL item (oty_ind2 item)
  end.
End OtyInd.

Lemma run_hooks_pure ds h v log : run_hooks ds h v log = (apply_tags ds h v, log ++ events ds h).
Proof. rewrite run_hooks_spec. reflexivity. Qed.

Lemma items_fold (run : stage tval tag_event) (pure : tval -> tval) (lg : tval -> list tag_event) xs :
  (forall x, In x xs -> forall log, run x log = (pure x, log ++ lg x)) ->
  forall ys log,
    fold_left (fun acc x => let r := run x (snd acc) in (fst acc ++ [fst r], snd r)) xs (ys, log) =
    (ys ++ map pure xs, log ++ flat_map lg xs).
Proof.
  induction xs as [|x xs IH]; intros H ys log; cbn [fold_left map flat_map].
  - now rewrite !app_nil_r.
  - cbn [fst snd]. rewrite (H x (or_introl eq_refl)). cbn [fst snd].
    rewrite IH by (intros y Hy; apply H; now right). now rewrite <- !app_assoc.
Qed.

Lemma fields_fold kv (fields : list (string * list dinst * oty)) :
  Forall (fun p => forall v log, output_run (ftype p) v log = (output_coerce (ftype p) v, log ++ output_log (ftype p) v)) fields ->
  forall acc log,
    fold_left (fun acc p =>
                 let r := output_run (ftype p) (field_tags (fdirs p) (tlookup (fname p) kv)) (snd acc) in
                 (fst acc ++ [(fname p, fst r)], snd r)) fields (acc, log) =
    (acc ++ map (fun p => (fname p, output_coerce (ftype p) (field_tags (fdirs p) (tlookup (fname p) kv)))) fields,
     log ++ flat_map (fun p => output_log (ftype p) (field_tags (fdirs p) (tlookup (fname p) kv))) fields).
Proof.
  induction 1 as [|p fs Hp Hfs IH]; intros acc log; cbn [fold_left map flat_map].
  - now rewrite !app_nil_r.
  - cbn [fst snd]. rewrite Hp. cbn [fst snd]. rewrite IH. now rewrite <- !app_assoc.
Qed.

(* executed = pure view, for every annotated type, value and initial log *)
Theorem output_run_spec : forall t v log, output_run t v log = (output_coerce t v, log ++ output_log t v).
Proof.
  induction t using oty_ind2; intros v log.
  - cbn [output_run output_coerce output_log]. apply run_hooks_pure.
  - cbn [output_run output_coerce output_log]. rewrite run_hooks_pure. cbn [fst snd].
    destruct (apply_tags ds PRE_OUTPUT v) as [s| |kv|xs]; try (now rewrite app_nil_r).
    rewrite (fields_fold kv fields H). cbn [fst snd app]. now rewrite <- app_assoc.
  - cbn [output_run output_coerce output_log].
    destruct v as [s| |kv|xs]; try (now rewrite app_nil_r).
    rewrite (items_fold (output_run t) (output_coerce t) (output_log t) xs (fun x _ => IHt x)). reflexivity.
Qed.

(* exactly once per governed value: a list of n items of a leaf type -- whatever the items, null ones
   included -- invokes each applicable instance of the item type n times, in item order *)
Theorem list_items_each_once ds xs :
  output_log (OListOf (OScalar ds)) (TLst xs) = flat_map (fun _ => events ds PRE_OUTPUT) xs.
Proof. reflexivity. Qed.

Lemma flat_map_const_length {A B} (l : list A) (c : list B) : List.length (flat_map (fun _ => c) l) = (List.length l * List.length c)%nat.
Proof. induction l as [|x l IH]; cbn [flat_map List.length]; [reflexivity|]. rewrite app_length, IH. lia. Qed.

Theorem list_items_invocation_count ds xs :
  List.length (output_log (OListOf (OScalar ds)) (TLst xs)) =
  (List.length xs * List.length (filter (has_hook PRE_OUTPUT) ds))%nat.
Proof. rewrite list_items_each_once, flat_map_const_length. unfold events. now rewrite map_length. Qed.

(* a null value at a position of a type still meets that type's hooks (and only those) *)
Theorem null_meets_the_type_hooks ds fields :
  output_log (OScalar ds) TNull = events ds PRE_OUTPUT /\
  output_log (OObject ds fields) TNull = events ds PRE_OUTPUT /\
  output_coerce (OObject ds fields) TNull = TNull /\ output_coerce (OScalar ds) TNull = TNull.
Proof.
  assert (Hn : forall ds0 h, apply_tags ds0 h TNull = TNull).
  { intros ds0 h. unfold apply_tags. induction (filter (has_hook h) ds0) as [|d l IH]; [reflexivity|exact IH]. }
  repeat split; cbn [output_log output_coerce]; rewrite ?Hn; try reflexivity. now rewrite app_nil_r.
Qed.
