(* C02: error accounting against the specification.  With sibling fields coerced concurrently (every
   field of a selection set is executed, as in the specification), whenever the specification's
   algorithm yields (data, origins) -- origins = the response paths at which a field error
   ORIGINATED -- the implementation model reports exactly one error per origin, located at that
   path (list indices included), and nothing else: every failure is reported, no error points
   elsewhere. *)
From Coq Require Import ZArith List String Bool Lia Permutation.
From TV Require Import Py.Prelude Model.Schema Model.ImplInput Model.ImplExec Model.SpecExec
     Proofs.CollectRefine Proofs.ExecRefine Proofs.MixedFields.
Import ListNotations.
Open Scope string_scope.
Open Scope list_scope.

Section Origins.
Variable sch : schema.
Variable doc : document.
Variable vs : vars.
Variable U : usercode.
Variable cfg : config.
(* full = true: exact accounting (needs every sibling executed); full = false: inclusion only *)
Variable full : bool.
Hypothesis Hmode : full = true -> forall t k ns, field_conc cfg t k ns = true.

Definition opaths (o : list (list pkey)) : list (option (list pkey)) := map Some o.
(* where a travelling exception will be located: where it already is, or at the current position *)
Definition raised_at (p : list pkey) (l : list perr) : list (option (list pkey)) :=
  map (fun e => Some (match p_path e with Some q => q | None => p end)) l.
Definition reported (E : list gerr) : list (option (list pkey)) := map g_path E.

(* once located, an exception keeps its path wherever it travels *)
Definition all_located (l : list perr) : Prop := Forall (fun e => p_path e <> None) l.

(* the same paths occur (an origin may be reported by several errors, e.g. one per failing argument) *)
Definition sameset {X} (a b : list X) : Prop := forall x, In x a <-> In x b.
(* what is reported is an origin; with full accounting every origin is reported too *)
Definition rel {X} (a b : list X) : Prop := forall x, (In x a -> In x b) /\ (full = true -> In x b -> In x a).
Lemma sameset_rel {X} (a b : list X) : sameset a b -> rel a b.
Proof. intros H x. specialize (H x). tauto. Qed.

(* data AND accounting: from every state, the computation appends errors E and returns / raises
   such that the paths of E (plus those of the raised exceptions) are the specification's origins *)
Definition A (p : list pkey) (m : M pyval) (r : sres) : Prop :=
  forall s,
    match r with
    | SVal v o => exists E, s_errors (snd (m s)) = s_errors s ++ E /\ fst (m s) = OVal v /\ rel (reported E) (opaths o)
    | SFail o => exists E, s_errors (snd (m s)) = s_errors s ++ E /\
                   exists l, fst (m s) = OExc l /\ rel (reported E ++ raised_at p l) (opaths o)
    | SCrash => True
    end.

Definition Af (p : list pkey) (m : M (option pyval)) (r : option sres) : Prop :=
  forall s,
    match r with
    | None => s_errors (snd (m s)) = s_errors s /\ fst (m s) = OVal None
    | Some (SVal v o) => exists E, s_errors (snd (m s)) = s_errors s ++ E /\ fst (m s) = OVal (Some v) /\ rel (reported E) (opaths o)
    | Some (SFail o) => exists E, s_errors (snd (m s)) = s_errors s ++ E /\
                   exists l, fst (m s) = OExc l /\ all_located l /\ rel (reported E ++ raised_at p l) (opaths o)
    | Some SCrash => True
    end.

Lemma raised_at_located p q l : all_located l -> raised_at p l = raised_at q l.
Proof.
  intros H. induction H as [|e l He _ IH]; [reflexivity|]. cbn [raised_at map]. fold (raised_at p l) (raised_at q l).
  rewrite IH. destruct (p_path e); [reflexivity|contradiction].
Qed.
Lemma raised_at_app p a b : raised_at p (a ++ b) = raised_at p a ++ raised_at p b.
Proof. unfold raised_at. apply map_app. Qed.
Lemma reported_app a b : reported (a ++ b) = reported a ++ reported b.
Proof. unfold reported. apply map_app. Qed.
Lemma opaths_app a b : opaths (a ++ b) = opaths a ++ opaths b.
Proof. unfold opaths. apply map_app. Qed.

Lemma locate_paths nodes p l :
  raised_at p (map (locate nodes p) l) = raised_at p l /\ all_located (map (locate nodes p) l).
Proof.
  induction l as [|e l [IH1 IH2]]; [split; [reflexivity|constructor]|]. cbn [map raised_at]. split.
  - fold (raised_at p (map (locate nodes p) l)) (raised_at p l). rewrite IH1. f_equal. unfold locate. cbn. now destruct (p_path e).
  - constructor; [|exact IH2]. unfold locate. cbn. destruct (p_path e); discriminate.
Qed.

Lemma reported_finalize p l : all_located l -> reported (map finalize l) = raised_at p l.
Proof.
  intros H. induction H as [|e l He _ IH]; [reflexivity|]. cbn. fold (reported (map finalize l)) (raised_at p l).
  rewrite IH. destruct (p_path e); [reflexivity|contradiction].
Qed.

Ltac sset :=
  unfold rel in *; let x := fresh "x" in intros x;
  repeat match goal with H : forall y, (In y _ -> In y _) /\ _ |- _ => specialize (H x) end;
  rewrite ?reported_app, ?raised_at_app, ?opaths_app in *; rewrite ?in_app_iff in *; tauto.

(* ---------- sibling fields, all executed ---------- *)
Lemma conc_acct (rf : string -> list fnode -> M (option pyval)) sf (fp : string -> list pkey) :
  (forall k ns, Af (fp k) (rf k ns) (sf k ns)) -> forall fs s rkv ro,
  spec_fields sf fs = (rkv, ro, false) ->
  exists E, s_errors (snd (exec_fields_conc rf fs s)) = s_errors s ++ E /\
    match rkv with
    | Some kv => fst (exec_fields_conc rf fs s) = OVal kv /\ rel (reported E) (opaths ro)
    | None => exists l, fst (exec_fields_conc rf fs s) = OExc l /\ all_located l /\
                        rel (reported E ++ raised_at [] l) (opaths ro)
    end.
Proof.
  intros H. induction fs as [|[k nodes] rest IH]; intros s rkv ro; cbn [spec_fields exec_fields_conc].
  - intros E. inversion E. exists []. rewrite app_nil_r. split; [reflexivity|]. split; [reflexivity|]. intros y. tauto.
  - destruct (spec_fields sf rest) as [[rkv0 ro0] rc0] eqn:Er.
    pose proof (H k nodes s) as Hk.
    destruct (rf k nodes s) as [r s1] eqn:E1r. cbn [fst snd] in Hk.
    destruct (sf k nodes) as [[v o|o|]|]; intros Eq; inversion Eq; subst; clear Eq.
    + destruct Hk as (E1 & HE1 & -> & Hp1). destruct (IH s1 _ _ eq_refl) as (E2 & HE2 & Hr).
      destruct (exec_fields_conc rf rest s1) as [rs s2]. cbn [fst snd] in *.
      destruct rkv0 as [kv|].
      * destruct Hr as [-> Hp2]. cbn [fst snd]. exists (E1 ++ E2). split; [now rewrite HE2, HE1, app_assoc|].
        split; [reflexivity|sset].
      * destruct Hr as (l & -> & Hl & Hp2). cbn [fst snd]. exists (E1 ++ E2). split; [now rewrite HE2, HE1, app_assoc|].
        exists l. split; [reflexivity|]. split; [exact Hl|sset].
    + destruct Hk as (E1 & HE1 & l & -> & Hl & Hp1). destruct (IH s1 _ _ eq_refl) as (E2 & HE2 & Hr).
      destruct (exec_fields_conc rf rest s1) as [rs s2]. cbn [fst snd] in *.
      rewrite (raised_at_located (fp k) [] l Hl) in Hp1.
      destruct rkv0 as [kv|].
      * destruct Hr as [-> Hp2]. cbn [fst snd]. exists (E1 ++ E2). split; [now rewrite HE2, HE1, app_assoc|].
        exists l. split; [reflexivity|]. split; [exact Hl|sset].
      * destruct Hr as (l' & -> & Hl' & Hp2). cbn [fst snd]. exists (E1 ++ E2). split; [now rewrite HE2, HE1, app_assoc|].
        exists (l ++ l'). split; [reflexivity|].
        split; [apply Forall_app; split; assumption|sset].
    + destruct Hk as [HE1 ->]. destruct (IH s1 _ _ eq_refl) as (E2 & HE2 & Hr).
      destruct (exec_fields_conc rf rest s1) as [rs s2]. cbn [fst snd] in *.
      destruct rkv as [kv|].
      * destruct Hr as [-> Hp2]. cbn [fst snd]. exists E2. split; [now rewrite HE2, HE1|].
        split; [reflexivity|exact Hp2].
      * destruct Hr as (l' & -> & Hl' & Hp2). cbn [fst snd]. exists E2. split; [now rewrite HE2, HE1|].
        exists l'. split; [reflexivity|split; [exact Hl'|exact Hp2]].
Qed.

(* awaited one by one: the first exception stops the chain; what was reported so far is an origin *)
Lemma seq_acct (rf : string -> list fnode -> M (option pyval)) sf (fp : string -> list pkey) :
  full = false ->
  (forall k ns, Af (fp k) (rf k ns) (sf k ns)) -> forall fs s rkv ro,
  spec_fields sf fs = (rkv, ro, false) ->
  exists E, s_errors (snd (exec_fields_seq rf fs s)) = s_errors s ++ E /\
    match rkv with
    | Some kv => fst (exec_fields_seq rf fs s) = OVal kv /\ rel (reported E) (opaths ro)
    | None => exists l, fst (exec_fields_seq rf fs s) = OExc l /\ all_located l /\
                        rel (reported E ++ raised_at [] l) (opaths ro)
    end.
Proof.
  intros Hfull H. induction fs as [|[k nodes] rest IH]; intros s rkv ro; cbn [spec_fields exec_fields_seq].
  - intros E. inversion E. exists []. rewrite app_nil_r. split; [reflexivity|]. split; [reflexivity|]. intros y. tauto.
  - destruct (spec_fields sf rest) as [[rkv0 ro0] rc0] eqn:Er.
    pose proof (H k nodes s) as Hk.
    destruct (rf k nodes s) as [r s1] eqn:E1r. cbn [fst snd] in Hk.
    destruct (sf k nodes) as [[v o|o|]|]; intros Eq; inversion Eq; subst; clear Eq.
    + destruct Hk as (E1 & HE1 & -> & Hp1). destruct (IH s1 _ _ eq_refl) as (E2 & HE2 & Hr).
      destruct (exec_fields_seq rf rest s1) as [rs s2]. cbn [fst snd] in *.
      destruct rkv0 as [kv|].
      * destruct Hr as [-> Hp2]. cbn [fst snd]. exists (E1 ++ E2). split; [now rewrite HE2, HE1, app_assoc|].
        split; [reflexivity|sset].
      * destruct Hr as (l & -> & Hl & Hp2). cbn [fst snd]. exists (E1 ++ E2). split; [now rewrite HE2, HE1, app_assoc|].
        exists l. split; [reflexivity|]. split; [exact Hl|sset].
    + destruct Hk as (E1 & HE1 & l & -> & Hl & Hp1). cbn [fst snd].
      rewrite (raised_at_located (fp k) [] l Hl) in Hp1.
      exists E1. split; [exact HE1|]. exists l. split; [reflexivity|]. split; [exact Hl|].
      unfold rel in *. intros x. specialize (Hp1 x). rewrite Hfull. rewrite opaths_app, !in_app_iff in *.
      split; [tauto|intros Hc; discriminate Hc].
    + destruct Hk as [HE1 ->]. destruct (IH s1 _ _ eq_refl) as (E2 & HE2 & Hr).
      destruct (exec_fields_seq rf rest s1) as [rs s2]. cbn [fst snd] in *.
      destruct rkv as [kv|].
      * destruct Hr as [-> Hp2]. cbn [fst snd]. exists E2. split; [now rewrite HE2, HE1|].
        split; [reflexivity|exact Hp2].
      * destruct Hr as (l' & -> & Hl' & Hp2). cbn [fst snd]. exists E2. split; [now rewrite HE2, HE1|].
        exists l'. split; [reflexivity|split; [exact Hl'|exact Hp2]].
Qed.

(* per-field settings, inclusion only: what is reported (or travels) is an origin *)
Ltac isub Hfull :=
  unfold rel in *; let x := fresh "x" in intros x;
  repeat match goal with H : forall y, (In y _ -> In y _) /\ _ |- _ => specialize (H x) end;
  rewrite ?Hfull in *; rewrite ?reported_app, ?raised_at_app, ?opaths_app in *; rewrite ?in_app_iff in *;
  split; [tauto|intros Hc; discriminate Hc].

Lemma mixed_pass1_acct isc (rf : string -> list fnode -> M (option pyval)) sf (fp : string -> list pkey) :
  full = false ->
  (forall k ns, Af (fp k) (rf k ns) (sf k ns)) -> forall fs s rkv ro,
  spec_fields sf fs = (rkv, ro, false) ->
  exists E, s_errors (snd (mixed_pass1 isc rf fs s)) = s_errors s ++ E /\
    match fst (mixed_pass1 isc rf fs s) with
    | OVal slots => Forall2 (slot_ok isc sf) fs slots /\ rel (reported E) (opaths ro)
    | OExc l => rkv = None /\ all_located l /\ rel (reported E ++ raised_at [] l) (opaths ro)
    | OCrash _ => False
    end.
Proof.
  intros Hfull H. induction fs as [|[k nodes] rest IH]; intros s rkv ro; cbn [spec_fields mixed_pass1].
  - intros E. inversion E. exists []. rewrite app_nil_r. split; [reflexivity|]. split; [constructor|]. intros y. tauto.
  - destruct (spec_fields sf rest) as [[rkv0 ro0] rc0] eqn:Er.
    destruct (isc k nodes) eqn:Ec.
    + assert (Hrc : forall x y, (match sf k nodes with
                                 | None => (rkv0, ro0, rc0)
                                 | Some SCrash => (None, ro0, true)
                                 | Some (SFail o) => (None, o ++ ro0, rc0)
                                 | Some (SVal v o) => (match rkv0 with Some kv => Some ((k, v) :: kv) | None => None end, o ++ ro0, rc0)
                                 end) = (x, y, false) -> rc0 = false /\ (rkv0 = None -> x = None) /\ (forall z, In z ro0 -> In z y)).
      { intros x y. destruct (sf k nodes) as [[v o|o|]|]; intros E; inversion E; subst; repeat split; auto;
          try (intros ->; reflexivity); intros z Hz; apply in_or_app; now right. }
      intros E. destruct (Hrc _ _ E) as (-> & Hn & Hsub).
      destruct (IH s _ _ eq_refl) as (E1 & HE1 & Hr).
      destruct (mixed_pass1 isc rf rest s) as [[slots|l|e] s1]; cbn [fst snd] in *.
      * exists E1. split; [exact HE1|]. destruct Hr as [HF Hp]. split; [constructor; [exact Ec|exact HF]|].
        unfold rel in *. intros x. specialize (Hp x). rewrite Hfull in *. split; [|intros Hc; discriminate Hc].
        intros Hx. unfold opaths. apply in_map_iff. destruct Hp as [Hp _]. specialize (Hp Hx). unfold opaths in Hp.
        apply in_map_iff in Hp. destruct Hp as (z & <- & Hz). exists z. split; [reflexivity|now apply Hsub].
      * exists E1. split; [exact HE1|]. destruct Hr as (Hn0 & Hl & Hp). split; [now apply Hn|]. split; [exact Hl|].
        unfold rel in *. intros x. specialize (Hp x). rewrite Hfull in *. split; [|intros Hc; discriminate Hc].
        intros Hx. unfold opaths. apply in_map_iff. destruct Hp as [Hp _]. specialize (Hp Hx). unfold opaths in Hp.
        apply in_map_iff in Hp. destruct Hp as (z & <- & Hz). exists z. split; [reflexivity|now apply Hsub].
      * contradiction.
    + pose proof (H k nodes s) as Hk.
      destruct (rf k nodes s) as [r s1] eqn:E1r. cbn [fst snd] in Hk.
      destruct (sf k nodes) as [[v o|o|]|] eqn:Esf; intros Eq; inversion Eq; subst; clear Eq.
      * destruct Hk as (E1 & HE1 & -> & Hp1). destruct (IH s1 _ _ eq_refl) as (E2 & HE2 & Hr).
        destruct (mixed_pass1 isc rf rest s1) as [[slots|l|e] s2]; cbn [fst snd] in *.
        -- exists (E1 ++ E2). split; [now rewrite HE2, HE1, app_assoc|]. destruct Hr as [HF Hp2].
           split; [constructor; [|exact HF]; split; [exact Ec|]; cbn [fst snd]; now rewrite Esf|]. isub Hfull.
        -- exists (E1 ++ E2). split; [now rewrite HE2, HE1, app_assoc|]. destruct Hr as (Hn0 & Hl & Hp2).
           split; [now rewrite Hn0|]. split; [exact Hl|]. isub Hfull.
        -- contradiction.
      * destruct Hk as (E1 & HE1 & l & -> & Hl & Hp1). cbn [fst snd].
        rewrite (raised_at_located (fp k) [] l Hl) in Hp1.
        exists E1. split; [exact HE1|]. split; [reflexivity|]. split; [exact Hl|]. isub Hfull.
      * destruct Hk as [HE1 ->]. destruct (IH s1 _ _ eq_refl) as (E2 & HE2 & Hr).
        destruct (mixed_pass1 isc rf rest s1) as [[slots|l|e] s2]; cbn [fst snd] in *.
        -- exists E2. split; [now rewrite HE2, HE1|]. destruct Hr as [HF Hp2].
           split; [constructor; [|exact HF]; split; [exact Ec|]; cbn [fst snd]; now rewrite Esf|exact Hp2].
        -- exists E2. split; [now rewrite HE2, HE1|]. exact Hr.
        -- contradiction.
Qed.

Lemma mixed_pass2_acct isc (rf : string -> list fnode -> M (option pyval)) sf (fp : string -> list pkey) :
  full = false ->
  (forall k ns, Af (fp k) (rf k ns) (sf k ns)) -> forall fs slots, Forall2 (slot_ok isc sf) fs slots -> forall s rkv ro,
  spec_fields sf fs = (rkv, ro, false) ->
  exists E, s_errors (snd (mixed_pass2 rf fs slots s)) = s_errors s ++ E /\
    match rkv with
    | Some kv => fst (mixed_pass2 rf fs slots s) = OVal kv /\ rel (reported E) (opaths ro)
    | None => exists l, fst (mixed_pass2 rf fs slots s) = OExc l /\ all_located l /\
                        rel (reported E ++ raised_at [] l) (opaths ro)
    end.
Proof.
  intros Hfull H fs slots HF. induction HF as [|[k nodes] slot rest srest Hs HF IH]; intros s rkv ro; cbn [spec_fields mixed_pass2].
  - intros E. inversion E. exists []. rewrite app_nil_r. split; [reflexivity|]. split; [reflexivity|]. intros y. tauto.
  - destruct (spec_fields sf rest) as [[rkv0 ro0] rc0] eqn:Er.
    destruct slot as [o|].
    + destruct Hs as [_ Hs]. cbn [fst snd] in Hs.
      destruct (sf k nodes) as [[v ov|ov|]|]; try contradiction; intros Eq; inversion Eq; subst; clear Eq.
      * destruct (IH s _ _ eq_refl) as (E2 & HE2 & Hr). destruct (mixed_pass2 rf rest srest s) as [rs s2]. cbn [fst snd] in *.
        destruct rkv0 as [kv|].
        -- destruct Hr as [-> Hp2]. cbn [fst snd]. exists E2. split; [exact HE2|]. split; [reflexivity|]. isub Hfull.
        -- destruct Hr as (l & -> & Hl & Hp2). cbn [fst snd]. exists E2. split; [exact HE2|].
           exists l. split; [reflexivity|]. split; [exact Hl|]. isub Hfull.
      * destruct (IH s _ _ eq_refl) as (E2 & HE2 & Hr). destruct (mixed_pass2 rf rest srest s) as [rs s2]. cbn [fst snd] in *.
        destruct rkv as [kv|].
        -- destruct Hr as [-> Hp2]. cbn [fst snd]. exists E2. split; [exact HE2|]. split; [reflexivity|exact Hp2].
        -- destruct Hr as (l & -> & Hl & Hp2). cbn [fst snd]. exists E2. split; [exact HE2|].
           exists l. split; [reflexivity|]. split; [exact Hl|exact Hp2].
    + pose proof (H k nodes s) as Hk.
      destruct (rf k nodes s) as [r s1] eqn:E1r. cbn [fst snd] in Hk.
      destruct (sf k nodes) as [[v o|o|]|]; intros Eq; inversion Eq; subst; clear Eq.
      * destruct Hk as (E1 & HE1 & -> & Hp1). destruct (IH s1 _ _ eq_refl) as (E2 & HE2 & Hr).
        destruct (mixed_pass2 rf rest srest s1) as [rs s2]. cbn [fst snd] in *.
        destruct rkv0 as [kv|].
        -- destruct Hr as [-> Hp2]. cbn [fst snd]. exists (E1 ++ E2). split; [now rewrite HE2, HE1, app_assoc|].
           split; [reflexivity|isub Hfull].
        -- destruct Hr as (l & -> & Hl & Hp2). cbn [fst snd]. exists (E1 ++ E2). split; [now rewrite HE2, HE1, app_assoc|].
           exists l. split; [reflexivity|]. split; [exact Hl|isub Hfull].
      * destruct Hk as (E1 & HE1 & l & -> & Hl & Hp1). destruct (IH s1 _ _ eq_refl) as (E2 & HE2 & Hr).
        destruct (mixed_pass2 rf rest srest s1) as [rs s2]. cbn [fst snd] in *.
        rewrite (raised_at_located (fp k) [] l Hl) in Hp1.
        destruct rkv0 as [kv|].
        -- destruct Hr as [-> Hp2]. cbn [fst snd]. exists (E1 ++ E2). split; [now rewrite HE2, HE1, app_assoc|].
           exists l. split; [reflexivity|]. split; [exact Hl|isub Hfull].
        -- destruct Hr as (l' & -> & Hl' & Hp2). cbn [fst snd]. exists (E1 ++ E2). split; [now rewrite HE2, HE1, app_assoc|].
           exists (l ++ l'). split; [reflexivity|].
           split; [apply Forall_app; split; assumption|isub Hfull].
      * destruct Hk as [HE1 ->]. destruct (IH s1 _ _ eq_refl) as (E2 & HE2 & Hr).
        destruct (mixed_pass2 rf rest srest s1) as [rs s2]. cbn [fst snd] in *.
        destruct rkv as [kv|].
        -- destruct Hr as [-> Hp2]. cbn [fst snd]. exists E2. split; [now rewrite HE2, HE1|].
           split; [reflexivity|exact Hp2].
        -- destruct Hr as (l' & -> & Hl' & Hp2). cbn [fst snd]. exists E2. split; [now rewrite HE2, HE1|].
           exists l'. split; [reflexivity|split; [exact Hl'|exact Hp2]].
Qed.

Lemma mixed_acct isc (rf : string -> list fnode -> M (option pyval)) sf (fp : string -> list pkey) :
  full = false ->
  (forall k ns, Af (fp k) (rf k ns) (sf k ns)) -> forall fs s rkv ro,
  spec_fields sf fs = (rkv, ro, false) ->
  exists E, s_errors (snd (exec_fields_mixed isc rf fs s)) = s_errors s ++ E /\
    match rkv with
    | Some kv => fst (exec_fields_mixed isc rf fs s) = OVal kv /\ rel (reported E) (opaths ro)
    | None => exists l, fst (exec_fields_mixed isc rf fs s) = OExc l /\ all_located l /\
                        rel (reported E ++ raised_at [] l) (opaths ro)
    end.
Proof.
  intros Hfull H fs s rkv ro Es. unfold exec_fields_mixed.
  destruct (mixed_pass1_acct isc rf sf fp Hfull H fs s _ _ Es) as (E1 & HE1 & H1).
  destruct (mixed_pass1 isc rf fs s) as [[slots|l|e] s1]; cbn [fst snd] in *.
  - destruct H1 as [HF Hp1].
    destruct (mixed_pass2_acct isc rf sf fp Hfull H fs slots HF s1 _ _ Es) as (E2 & HE2 & H2).
    destruct (mixed_pass2 rf fs slots s1) as [r2 s2]. cbn [fst snd] in *.
    exists (E1 ++ E2). split; [now rewrite HE2, HE1, app_assoc|].
    destruct rkv as [kv|].
    + destruct H2 as [-> Hp2]. split; [reflexivity|]. isub Hfull.
    + destruct H2 as (l & -> & Hl & Hp2). exists l. split; [reflexivity|]. split; [exact Hl|]. isub Hfull.
  - destruct H1 as (-> & Hl & Hp). exists E1. split; [exact HE1|]. exists l. split; [reflexivity|]. split; [exact Hl|exact Hp].
  - contradiction.
Qed.

Definition rf_acct (rf : rfun) (sf : sfun) : Prop :=
  forall otype value opath k ns, Af (opath ++ [KName k]) (rf otype value opath k ns) (sf otype value opath k ns).

Lemma exec_sub_acct rf sf nodes otype value opath :
  rf_acct rf sf -> A opath (exec_sub sch doc vs cfg rf nodes otype value opath) (spec_object sch doc vs sf nodes otype value opath).
Proof.
  intros H s. unfold spec_object, exec_sub. rewrite collect_subfields_is_spec.
  destruct (spec_collect_fields sch doc vs COLLECT_FUEL otype (flat_map (fun n => fn_sels n) nodes)) as [sub|];
    [|exact I].
  destruct (spec_fields (fun k ns => sf otype value opath k ns) sub) as [[rkv ro] rc] eqn:Es.
  destruct rc; [destruct rkv; exact I|].
  set (run := exec_fields_mixed _ _ sub s).
  assert (Hx : exists E, s_errors (snd run) = s_errors s ++ E /\
    match rkv with
    | Some kv => fst run = OVal kv /\ rel (reported E) (opaths ro)
    | None => exists l, fst run = OExc l /\ all_located l /\ rel (reported E ++ raised_at [] l) (opaths ro)
    end).
  { unfold run. destruct (Bool.bool_dec full true) as [Ef|Ef].
    - rewrite (mixed_all_conc _ _ sub s (Hmode Ef otype)).
      exact (conc_acct (fun k ns => rf otype value opath k ns) _ (fun k => opath ++ [KName k])
              (fun k ns => H otype value opath k ns) sub s _ _ Es).
    - apply Bool.not_true_is_false in Ef.
      exact (mixed_acct _ (fun k ns => rf otype value opath k ns) _ (fun k => opath ++ [KName k]) Ef
              (fun k ns => H otype value opath k ns) sub s _ _ Es). }
  destruct Hx as (E & HE & Hr). clearbody run.
  destruct run as [r s1]. cbn [fst snd] in *.
  destruct rkv as [kv|].
  - destruct Hr as [-> Hp]. cbn [fst snd]. exists E. split; [exact HE|]. split; [reflexivity|exact Hp].
  - destruct Hr as (l & -> & Hl & Hp). cbn [fst snd]. exists E. split; [exact HE|].
    exists l. split; [reflexivity|]. now rewrite (raised_at_located opath [] l Hl).
Qed.

(* a handled position (field, list item): what is raised from it is located *)
Definition AL (p : list pkey) (m : M pyval) (r : sres) : Prop :=
  forall s,
    match r with
    | SVal v o => exists E, s_errors (snd (m s)) = s_errors s ++ E /\ fst (m s) = OVal v /\ rel (reported E) (opaths o)
    | SFail o => exists E, s_errors (snd (m s)) = s_errors s ++ E /\
                   exists l, fst (m s) = OExc l /\ all_located l /\ rel (reported E ++ raised_at p l) (opaths o)
    | SCrash => True
    end.

Lemma complete_items_acct (ci : pyval -> list pkey -> M pyval) sci path :
  (forall x p, AL p (ci x p) (sci x p)) -> forall items i s rl ro,
  spec_items sci path i items = (rl, ro, false) ->
  exists E, s_errors (snd (complete_items ci path i items s)) = s_errors s ++ E /\
    match rl with
    | Some l => fst (complete_items ci path i items s) = OVal l /\ rel (reported E) (opaths ro)
    | None => exists l, fst (complete_items ci path i items s) = OExc l /\ all_located l /\
                        rel (reported E ++ raised_at [] l) (opaths ro)
    end.
Proof.
  intros H. induction items as [|x xs IH]; intros i s rl ro; cbn [spec_items complete_items].
  - intros E. inversion E. exists []. rewrite app_nil_r. split; [reflexivity|]. split; [reflexivity|]. intros y. tauto.
  - destruct (spec_items sci path (i + 1)%Z xs) as [[rl0 ro0] rc0] eqn:Er.
    pose proof (H x (path ++ [KIdx i]) s) as Hx.
    destruct (ci x (path ++ [KIdx i]) s) as [r s1] eqn:E1r. cbn [fst snd] in Hx.
    destruct (sci x (path ++ [KIdx i])) as [v o|o|]; intros Eq; inversion Eq; subst; clear Eq.
    + destruct Hx as (E1 & HE1 & -> & Hp1). destruct (IH _ s1 _ _ Er) as (E2 & HE2 & Hr).
      destruct (complete_items ci path (i + 1)%Z xs s1) as [rs s2]. cbn [fst snd] in *.
      destruct rl0 as [l0|].
      * destruct Hr as [-> Hp2]. cbn [fst snd]. exists (E1 ++ E2). split; [now rewrite HE2, HE1, app_assoc|].
        split; [reflexivity|sset].
      * destruct Hr as (l & -> & Hl & Hp2). cbn [fst snd]. exists (E1 ++ E2). split; [now rewrite HE2, HE1, app_assoc|].
        exists l. split; [reflexivity|]. split; [exact Hl|sset].
    + destruct Hx as (E1 & HE1 & l & -> & Hl & Hp1). destruct (IH _ s1 _ _ Er) as (E2 & HE2 & Hr).
      destruct (complete_items ci path (i + 1)%Z xs s1) as [rs s2]. cbn [fst snd] in *.
      rewrite (raised_at_located (path ++ [KIdx i]) [] l Hl) in Hp1.
      destruct rl0 as [l0|].
      * destruct Hr as [-> Hp2]. cbn [fst snd]. exists (E1 ++ E2). split; [now rewrite HE2, HE1, app_assoc|].
        exists l. split; [reflexivity|]. split; [exact Hl|sset].
      * destruct Hr as (l' & -> & Hl' & Hp2). cbn [fst snd]. exists (E1 ++ E2). split; [now rewrite HE2, HE1, app_assoc|].
        exists (l ++ l'). split; [reflexivity|].
        split; [apply Forall_app; split; assumption|sset].
Qed.

(* handle_field_error: absorbed errors are recorded at the paths they will be reported with *)
Lemma handle_field_error_acct l nodes p t s :
  s_errors (snd (handle_field_error l nodes p t s)) =
    s_errors s ++ (if is_non_null t then [] else map finalize (map (locate (locs_of nodes) p) l)) /\
  fst (handle_field_error l nodes p t s) =
    (if is_non_null t then OExc (map (locate (locs_of nodes) p) l) else OVal PNone).
Proof. unfold handle_field_error. destruct (is_non_null t); cbn; [now rewrite app_nil_r|split; reflexivity]. Qed.

(* catching at a handled position: A (anything may be raised) becomes AL (absorbed or located) *)
Lemma handled_acct nodes p t (m : M pyval) r :
  A p m r ->
  AL p (fun s0 => match m s0 with
                  | (OExc l, s1) => handle_field_error l nodes p t s1
                  | x => x
                  end) (absorb t r).
Proof.
  intros H s. pose proof (H s) as Hr. destruct (m s) as [x s1]. cbn [fst snd] in *.
  destruct r as [v o|o|]; cbn [absorb].
  - destruct Hr as (E & HE & -> & Hp). exists E. split; [exact HE|]. split; [reflexivity|exact Hp].
  - destruct Hr as (E & HE & l & -> & Hp).
    destruct (handle_field_error_acct l nodes p t s1) as [Hs Hf]. 
    destruct (locate_paths (locs_of nodes) p l) as [Hlp Hll].
    destruct (is_non_null t).
    + exists E. rewrite Hf. split; [rewrite Hs, app_nil_r; exact HE|].
      exists (map (locate (locs_of nodes) p) l). split; [reflexivity|]. split; [exact Hll|]. now rewrite Hlp.
    + exists (E ++ map finalize (map (locate (locs_of nodes) p) l)). rewrite Hf. split; [now rewrite Hs, HE, app_assoc|].
      split; [reflexivity|]. rewrite reported_app, (reported_finalize p _ Hll), Hlp. exact Hp.
  - exact I.
Qed.

Lemma is_exc_value_unlocated v e : is_exc_value v = Some e -> p_path e = None.
Proof. unfold is_exc_value. destruct v; try discriminate. destruct e0; intros H; inversion H; reflexivity. Qed.

Ltac aval := exists []; rewrite app_nil_r; split; [reflexivity|]; split; [reflexivity|]; intros ?; tauto.
Ltac afail := exists []; rewrite app_nil_r; split; [reflexivity|]; eexists; split; [reflexivity|]; cbn; intros ?; tauto.
Ltac triv := first [exact I | aval | afail].

Section Chain.
Variable rf : rfun.
Variable sf : sfun.
Hypothesis Hrf : rf_acct rf sf.
Variable ptype : string.
Variable fd : field_def.
Variable nodes : list fnode.
Variable fpath : list pkey.

Lemma leaf_acct n v lp :
  A lp (leaf_coercer sch doc vs U cfg rf ptype fd nodes fpath n v lp)
       (spec_complete sch doc vs U sf ptype fd nodes fpath (TNamed n) v lp).
Proof.
  intros s. cbn [spec_complete]. unfold leaf_coercer, fail_here.
  destruct (find_type sch n) as [[|values|ifs|ifaces fs|fs|ms]|] eqn:Et.
  - (* scalar *)
    destruct v; try triv;
      (destruct (scalars sch n) as [ops|]; [|triv]);
      match goal with |- context [s_output ops ?x] => destruct (s_output ops x) as [r|ex] end;
      try (destruct (is_undef r); triv);
      destruct ex; triv.
  - (* enum *)
    destruct v; try triv.
    destruct (mem_str s0 values); triv.
  - destruct v; triv.
  - (* object *)
    destruct v; try triv; apply (exec_sub_acct rf sf nodes n _ lp Hrf s).
  - (* interface *)
    destruct v; try triv;
      unfold spec_runtime_type;
      (destruct (type_resolver_kind U n ptype (fd_name fd));
       [|match goal with |- context [type_resolver U fpath n ?x] => destruct (type_resolver U fpath n x) as [t|msg g ext] end;
         [|triv]]);
      match goal with |- context [resolve_runtime_type sch n ?t nodes] =>
        unfold resolve_runtime_type; destruct t; try triv end;
      match goal with |- context [find_type sch ?x] => destruct (find_type sch x) as [[| | |ifs' fs'| |]|]; try triv end;
      match goal with |- context [mem_str ?x (possible_types sch n)] => destruct (mem_str x (possible_types sch n)); [|triv] end;
      match goal with |- context [exec_sub _ _ _ _ _ _ ?rt ?x lp ?s1] => exact (exec_sub_acct rf sf nodes rt x lp Hrf s1) end.
  - (* union *)
    destruct v; try triv;
      unfold spec_runtime_type;
      (destruct (type_resolver_kind U n ptype (fd_name fd));
       [|match goal with |- context [type_resolver U fpath n ?x] => destruct (type_resolver U fpath n x) as [t|msg g ext] end;
         [|triv]]);
      match goal with |- context [resolve_runtime_type sch n ?t nodes] =>
        unfold resolve_runtime_type; destruct t; try triv end;
      match goal with |- context [find_type sch ?x] => destruct (find_type sch x) as [[| | |ifs' fs'| |]|]; try triv end;
      match goal with |- context [mem_str ?x (possible_types sch n)] => destruct (mem_str x (possible_types sch n)); [|triv] end;
      match goal with |- context [exec_sub _ _ _ _ _ _ ?rt ?x lp ?s1] => exact (exec_sub_acct rf sf nodes rt x lp Hrf s1) end.
  - destruct v; triv.
Qed.
End Chain.

Section Chain2.
Variable rf : rfun.
Variable sf : sfun.
Hypothesis Hrf : rf_acct rf sf.
Variable ptype : string.
Variable fd : field_def.
Variable nodes : list fnode.
Variable fpath : list pkey.

(* a returned exception object: raised at the position it was returned for *)
Lemma exc_value_acct x e ip :
  is_exc_value x = Some e -> A ip (fun s0 => (OExc [e], s0)) (fail_here ip).
Proof.
  intros He s. unfold fail_here. exists []. rewrite app_nil_r. split; [reflexivity|]. exists [e]. split; [reflexivity|].
  cbn. rewrite (is_exc_value_unlocated _ _ He). intros ?; tauto.
Qed.

Lemma coerce_output_acct t : forall v p,
  A p (coerce_output nodes (leaf_coercer sch doc vs U cfg rf ptype fd nodes fpath) t v p)
      (spec_complete sch doc vs U sf ptype fd nodes fpath t v p).
Proof.
  induction t as [n|t IH|t IH]; intros v p.
  - apply leaf_acct. exact Hrf.
  - (* list *)
    intros s. cbn [coerce_output spec_complete]. unfold fail_here. destruct v; try triv.
    match goal with |- context [spec_items ?sci p 0%Z l] => destruct (spec_items sci p 0%Z l) as [[rl ro] rc] eqn:Es end.
    destruct rc; [destruct rl; exact I|].
    match goal with |- context [complete_items ?ci p 0%Z l s] =>
      match type of Es with spec_items ?sci _ _ _ = _ => pose proof (complete_items_acct ci sci p) as Hi end end.
    match type of Hi with (?P -> _) => assert (Hitem : P) end.
    { intros x ip.
      apply (handled_acct nodes ip t
               (fun s0 => match is_exc_value x with Some e => (OExc [e], s0) | None => coerce_output nodes _ t x ip s0 end)).
      destruct (is_exc_value x) as [e|] eqn:Ex.
      - apply (exc_value_acct x e ip Ex).
      - apply IH. }
    destruct (Hi Hitem l 0%Z s _ _ Es) as (E & HE & Hr).
    match goal with |- context [complete_items ?ci p 0%Z l s] => destruct (complete_items ci p 0%Z l s) as [r s1] end.
    cbn [fst snd] in *. destruct rl as [l0|].
    + destruct Hr as [-> Hp]. exists E. split; [exact HE|]. split; [reflexivity|exact Hp].
    + destruct Hr as (l' & -> & Hl & Hp). exists E. split; [exact HE|]. exists l'. split; [reflexivity|].
      now rewrite (raised_at_located p [] l' Hl).
  - (* non-null *)
    intros s. cbn [coerce_output spec_complete]. pose proof (IH v p s) as Hx.
    destruct (coerce_output nodes _ t v p s) as [r s1]. cbn [fst snd] in Hx.
    destruct (spec_complete sch doc vs U sf ptype fd nodes fpath t v p) as [v' o|o|]; [| |exact I].
    + destruct Hx as (E & HE & -> & Hp).
      destruct v'; try (exists E; split; [exact HE|]; split; [reflexivity|exact Hp]).
      exists E. split; [exact HE|]. eexists. split; [reflexivity|]. cbn.
      intros y. specialize (Hp y). rewrite opaths_app, !in_app_iff. cbn. tauto.
    + destruct Hx as (E & HE & l' & -> & Hp). exists E. split; [exact HE|]. exists l'. split; [reflexivity|exact Hp].
Qed.
End Chain2.

(* ---------- ExecuteField ---------- *)
Definition unlocated (l : list perr) : Prop := Forall (fun e => p_path e = None) l.

Lemma raised_at_unlocated p l : unlocated l -> l <> [] -> sameset (raised_at p l) (opaths [p]).
Proof.
  intros H Hne y. cbn. split.
  - intros Hin. apply in_map_iff in Hin. destruct Hin as (e & <- & He).
    unfold unlocated in H. rewrite Forall_forall in H. rewrite (H e He). now left.
  - intros [<-|[]]. destruct l as [|e l]; [contradiction|]. left. inversion H as [|? ? He _]; subst. now rewrite He.
Qed.

Lemma unlocated_map {X} (f : X -> perr) l : (forall x, p_path (f x) = None) -> unlocated (map f l).
Proof. intros H. induction l; constructor; [apply H|assumption]. Qed.

Section Field.
Variable rf : rfun.
Variable sf : sfun.
Hypothesis Hrf : rf_acct rf sf.
Variable ptype : string.
Variable fd : field_def.
Variable nodes : list fnode.
Variable path : list pkey.

Definition completed_of (raw : outcome pyval) : M pyval :=
  fun s1 =>
    match raw with
    | OExc l => (OExc l, s1)
    | OCrash e => (OCrash e, s1)
    | OVal v =>
        match is_exc_value v with
        | Some e => (OExc [e], s1)
        | None => coerce_output nodes (leaf_coercer sch doc vs U cfg rf ptype fd nodes path) (fd_type fd) v path s1
        end
    end.

Lemma complete_field_unfold raw s1 :
  complete_field sch doc vs U cfg rf ptype fd nodes path raw s1 =
  match completed_of raw s1 with
  | (OExc l, s2) =>
      match handle_field_error l nodes path (fd_type fd) s2 with
      | (OVal v, s3) => (OVal (Some v), s3)
      | (OExc l', s3) => (OExc l', s3)
      | (OCrash e, s3) => (OCrash e, s3)
      end
  | (OVal v, s2) => (OVal (Some v), s2)
  | (OCrash e, s2) => (OCrash e, s2)
  end.
Proof. reflexivity. Qed.

Lemma complete_field_acct raw r :
  A path (completed_of raw) r ->
  Af path (complete_field sch doc vs U cfg rf ptype fd nodes path raw) (Some (absorb (fd_type fd) r)).
Proof.
  intros H s. rewrite complete_field_unfold. pose proof (H s) as Hr.
  destruct (completed_of raw s) as [x s1]. cbn [fst snd] in Hr.
  destruct r as [v o|o|]; cbn [absorb].
  - destruct Hr as (E & HE & -> & Hp). exists E. split; [exact HE|]. split; [reflexivity|exact Hp].
  - destruct Hr as (E & HE & l & -> & Hp).
    destruct (handle_field_error_acct l nodes path (fd_type fd) s1) as [Hs Hf].
    destruct (handle_field_error l nodes path (fd_type fd) s1) as [y s2]. cbn [fst snd] in Hs, Hf. subst y.
    destruct (locate_paths (locs_of nodes) path l) as [Hlp Hll].
    destruct (is_non_null (fd_type fd)).
    + exists E. split; [cbn [snd]; rewrite Hs, app_nil_r; exact HE|].
      exists (map (locate (locs_of nodes) path) l). split; [reflexivity|]. split; [exact Hll|]. now rewrite Hlp.
    + exists (E ++ map finalize (map (locate (locs_of nodes) path) l)). split; [cbn [snd]; now rewrite Hs, HE, app_assoc|].
      split; [reflexivity|]. rewrite reported_app, (reported_finalize path _ Hll), Hlp. exact Hp.
  - exact I.
Qed.

Lemma completed_value_acct v :
  A path (completed_of (OVal v))
    (match is_exc_value v with
     | Some _ => fail_here path
     | None => spec_complete sch doc vs U sf ptype fd nodes path (fd_type fd) v path
     end).
Proof.
  unfold completed_of. destruct (is_exc_value v) as [e|] eqn:Ex.
  - apply (exc_value_acct v e path Ex).
  - apply coerce_output_acct. exact Hrf.
Qed.

Lemma completed_fail_acct l :
  unlocated l -> l <> [] -> A path (completed_of (OExc l)) (fail_here path).
Proof.
  intros Hu Hne s. unfold fail_here, completed_of. exists []. rewrite app_nil_r. split; [reflexivity|].
  exists l. split; [reflexivity|]. cbn [reported map app]. apply sameset_rel. now apply raised_at_unlocated.
Qed.
End Field.

Lemma resolve_field_body_acct rf sf :
  rf_acct rf sf -> rf_acct (resolve_field_body sch doc vs U cfg rf) (spec_field_body sch doc vs U sf).
Proof.
  intros Hrf ptype source ppath key nodes s. unfold resolve_field_body, spec_field_body.
  destruct nodes as [|node rest]; [exact I|].
  destruct (get_field_definition sch ptype (fn_name node)) as [fd|]; [|split; reflexivity].
  unfold resolve_value.
  set (path := ppath ++ [KName key]).
  pose proof (fun v => complete_field_acct rf ptype fd (node :: rest) path (OVal v) _
                         (completed_value_acct rf sf Hrf ptype fd (node :: rest) path v)) as Hcomplete.
  pose proof (fun l Hu Hne => complete_field_acct rf ptype fd (node :: rest) path (OExc l) _
                         (completed_fail_acct rf ptype fd (node :: rest) path l Hu Hne)) as Hfail.
  destruct (String.eqb (fn_name node) "__typename").
  - exact (Hcomplete _ s).
  - destruct (coerce_arguments sch 20 (fd_args fd) (fn_loc node) (fn_args node) vs) as [[args aerrs]|e]; [|exact I].
    destruct aerrs as [|ae aes].
    + destruct (has_resolver U ptype (fd_name fd)); [|exact (Hcomplete _ s)].
      destruct (resolver U path ptype (fd_name fd) source args) as [v|msg g ext].
      * exact (Hcomplete v (add_call (CResolver path ptype (fd_name fd) source args) s)).
      * refine (Hfail [user_raise msg ext] _ _ (add_call (CResolver path ptype (fd_name fd) source args) s)).
        -- constructor; [reflexivity|constructor].
        -- discriminate.
    + refine (Hfail _ _ _ s).
      * apply unlocated_map. reflexivity.
      * discriminate.
Qed.

Theorem resolve_field_acct fuel : rf_acct (resolve_field sch doc vs U cfg fuel) (spec_field sch doc vs U fuel).
Proof.
  induction fuel as [|fuel IH]; cbn [resolve_field spec_field].
  - intros ? ? ? ? ? s. exact I.
  - now apply resolve_field_body_acct.
Qed.

(* ---------- ExecuteQuery ----------
   whenever the specification's algorithm yields (data, origins), the implementation model answers
   with that data and its "errors" entry accounts for exactly the origins: every origin is the path
   of some reported error, every reported error carries a path, and that path is an origin *)
Theorem execute_operation_accounts op root d o :
  (full = true -> o_kind op <> OpMutation) ->
  spec_execute_operation sch doc vs U op root = Some (d, o) ->
  exists r, execute_operation sch doc vs U cfg op root = OVal r /\ r_data r = d /\
            rel (map g_path (r_errors r)) (map Some o).
Proof.
  intros Hk. unfold spec_execute_operation, execute_operation.
  destruct (root_type_of sch (o_kind op)) as [rt|]; [|discriminate].
  unfold spec_collect_fields. rewrite collect_fields_refines_spec.
  destruct (spec_collect sch doc vs COLLECT_FUEL rt (o_sels op) []) as [[flat v]|]; [|discriminate].
  set (rf := fun k ns => resolve_field sch doc vs U cfg EXEC_FUEL rt root [] k ns).
  set (sf := fun k ns => spec_field sch doc vs U EXEC_FUEL rt root [] k ns).
  assert (Hf : forall k ns, Af ([] ++ [KName k]) (rf k ns) (sf k ns)) by (intros; apply resolve_field_acct).
  destruct (spec_fields sf (group_fields flat [])) as [[rkv ro] rc] eqn:Es.
  destruct rc; [destruct rkv; discriminate|].
  intros Eq.
  assert (Hrun : forall run : M (list (string * pyval)),
            (exists E, s_errors (snd (run st0)) = s_errors st0 ++ E /\
               match rkv with
               | Some kv => fst (run st0) = OVal kv /\ rel (reported E) (opaths ro)
               | None => exists l, fst (run st0) = OExc l /\ all_located l /\ rel (reported E ++ raised_at [] l) (opaths ro)
               end) ->
            exists r, match run st0 with
                      | (OVal kv, s) => OVal {| r_data := PDict kv; r_errors := s_errors s; r_log := s_log s |}
                      | (OExc l, s) => OVal {| r_data := PNone; r_errors := s_errors (add_errors l s); r_log := s_log (add_errors l s) |}
                      | (OCrash e, _) => OCrash e
                      end = OVal r /\ r_data r = d /\ rel (map g_path (r_errors r)) (map Some o)).
  { intros run (E & HE & Hr). destruct (run st0) as [x s]. cbn [fst snd] in *.
    destruct rkv as [kv|]; inversion Eq; subst.
    - destruct Hr as [-> Hp]. eexists. split; [reflexivity|]. split; [reflexivity|]. cbn [r_errors]. rewrite HE. exact Hp.
    - destruct Hr as (l & -> & Hl & Hp). eexists. split; [reflexivity|]. split; [reflexivity|].
      cbn [r_errors add_errors s_errors]. rewrite HE. cbn [app].
      fold (reported (E ++ map finalize l)). rewrite reported_app, (reported_finalize [] l Hl). exact Hp. }
  assert (Hs : full = false ->
               exists E, s_errors (snd (exec_fields_seq rf (group_fields flat []) st0)) = s_errors st0 ++ E /\
               match rkv with
               | Some kv => fst (exec_fields_seq rf (group_fields flat []) st0) = OVal kv /\ rel (reported E) (opaths ro)
               | None => exists l, fst (exec_fields_seq rf (group_fields flat []) st0) = OExc l /\ all_located l /\
                                   rel (reported E ++ raised_at [] l) (opaths ro)
               end).
  { intros Hfull. exact (seq_acct rf sf (fun k => [] ++ [KName k]) Hfull Hf (group_fields flat []) st0 _ _ Es). }
  assert (Hcs : exists E, s_errors (snd (exec_fields_mixed (field_conc cfg rt) rf (group_fields flat []) st0)) = s_errors st0 ++ E /\
               match rkv with
               | Some kv => fst (exec_fields_mixed (field_conc cfg rt) rf (group_fields flat []) st0) = OVal kv /\ rel (reported E) (opaths ro)
               | None => exists l, fst (exec_fields_mixed (field_conc cfg rt) rf (group_fields flat []) st0) = OExc l /\ all_located l /\
                                   rel (reported E ++ raised_at [] l) (opaths ro)
               end).
  { destruct (Bool.bool_dec full true) as [Ef|Ef].
    - rewrite (mixed_all_conc _ _ (group_fields flat []) st0 (Hmode Ef rt)).
      exact (conc_acct rf sf (fun k => [] ++ [KName k]) Hf (group_fields flat []) st0 _ _ Es).
    - apply Bool.not_true_is_false in Ef.
      exact (mixed_acct _ rf sf (fun k => [] ++ [KName k]) Ef Hf (group_fields flat []) st0 _ _ Es). }
  destruct (o_kind op).
  - apply Hrun. exact Hcs.
  - apply Hrun. apply Hs. apply Bool.not_true_is_false. intros Hf'. now apply (Hk Hf').
  - apply Hrun. exact Hcs.
Qed.

End Origins.

(* exact accounting: queries / subscription sources with every sibling executed *)
Theorem execute_operation_accounts_exact sch doc vs U cfg op root d o :
  (forall t k ns, field_conc cfg t k ns = true) -> o_kind op <> OpMutation ->
  spec_execute_operation sch doc vs U op root = Some (d, o) ->
  exists r, execute_operation sch doc vs U cfg op root = OVal r /\ r_data r = d /\
            sameset (map g_path (r_errors r)) (map Some o).
Proof.
  intros Hc Hk Hs.
  destruct (execute_operation_accounts sch doc vs U cfg true (fun _ => Hc) op root d o (fun _ => Hk) Hs) as (r & Hr & Hd & Hp).
  exists r. split; [exact Hr|]. split; [exact Hd|]. intros x. destruct (Hp x) as [H1 H2]. split; [exact H1|exact (H2 eq_refl)].
Qed.

(* every operation kind, every configuration: the data is the specified one and no entry of
   `errors` points anywhere but at a failure origin of the specification *)
Theorem execute_operation_accounts_incl sch doc vs U cfg op root d o :
  spec_execute_operation sch doc vs U op root = Some (d, o) ->
  exists r, execute_operation sch doc vs U cfg op root = OVal r /\ r_data r = d /\
            forall e, In e (r_errors r) -> exists p, g_path e = Some p /\ In p o.
Proof.
  intros Hs.
  assert (Hm : false = true -> forall t k ns, field_conc cfg t k ns = true) by discriminate.
  assert (Hk : false = true -> o_kind op <> OpMutation) by discriminate.
  destruct (execute_operation_accounts sch doc vs U cfg false Hm op root d o Hk Hs) as (r & Hr & Hd & Hp).
  exists r. split; [exact Hr|]. split; [exact Hd|]. intros e Hin.
  pose proof (proj1 (Hp (g_path e)) (in_map g_path _ _ Hin)) as Hx.
  apply in_map_iff in Hx. destruct Hx as (p & Hpe & Hinp). exists p. split; [now symmetry|assumption].
Qed.
