(* Facts about the hand-written prelude (stable: do not depend on generated code). *)
From Coq Require Import ZArith List String Bool Lia SpecFloat DecimalString DecimalZ.
From TV Require Import Py.Prelude Model.ScalarSpec.
Import ListNotations.
Open Scope Z_scope.

Lemma string_to_Z_to_string z : string_to_Z (Z_to_string z) = Some z.
Proof.
  unfold string_to_Z, Z_to_string.
  destruct z as [|p|p].
  - reflexivity.
  - rewrite NilZero.isi.
    + cbn [option_map]. f_equal. apply DecimalZ.of_to.
    + cbn. intro H. inversion H as [H1].
      pose proof (DecimalPos.Unsigned.of_to p) as E. rewrite H1 in E. discriminate E.
    + cbn. discriminate.
  - rewrite NilZero.isi.
    + cbn [option_map]. f_equal. apply DecimalZ.of_to.
    + cbn. discriminate.
    + cbn. intro H. inversion H as [H1].
      pose proof (DecimalPos.Unsigned.of_to p) as E. rewrite H1 in E. discriminate E.
Qed.

Lemma pow2_pos k : 0 < 2 ^ k \/ k < 0.
Proof. destruct (Z_lt_le_dec k 0); [right; lia| left; apply Z.pow_pos_nonneg; lia]. Qed.

Ltac zsimp := cbn [sf_floor sf_trunc sf_to_Z_exact cmp_Z_sf sgn is_some sf_finite].

Lemma cmp_refl_eq x y : x = y -> is_eq_cmp (Some (x ?= y)) = true.
Proof. intros ->. cbn. rewrite Z.compare_refl. reflexivity. Qed.
Lemma cmp_neq x y : x <> y -> is_eq_cmp (Some (x ?= y)) = false.
Proof. intros H. cbn. destruct (x ?= y) eqn:Hc; auto. apply Z.compare_eq in Hc. contradiction. Qed.

(* floor(f) == f  <->  f denotes an integer, and then floor f is that integer *)
Lemma floor_exact f :
  sf_finite f = true ->
  exists z, sf_floor f = Ok z /\
            is_eq_cmp (cmp_Z_sf z f) = is_some (sf_to_Z_exact f) /\
            (forall z', sf_to_Z_exact f = Some z' -> z' = z).
Proof.
  destruct f as [s|s| |s m e]; zsimp; try discriminate; intros _.
  - exists 0. repeat split; auto. intros z' H; inversion H; auto.
  - destruct (0 <=? e) eqn:He.
    + eexists; split; [reflexivity|]. zsimp. cbn [is_eq_cmp]. rewrite Z.compare_refl. split; auto.
      intros z' H; inversion H; auto.
    + apply Z.leb_gt in He.
      assert (Hd : 0 < 2 ^ (- e)) by (apply Z.pow_pos_nonneg; lia).
      set (d := 2 ^ (- e)) in *. clearbody d.
      set (M := Z.pos m) in *. assert (HM : 0 < M) by (subst M; lia). clearbody M.
      pose proof (Z.div_mod M d ltac:(lia)) as Hdm.
      pose proof (Z.mod_pos_bound M d Hd) as Hb.
      destruct s; zsimp.
      * eexists; split; [reflexivity|].
        pose proof (Z.div_mod (M + d - 1) d ltac:(lia)) as Hdm2.
        pose proof (Z.mod_pos_bound (M + d - 1) d Hd) as Hb2.
        destruct (M mod d =? 0) eqn:Hm; zsimp.
        -- apply Z.eqb_eq in Hm.
           assert (Hq : (M + d - 1) / d = M / d) by (symmetry; apply Z.div_unique with (d - 1); lia).
           rewrite Hq. split.
           ++ apply cmp_refl_eq. nia.
           ++ intros z' H; apply (f_equal (fun o => match o with Some x => x | None => 0 end)) in H; cbv beta iota in H; lia.
        -- apply Z.eqb_neq in Hm. split; [|discriminate].
           apply cmp_neq. intro Heq. apply Hm.
           assert (HMq : M = ((M + d - 1) / d) * d) by lia.
           rewrite HMq. apply Z.mod_mul. lia.
      * eexists; split; [reflexivity|].
        destruct (M mod d =? 0) eqn:Hm; zsimp.
        -- apply Z.eqb_eq in Hm. split.
           ++ apply cmp_refl_eq. nia.
           ++ intros z' H; apply (f_equal (fun o => match o with Some x => x | None => 0 end)) in H; cbv beta iota in H; lia.
        -- apply Z.eqb_neq in Hm. split; [|discriminate].
           apply cmp_neq. intro Heq. apply Hm.
           assert (HMq : M = (M / d) * d) by lia.
           rewrite HMq. apply Z.mod_mul. lia.
Qed.

(* int(f) == f  <->  f denotes an integer *)
Lemma trunc_exact f :
  sf_finite f = true ->
  exists z, sf_trunc f = Ok z /\
            is_eq_cmp (cmp_Z_sf z f) = is_some (sf_to_Z_exact f) /\
            (forall z', sf_to_Z_exact f = Some z' -> z' = z).
Proof.
  destruct f as [s|s| |s m e]; zsimp; try discriminate; intros _.
  - exists 0. repeat split; auto. intros z' H; inversion H; auto.
  - destruct (0 <=? e) eqn:He.
    + eexists; split; [reflexivity|]. zsimp. cbn [is_eq_cmp]. rewrite Z.compare_refl. split; auto.
      intros z' H; inversion H; auto.
    + apply Z.leb_gt in He.
      assert (Hd : 0 < 2 ^ (- e)) by (apply Z.pow_pos_nonneg; lia).
      set (d := 2 ^ (- e)) in *. clearbody d.
      set (M := Z.pos m) in *. assert (HM : 0 < M) by (subst M; lia). clearbody M.
      pose proof (Z.div_mod M d ltac:(lia)) as Hdm.
      pose proof (Z.mod_pos_bound M d Hd) as Hb.
      eexists; split; [reflexivity|].
      destruct (M mod d =? 0) eqn:Hm; zsimp.
      * apply Z.eqb_eq in Hm. split.
        -- apply cmp_refl_eq. destruct s; zsimp; nia.
        -- intros z' H; apply (f_equal (fun o => match o with Some x => x | None => 0 end)) in H; cbv beta iota in H; lia.
      * apply Z.eqb_neq in Hm. split; [|discriminate].
        apply cmp_neq. intro Heq. apply Hm.
        assert (HMq : M = (M / d) * d) by (destruct s; cbn [sgn] in Heq; lia).
        rewrite HMq. apply Z.mod_mul. lia.
Qed.

Lemma sf_trunc_nonfinite f : sf_finite f = false -> exists e, sf_trunc f = Raise e /\ e <> OutOfFuel.
Proof. destruct f; cbn; try discriminate; intros _; eexists; split; eauto; discriminate. Qed.

Lemma in32b_spec z : in32b z = true <-> -2147483648 <= z <= 2147483647.
Proof. unfold in32b. rewrite andb_true_iff, !Z.leb_le. tauto. Qed.

Lemma cmp_Z_sf_exact x f z :
  sf_finite f = true -> sf_to_Z_exact f = Some z -> cmp_Z_sf x f = Some (x ?= z).
Proof.
  destruct f as [s|s| |s m e]; zsimp; try discriminate; intros _.
  - intros H; inversion H; reflexivity.
  - destruct (0 <=? e) eqn:He.
    + intros H. apply (f_equal (fun o => match o with Some x => x | None => 0 end)) in H.
      cbv beta iota in H. subst z. reflexivity.
    + apply Z.leb_gt in He.
      assert (Hd : 0 < 2 ^ (- e)) by (apply Z.pow_pos_nonneg; lia).
      set (d := 2 ^ (- e)) in *. clearbody d.
      set (M := Z.pos m) in *. clearbody M.
      destruct (M mod d =? 0) eqn:Hm; [|discriminate].
      apply Z.eqb_eq in Hm.
      intros H. apply (f_equal (fun o => match o with Some x => x | None => 0 end)) in H.
      cbv beta iota in H. subst z. f_equal.
      pose proof (Z.div_mod M d ltac:(lia)) as Hdm. rewrite Hm in Hdm.
      assert (HM : sgn s * M = (sgn s * (M / d)) * d) by (destruct s; cbn [sgn]; lia).
      rewrite HM. symmetry. apply Zmult_compare_compat_r. lia.
Qed.

Lemma compare_antisym_opp x y : CompOpp (x ?= y) = (y ?= x).
Proof. symmetry. apply Z.compare_antisym. Qed.

Lemma sf_of_Z_raise z e : sf_of_Z z = Raise e -> e = OverflowError.
Proof.
  unfold sf_of_Z. destruct z; try discriminate.
  - destruct (sf_finite _); intros H; inversion H; reflexivity.
  - destruct (binary_normalize _ _ _ _ _); intros H; inversion H; reflexivity.
Qed.

Lemma sf_of_Z_finite z f : sf_of_Z z = Ok f -> sf_finite f = true.
Proof.
  unfold sf_of_Z. destruct z.
  - intros H; inversion H; reflexivity.
  - destruct (sf_finite _) eqn:E; intros H; inversion H; subst; exact E.
  - destruct (binary_normalize _ _ _ _ _); intros H; inversion H; reflexivity.
Qed.
