(* Type soundness of input coercion: whatever the coercion of a literal (Model/SpecLiteral.v),
   of a variable value (Model/SpecInput.v) or of an argument delivers is a value of the declared
   type (Model/InputTyping.v). *)
From Coq Require Import ZArith List String Bool Lia.
From TV Require Import Proofs.ValidateValues.
From TV Require Import Py.Prelude Model.Schema Model.ScalarSpec Model.ImplInput Model.SpecInput Model.SpecLiteral
     Proofs.InputRefine Proofs.ValidateProofs Proofs.LiteralRefine.
From TV Require Import Model.ImplValidate Model.SpecArgs Proofs.ArgsRefine.
From TV Require Import Model.InputTyping.
Import ListNotations.
Open Scope string_scope.
Open Scope list_scope.

Section Sound.
Variable sch : schema.
Variable leaf : string -> pyval -> bool.
Notation has_type := (has_type sch leaf).

(* what is assumed of the scalars: their coercion functions return internal values the leaf
   predicate accepts (or "invalid"), never None for a non-null input *)
Hypothesis leaf_input : forall n ops v r, scalars sch n = Some ops -> s_input ops v = Ok r -> is_undef r = false -> leaf n r = true.
Hypothesis leaf_literal : forall n ops a r, scalars sch n = Some ops -> wf_node a = true -> s_literal ops a = Ok r -> is_undef r = false -> leaf n r = true.
Hypothesis leaf_not_none : forall n, leaf n PNone = false.
(* input object field names are unique (a checked schema rule) *)
Hypothesis input_fields_unique : forall n fields, find_type sch n = Some (DInput fields) -> NoDup (map in_name fields).
(* the defaults written in the schema are well-formed AST values (what the SDL parser builds) *)
Hypothesis defaults_wf : forall n fields f d, find_type sch n = Some (DInput fields) -> In f fields -> in_default f = Some d -> wf_lit d = true.

Lemma wf_lit_list lo items : wf_lit (LList lo items) = forallb wf_lit items.
Proof. cbn [wf_lit]. induction items as [|x r IH]; [reflexivity|]. cbn [forallb]. now rewrite IH. Qed.
Lemma wf_lit_obj lo fs : wf_lit (LObj lo fs) = forallb (fun kv => wf_lit (snd kv)) fs.
Proof. cbn [wf_lit]. induction fs as [|[k x] r IH]; [reflexivity|]. cbn [forallb snd]. now rewrite IH. Qed.
Lemma wf_lit_node l : wf_lit l = true -> wf_node (node_of_lit l) = true.
Proof. destruct l as [lo x|lo v|lo v|lo s|lo b|lo|lo s|lo items|lo fnodes]; try reflexivity; destruct v; cbn; congruence. Qed.
Lemma lit_obj_get_wf k fs node : forallb (fun kv => wf_lit (snd kv)) fs = true -> lit_obj_get k fs = Some node -> wf_lit node = true.
Proof.
  induction fs as [|[k' x] r IH]; intros Hw Hg; [discriminate|]. cbn [forallb snd] in Hw. apply andb_true_iff in Hw.
  destruct Hw as [Hx Hr]. cbn [lit_obj_get] in Hg. destruct (lit_obj_get k r) as [later|] eqn:E.
  - injection Hg as <-. now apply IH.
  - destruct (String.eqb k k'); [now injection Hg as <-|discriminate].
Qed.

(* ---------- unfolding ---------- *)
Lemma has_type_nonnull v t : has_type v (TNonNull t) = negb (is_none v) && has_type v t.
Proof. destruct v; reflexivity. Qed.

Lemma has_type_none t : is_non_null t = false -> has_type PNone t = true.
Proof. destruct t; cbn; congruence. Qed.

Lemma has_type_list items t : has_type (PList items) (TList t) = all_items sch leaf t items.
Proof.
  unfold all_items. cbn. induction items as [|x r IH]; [reflexivity|]. cbn [forallb]. now rewrite <- IH.
Qed.

Lemma has_type_object kv n fields :
  find_type sch n = Some (DInput fields) ->
  has_type (PDict kv) (TNamed n) = all_entries sch leaf fields kv && required_present fields kv.
Proof.
  intros H. cbn. rewrite H. f_equal. unfold all_entries.
  induction kv as [|[k x] r IH]; [reflexivity|]. cbn [forallb fst snd]. now rewrite <- IH.
Qed.

Lemma has_type_scalar v n : find_type sch n = Some DScalar -> is_none v = false -> has_type v (TNamed n) = leaf n v.
Proof. intros H Hn. destruct v; cbn; rewrite ?H; try reflexivity. discriminate. Qed.

Lemma has_type_nonnull_intro v t : is_none v = false -> has_type v t = true -> has_type v (TNonNull t) = true.
Proof. intros Hn H. rewrite has_type_nonnull, Hn. exact H. Qed.

(* ---------- literals ---------- *)
Definition pos (nn : bool) (t : ty) : ty := if nn then TNonNull t else t.
Definition not_null_lit (l : lit) : bool := match l with LNull _ => false | _ => true end.

Definition lit_sound_at (fuel : nat) (t : ty) : Prop :=
  forall vs nn l r,
    spec_literal sch fuel t vs nn l = Ok r -> is_undef r = false ->
    lit_vars_typed sch leaf fuel vs t l = true -> wf_lit l = true ->
    (nn = true -> not_null_lit l = true) ->
    has_type r (pos nn t) = true.

Lemma lvt_nonnull fuel vs t l : lit_vars_typed sch leaf fuel vs (TNonNull t) l = lit_vars_typed sch leaf fuel vs t l.
Proof. destruct fuel; reflexivity. Qed.

Lemma lvt_list fuel vs t l :
  lit_vars_typed sch leaf fuel vs (TList t) l =
  match l with
  | LVar _ x => var_typed sch leaf vs (TList t) x
  | LList _ items => forallb (lit_vars_typed sch leaf fuel vs t) items
  | LNull _ => true
  | _ => lit_vars_typed sch leaf fuel vs t l
  end.
Proof. destruct fuel; destruct l; reflexivity. Qed.

Lemma var_value_typed vs nn x t r :
  var_value vs nn x = r -> is_undef r = false -> var_typed sch leaf vs t x = true -> has_type r (pos nn t) = true.
Proof.
  unfold var_value, var_typed. intros Hr Hu Ht.
  destruct (dict_get x vs) as [v|]; [|subst r; discriminate].
  destruct (is_undef v) eqn:Huv; [subst r; discriminate|]. cbn [orb] in Ht.
  destruct nn; cbn [pos andb] in *.
  - destruct (is_none v) eqn:Hn; cbn [andb] in Hr; [subst r; discriminate|]. subst r.
    now apply has_type_nonnull_intro.
  - rewrite andb_false_r in Hr. now subst r.
Qed.

Lemma pos_intro nn t r : has_type r t = true -> (nn = true -> is_none r = false) -> has_type r (pos nn t) = true.
Proof. intros H Hn. destruct nn; cbn [pos]; [|exact H]. apply has_type_nonnull_intro; auto. Qed.

Lemma items_sound (f : lit -> res pyval) t' : forall items rs,
  map_res f items = Ok rs -> all_defined rs = true ->
  (forall it r, In it items -> f it = Ok r -> is_undef r = false -> has_type r t' = true) ->
  all_items sch leaf t' rs = true.
Proof.
  induction items as [|it items IH]; intros rs Hm Hd Hall; cbn [map_res] in Hm.
  - injection Hm as <-. reflexivity.
  - destruct (f it) as [r|e] eqn:Hf; cbn [bind] in Hm; [|discriminate].
    destruct (map_res f items) as [rs'|e] eqn:Hr; cbn [bind] in Hm; [|discriminate]. injection Hm as <-.
    cbn [all_defined] in Hd. apply andb_true_iff in Hd. destruct Hd as [Hd1 Hd2]. apply negb_true_iff in Hd1.
    unfold all_items. cbn [forallb]. apply andb_true_iff. split.
    + apply (Hall it r (or_introl eq_refl) Hf Hd1).
    + apply (IH rs' eq_refl Hd2). intros it' r' Hin. apply Hall. now right.
Qed.

(* wrappers: given the named level at this fuel *)
Lemma lit_sound_types fuel : (forall n, lit_sound_at fuel (TNamed n)) -> forall t, lit_sound_at fuel t.
Proof.
  intros Hnamed t. induction t as [n|t IH|t IH]; [apply Hnamed| |]; intros vs nn l r Hs Hu Hv Hw Hnn.
  - (* list *)
    rewrite spec_literal_list in Hs. rewrite lvt_list in Hv.
    destruct l as [lo x|lo v|lo v|lo s|lo b|lo|lo s|lo items|lo fnodes];
      try (destruct (spec_literal sch fuel t vs false _) as [v0|e] eqn:Hi; cbn [bind] in Hs; [|discriminate];
           destruct (is_undef v0) eqn:Hu0; injection Hs as <-; [discriminate|];
           apply pos_intro; [|reflexivity]; rewrite has_type_list; unfold all_items; cbn [forallb]; rewrite andb_true_r;
           exact (IH vs false _ v0 Hi Hu0 Hv Hw (fun H => ltac:(discriminate)))).
    + injection Hs as <-. eapply var_value_typed; eauto.
    + injection Hs as <-. destruct nn; [specialize (Hnn eq_refl); discriminate|reflexivity].
    + destruct (map_res _ items) as [rs|e] eqn:Hm; cbn [bind] in Hs; [|discriminate].
      destruct (all_defined rs) eqn:Hd; injection Hs as <-; [|discriminate].
      apply pos_intro; [|reflexivity]. rewrite has_type_list.
      apply (items_sound _ t items rs Hm Hd). intros it r Hin Hf Hur.
      destruct (is_missing_variable it vs).
      * destruct (is_non_null t) eqn:Hnnt; injection Hf as <-; [discriminate|]. now apply has_type_none.
      * rewrite forallb_forall in Hv. rewrite wf_lit_list, forallb_forall in Hw.
        exact (IH vs false it r Hf Hur (Hv it Hin) (Hw it Hin) (fun H => ltac:(discriminate))).
  - (* non-null *)
    rewrite spec_literal_nonnull in Hs. rewrite lvt_nonnull in Hv.
    assert (Hgo : spec_literal sch fuel t vs true l = Ok r /\ not_null_lit l = true).
    { destruct l; try (split; [exact Hs|reflexivity]). injection Hs as <-. discriminate. }
    destruct Hgo as [Hgo Hl].
    pose proof (IH vs true l r Hgo Hu Hv Hw (fun _ => Hl)) as H. cbn [pos] in H.
    apply pos_intro; [exact H|]. intros _. rewrite has_type_nonnull in H. apply andb_true_iff in H. destruct H as [H _].
    now apply negb_true_iff in H.
Qed.

(* ---------- input objects ---------- *)
Lemma find_input_unique fields : NoDup (map in_name fields) -> forall f, In f fields -> find_input (in_name f) fields = Some f.
Proof.
  unfold find_input. induction fields as [|g fields IH]; intros Hnd f Hin; [contradiction|].
  cbn [map] in Hnd. inversion Hnd as [|? ? Hni Hnd']; subst. cbn [find].
  destruct Hin as [->|Hin]; [now rewrite String.eqb_refl|].
  destruct (String.eqb (in_name f) (in_name g)) eqn:E; [|now apply IH].
  apply String.eqb_eq in E. exfalso. apply Hni. rewrite <- E. now apply in_map.
Qed.

Lemma dict_get_in k v kv : In (k, v) kv -> exists v', dict_get k kv = Some v'.
Proof.
  induction kv as [|[k' v0] kv IH]; intros Hin; [contradiction|]. cbn [dict_get].
  destruct (String.eqb k k') eqn:E; [eauto|].
  destruct Hin as [Heq|Hin]; [|now apply IH]. injection Heq as -> ->. now rewrite String.eqb_refl in E.
Qed.

Definition outcome_ok (f : input_def) (r : string * field_outcome) : Prop :=
  fst r = in_name f /\
  match snd r with
  | FSkip => is_non_null (in_type f) = false
  | FInvalid => True
  | FVal v => is_undef v = false -> has_type v (in_type f) = true
  end.

Lemma fields_outcomes (F : input_def -> res field_outcome) : forall fs rs,
  map_res (fun f => bind (F f) (fun o => Ok (in_name f, o))) fs = Ok rs ->
  (forall f o, In f fs -> F f = Ok o -> outcome_ok f (in_name f, o)) ->
  Forall2 outcome_ok fs rs.
Proof.
  induction fs as [|f fs IH]; intros rs Hm Hall; cbn [map_res] in Hm.
  - injection Hm as <-. constructor.
  - destruct (F f) as [o|e] eqn:Hf; cbn [bind] in Hm; [|discriminate].
    destruct (map_res _ fs) as [rs'|e] eqn:Hr; cbn [bind] in Hm; [|discriminate]. injection Hm as <-.
    constructor.
    + apply (Hall f o (or_introl eq_refl) Hf).
    + apply IH; [reflexivity|]. intros f' o' Hin. apply Hall. now right.
Qed.

Definition entries_of (rs : list (string * field_outcome)) : list (string * pyval) :=
  flat_map (fun r => match snd r with FVal v => [(fst r, v)] | _ => [] end) rs.

Lemma forall2_in_l {A B} (R : A -> B -> Prop) xs ys x : Forall2 R xs ys -> In x xs -> exists y, In y ys /\ R x y.
Proof.
  induction 1 as [|a b xs ys Hab H IH]; intros Hin; [contradiction|].
  destruct Hin as [->|Hin]; [exists b; split; [now left|exact Hab]|].
  destruct (IH Hin) as [y [Hy Hr]]. exists y. split; [now right|exact Hr].
Qed.
Lemma forall2_in_r {A B} (R : A -> B -> Prop) xs ys y : Forall2 R xs ys -> In y ys -> exists x, In x xs /\ R x y.
Proof.
  induction 1 as [|a b xs ys Hab H IH]; intros Hin; [contradiction|].
  destruct Hin as [->|Hin]; [exists a; split; [now left|exact Hab]|].
  destruct (IH Hin) as [x [Hx Hr]]. exists x. split; [now right|exact Hr].
Qed.

Lemma object_typed n fields rs :
  find_type sch n = Some (DInput fields) ->
  Forall2 outcome_ok fields rs -> existsb field_bad rs = false ->
  has_type (PDict (entries_of rs)) (TNamed n) = true.
Proof.
  intros Hn Hf Hbad. rewrite (has_type_object _ n fields Hn).
  pose proof (input_fields_unique n fields Hn) as Hnd.
  assert (Hgood : forall r, In r rs -> field_bad r = false).
  { intros r Hin. destruct (field_bad r) eqn:E; [|reflexivity].
    assert (existsb field_bad rs = true) by (apply existsb_exists; eauto). congruence. }
  apply andb_true_iff. split.
  - unfold all_entries. apply forallb_forall. intros [k v] Hin. cbn [fst snd].
    unfold entries_of in Hin. apply in_flat_map in Hin. destruct Hin as [r [Hr Hin]].
    destruct r as [k' o]. cbn [fst snd] in Hin. destruct o as [| |v']; try contradiction.
    destruct Hin as [Heq|[]]. injection Heq as -> ->.
    destruct (forall2_in_r _ _ _ _ Hf Hr) as [f [Hfin [Hname Hok]]]. cbn [fst snd] in *. subst k.
    rewrite (find_input_unique fields Hnd f Hfin). apply Hok.
    specialize (Hgood _ Hr). unfold field_bad in Hgood. exact Hgood.
  - unfold required_present. apply forallb_forall. intros f Hfin.
    destruct (forall2_in_l _ _ _ _ Hf Hfin) as [[k o] [Hr [Hname Hok]]]. cbn [fst snd] in *. subst k.
    destruct o as [| |v].
    + destruct (dict_get (in_name f) (entries_of rs)); [reflexivity|]. now rewrite Hok.
    + specialize (Hgood _ Hr). discriminate.
    + assert (Hin : In (in_name f, v) (entries_of rs)).
      { unfold entries_of. apply in_flat_map. exists (in_name f, FVal v). split; [exact Hr|now left]. }
      destruct (dict_get_in _ _ _ Hin) as [v' ->]. reflexivity.
Qed.

(* ---------- the named level, one unit of fuel more ---------- *)
Lemma lit_sound_named fuel : (forall t, lit_sound_at fuel t) -> forall n, lit_sound_at (S fuel) (TNamed n).
Proof.
  intros IH n vs nn l r Hs Hu Hv Hw Hnn. cbn [spec_literal] in Hs. cbn [lit_vars_typed] in Hv.
  pose proof (wf_lit_node l Hw) as Hwn.
  destruct (find_type sch n) as [[ |values|fields|ifs fs|fs|ms]|] eqn:Hn; try discriminate.
  - (* scalar *)
    destruct (scalars sch n) as [ops|] eqn:Hops; [|discriminate].
    destruct l as [lo x|lo v|lo v|lo s|lo b|lo|lo s|lo items|lo fnodes];
      try (destruct (s_literal ops _) as [r0|e] eqn:Hl; cbv beta iota in Hs; [injection Hs as <-|destruct e; try discriminate; injection Hs as <-; discriminate];
           pose proof (leaf_literal n ops _ r0 Hops Hwn Hl Hu) as Hleaf;
           assert (Hnone : is_none r0 = false) by (destruct r0; try reflexivity; rewrite leaf_not_none in Hleaf; discriminate);
           apply pos_intro; [now rewrite (has_type_scalar r0 n Hn Hnone)|intros _; exact Hnone]).
    + injection Hs as <-. eapply var_value_typed; eauto.
    + injection Hs as <-. destruct nn; [specialize (Hnn eq_refl); discriminate|reflexivity].
  - (* enum *)
    destruct l as [lo x|lo v|lo v|lo s|lo b|lo|lo s|lo items|lo fnodes]; try (injection Hs as <-; discriminate).
    + injection Hs as <-. eapply var_value_typed; eauto.
    + injection Hs as <-. destruct nn; [specialize (Hnn eq_refl); discriminate|reflexivity].
    + destruct (mem_str s values) eqn:Hm; injection Hs as <-; [|discriminate].
      apply pos_intro; [|reflexivity]. cbn. now rewrite Hn.
  - (* input object *)
    destruct l as [lo x|lo v|lo v|lo s|lo b|lo|lo s|lo items|lo fnodes]; try (injection Hs as <-; discriminate).
    + injection Hs as <-. eapply var_value_typed; eauto.
    + injection Hs as <-. destruct nn; [specialize (Hnn eq_refl); discriminate|reflexivity].
    + destruct (map_res _ fields) as [rs|e] eqn:Hm; cbn [bind] in Hs; [|discriminate]. injection Hs as <-.
      unfold finish_lit_object in *. destruct (existsb field_bad rs) eqn:Hbad; [discriminate|].
      apply pos_intro; [|reflexivity].
      apply (object_typed n fields rs Hn); [|exact Hbad].
      apply (fields_outcomes _ fields rs Hm). intros f o Hfin Hf. split; [reflexivity|]. cbn [snd].
      rewrite forallb_forall in Hv. specialize (Hv f Hfin). apply andb_true_iff in Hv. destruct Hv as [Hvn Hvd].
      unfold spec_obj_field in Hf.
      assert (Hcase : forall node, lit_vars_typed sch leaf fuel vs (in_type f) node = true -> wf_lit node = true ->
                bind (spec_literal sch fuel (in_type f) vs false node) (fun v => Ok (FVal v)) = Ok o ->
                match o with FSkip => is_non_null (in_type f) = false | FInvalid => True
                        | FVal v => is_undef v = false -> has_type v (in_type f) = true end).
      { intros node Hvt Hwf Hb. destruct (spec_literal sch fuel (in_type f) vs false node) as [v|e] eqn:Hl; cbn [bind] in Hb; [|discriminate].
        injection Hb as <-. intros Huv. exact (IH (in_type f) vs false node v Hl Huv Hvt Hwf (fun H => ltac:(discriminate))). }
      rewrite wf_lit_obj in Hw.
      destruct (lit_obj_get (in_name f) fnodes) as [node|] eqn:Hget.
      * pose proof (lit_obj_get_wf _ _ _ Hw Hget) as Hwnode.
        destruct (is_missing_variable node vs).
        -- destruct (in_default f) as [d|] eqn:Hd; [now apply (Hcase d Hvd (defaults_wf n fields f d Hn Hfin Hd))|].
           destruct (is_non_null (in_type f)) eqn:E; injection Hf as <-; [exact I|reflexivity].
        -- now apply (Hcase node).
      * destruct (in_default f) as [d|] eqn:Hd; [now apply (Hcase d Hvd (defaults_wf n fields f d Hn Hfin Hd))|].
        destruct (is_non_null (in_type f)) eqn:E; injection Hf as <-; [exact I|reflexivity].
Qed.

Theorem literal_sound : forall fuel t, lit_sound_at fuel t.
Proof.
  induction fuel as [|fuel IH]; intros t; apply lit_sound_types.
  - intros n vs nn l r Hs. discriminate.
  - apply lit_sound_named. exact IH.
Qed.

(* ---------- a literal without usable variables (defaults are coerced with no variables) ---------- *)
Lemma lvt_nil : forall fuel l t, lit_vars_typed sch leaf fuel [] t l = true.
Proof.
  induction fuel as [|fuel IHf]; intros l; induction l using lit_ind2; intros t;
    induction t as [tn|t IHt|t IHt]; rewrite ?lvt_nonnull, ?lvt_list; try reflexivity; try (exact IHt); try (apply IHt).
  all: try (apply forallb_forall; intros it Hin; rewrite Forall_forall in H; now apply H).
  cbn [lit_vars_typed]. destruct (find_type sch tn) as [[ |values|fs|ifs fs|fs|ms]|]; try reflexivity.
  apply forallb_forall. intros f _. apply andb_true_iff. split.
  - destruct (lit_obj_get (in_name f) fields); [apply IHf|reflexivity].
  - destruct (in_default f); [apply IHf|reflexivity].
Qed.

(* ---------- variable values (JSON) ---------- *)
(* (an input-field default that is not a valid literal of the field's type is a coercion error of the
   field: no assumption on the defaults is needed) *)
Definition input_sound_at (fuel : nat) (t : ty) : Prop :=
  forall p v r, spec_coerce sch fuel t p v = Ok (r, []) ->
                has_type r t = true /\ (is_none v = false -> is_none r = false).

Lemma all_errors_nil rs : all_errors rs = [] -> forall r, In r rs -> snd r = [].
Proof.
  unfold all_errors. induction rs as [|x rs IH]; intros H r Hin; [contradiction|]. cbn [flat_map] in H.
  apply app_eq_nil in H. destruct H as [H1 H2]. destruct Hin as [->|Hin]; [exact H1|now apply IH].
Qed.

Lemma coerce_items_sound (f : list pkey -> pyval -> res cres) t' p : forall items i rs,
  coerce_items f p i items = Ok rs -> all_errors rs = [] ->
  (forall q v r, f q v = Ok (r, []) -> has_type r t' = true) ->
  all_items sch leaf t' (map fst rs) = true.
Proof.
  induction items as [|x items IH]; intros i rs Hm He Hall; cbn [coerce_items] in Hm.
  - injection Hm as <-. reflexivity.
  - destruct (f _ x) as [r|e] eqn:Hf; cbn [bind] in Hm; [|discriminate].
    destruct (coerce_items f p (i + 1)%Z items) as [rs'|e] eqn:Hr; cbn [bind] in Hm; [|discriminate]. injection Hm as <-.
    unfold all_errors in He. cbn [flat_map] in He. apply app_eq_nil in He. destruct He as [He1 He2].
    unfold all_items. cbn [map forallb]. apply andb_true_iff. split.
    + destruct r as [rv re]. cbn [snd fst] in *. subst re. exact (Hall _ x rv Hf).
    + exact (IH (i + 1)%Z rs' Hr He2 Hall).
Qed.

Lemma input_sound_types fuel : (forall n, input_sound_at fuel (TNamed n)) -> forall t, input_sound_at fuel t.
Proof.
  intros Hnamed t. induction t as [n|t IH|t IH]; [apply Hnamed| |]; intros p v r Hs.
  - rewrite spec_coerce_list in Hs. destruct (is_none v) eqn:Hn.
    + injection Hs as <-. split; [reflexivity|discriminate].
    + destruct v; cbn [is_none] in Hn; try discriminate;
        try (destruct (spec_coerce sch fuel t p _) as [[r0 e0]|ex] eqn:Hi; cbn [bind] in Hs; [|discriminate];
             unfold wrap_single in Hs; cbn [snd fst] in Hs; destruct e0; [|discriminate]; injection Hs as <-;
             split; [|reflexivity]; rewrite has_type_list; unfold all_items; cbn [forallb]; rewrite andb_true_r;
             exact (proj1 (IH _ _ _ Hi))).
      destruct (coerce_items _ p 0%Z l) as [rs|e] eqn:Hm; cbn [bind] in Hs; [|discriminate].
      unfold collect in Hs. destruct (all_errors rs) eqn:He; [|discriminate]. injection Hs as <-.
      split; [|reflexivity]. rewrite has_type_list.
      apply (coerce_items_sound _ t p l 0%Z rs Hm He). intros q x r Hf. exact (proj1 (IH _ _ _ Hf)).
  - rewrite spec_coerce_nonnull in Hs. destruct (is_none v) eqn:Hn; [discriminate|].
    destruct (IH _ _ _ Hs) as [H1 H2]. split; [|exact (fun _ => H2 Hn)]. apply has_type_nonnull_intro; auto.
Qed.

Definition in_outcome_ok (f : input_def) (r : string * option cres) : Prop :=
  fst r = in_name f /\
  match snd r with
  | None => is_non_null (in_type f) = false
  | Some c => snd c = [] -> has_type (fst c) (in_type f) = true
  end.

Lemma coerce_fields_outcomes (cf : input_def -> res (option cres)) : forall fs rs,
  coerce_fields cf fs = Ok rs ->
  (forall f o, In f fs -> cf f = Ok o -> in_outcome_ok f (in_name f, o)) ->
  Forall2 in_outcome_ok fs rs.
Proof.
  induction fs as [|f fs IH]; intros rs Hm Hall; cbn [coerce_fields] in Hm.
  - injection Hm as <-. constructor.
  - destruct (cf f) as [o|e] eqn:Hf; cbn [bind] in Hm; [|discriminate].
    destruct (coerce_fields cf fs) as [rs'|e] eqn:Hr; cbn [bind] in Hm; [|discriminate]. injection Hm as <-.
    constructor.
    + apply (Hall f o (or_introl eq_refl) Hf).
    + apply IH; [reflexivity|]. intros f' o' Hin. apply Hall. now right.
Qed.

Lemma in_present_of rs k c : In (k, c) (present_of rs) <-> In (k, Some c) rs.
Proof.
  unfold present_of. rewrite in_flat_map. split.
  - intros [[k' o] [Hin H]]. cbn [fst snd] in H. destruct o as [c'|]; [|contradiction].
    destruct H as [H|[]]. injection H as -> ->. exact Hin.
  - intros Hin. exists (k, Some c). split; [exact Hin|now left].
Qed.

Lemma input_object_typed n fields rs :
  find_type sch n = Some (DInput fields) ->
  Forall2 in_outcome_ok fields rs -> all_errors (map snd (present_of rs)) = [] ->
  has_type (PDict (map (fun r => (fst r, fst (snd r))) (present_of rs))) (TNamed n) = true.
Proof.
  intros Hn Hf He. rewrite (has_type_object _ n fields Hn).
  pose proof (input_fields_unique n fields Hn) as Hnd.
  apply andb_true_iff. split.
  - unfold all_entries. apply forallb_forall. intros [k v] Hin. cbn [fst snd].
    apply in_map_iff in Hin. destruct Hin as [[k' c] [Heq Hin]]. cbn [fst snd] in Heq. injection Heq as -> <-.
    pose proof (all_errors_nil _ He c (in_map snd _ _ Hin)) as Hc.
    apply in_present_of in Hin.
    destruct (forall2_in_r _ _ _ _ Hf Hin) as [f [Hfin [Hname Hok]]]. cbn [fst snd] in *. subst k.
    rewrite (find_input_unique fields Hnd f Hfin). now apply Hok.
  - unfold required_present. apply forallb_forall. intros f Hfin.
    destruct (forall2_in_l _ _ _ _ Hf Hfin) as [[k o] [Hr [Hname Hok]]]. cbn [fst snd] in *. subst k.
    destruct o as [c|].
    + assert (Hin : In (in_name f, fst c) (map (fun r => (fst r, fst (snd r))) (present_of rs))).
      { apply in_map_iff. exists (in_name f, c). split; [reflexivity|]. now apply in_present_of. }
      destruct (dict_get_in _ _ _ Hin) as [v' ->]. reflexivity.
    + destruct (dict_get (in_name f) _); [reflexivity|]. now rewrite Hok.
Qed.

Lemma input_sound_named fuel : (forall t, input_sound_at fuel t) -> forall n, input_sound_at (S fuel) (TNamed n).
Proof.
  intros IH n p v r Hs. cbn [spec_coerce] in Hs.
  destruct (find_type sch n) as [[ |values|fields|ifs fs|fs|ms]|] eqn:Hn; try discriminate.
  - destruct (scalars sch n) as [ops|] eqn:Hops; [|discriminate].
    destruct (is_none v) eqn:Hnv; [injection Hs as <-; split; [reflexivity|discriminate]|].
    destruct (s_input ops v) as [r0|e] eqn:Hi; [|destruct e; discriminate].
    destruct (is_undef r0) eqn:Hu; [discriminate|]. injection Hs as <-.
    pose proof (leaf_input n ops v r0 Hops Hi Hu) as Hleaf.
    assert (Hnone : is_none r0 = false) by (destruct r0; try reflexivity; rewrite leaf_not_none in Hleaf; discriminate).
    split; [now rewrite (has_type_scalar r0 n Hn Hnone)|intros _; exact Hnone].
  - destruct (is_none v) eqn:Hnv; [injection Hs as <-; split; [reflexivity|discriminate]|].
    destruct v; try discriminate. destruct (mem_str s values) eqn:Hm; [|discriminate]. injection Hs as <-.
    split; [|reflexivity]. cbn. now rewrite Hn.
  - destruct (is_none v) eqn:Hnv; [injection Hs as <-; split; [reflexivity|discriminate]|].
    destruct v; try discriminate.
    destruct (coerce_fields _ fields) as [rs|e] eqn:Hm; cbn [bind] in Hs; [|discriminate].
    unfold finish_object in Hs.
    destruct (all_errors (map snd (present_of rs)) ++ unknown_of fields p kv) eqn:He; [|discriminate].
    injection Hs as <-. apply app_eq_nil in He. destruct He as [He _].
    split; [|reflexivity]. apply (input_object_typed n fields rs Hn); [|exact He].
    apply (coerce_fields_outcomes _ fields rs Hm). intros f o Hfin Hf. split; [reflexivity|]. cbn [snd].
    unfold coerce_field in Hf.
    destruct (dict_get (in_name f) kv) as [fv|].
    + destruct (spec_coerce sch fuel (in_type f) _ fv) as [[rv re]|e] eqn:Hc; cbn [bind] in Hf; [|discriminate].
      injection Hf as <-. cbn [snd fst]. intros ->. exact (proj1 (IH _ _ _ _ Hc)).
    + destruct (in_default f) as [d|] eqn:Hd.
      * rewrite literal_coercer_refines_spec in Hf.
        destruct (spec_literal sch fuel (in_type f) [] false d) as [dv|e] eqn:Hl; cbn [bind] in Hf; [|discriminate].
        destruct (is_undef dv) eqn:Hu; injection Hf as <-; cbn [snd fst]; [discriminate|]. intros _.
        exact (literal_sound fuel (in_type f) [] false d dv Hl Hu (lvt_nil fuel d (in_type f))
                             (defaults_wf n fields f d Hn Hfin Hd) (fun H => ltac:(discriminate))).
      * destruct (is_non_null (in_type f)) eqn:E; injection Hf as <-; [cbn [snd]; discriminate|reflexivity].
Qed.

Theorem input_sound : forall fuel t, input_sound_at fuel t.
Proof.
  induction fuel as [|fuel IH]; intros t; apply input_sound_types.
  - intros n p v r Hs. discriminate.
  - apply input_sound_named. exact IH.
Qed.

(* ---------- coerced variables are values of their declared types ---------- *)
Theorem variables_typed fuel : forall vds raw vals errs,
  spec_coerce_variables sch fuel vds raw = Ok (vals, errs) ->
  (forall vd d, In vd vds -> v_default vd = Some d -> wf_lit d = true) ->
  forall x v, In (x, v) vals -> exists vd, In vd vds /\ v_name vd = x /\ has_type v (v_type vd) = true.
Proof.
  induction vds as [|vd vds IH]; intros raw vals errs Hs Hwd x v Hin; cbn [spec_coerce_variables] in Hs.
  - injection Hs as <- <-. contradiction.
  - destruct (spec_variable sch fuel vd raw) as [o|e] eqn:Hv; cbn [bind] in Hs; [|discriminate].
    destruct (spec_coerce_variables sch fuel vds raw) as [[vals' errs']|e] eqn:Hr; cbn [bind] in Hs; [|discriminate].
    assert (Hrest : In (x, v) vals' -> exists vd0, In vd0 (vd :: vds) /\ v_name vd0 = x /\ has_type v (v_type vd0) = true).
    { intros H. destruct (IH raw vals' errs' Hr (fun a d Ha => Hwd a d (or_intror Ha)) x v H) as [vd0 [H1 H2]].
      exists vd0. split; [now right|exact H2]. }
    destruct o as [[cv ce]|]; [|injection Hs as <- <-; auto].
    destruct ce as [|e0 ce]; injection Hs as <- <-; [|auto].
    destruct Hin as [Heq|Hin]; [|auto]. injection Heq as <- <-.
    exists vd. split; [now left|]. split; [reflexivity|].
    unfold spec_variable in Hv.
    destruct (dict_get (v_name vd) raw) as [value|].
    + destruct (is_none value && is_non_null (v_type vd)); [discriminate|].
      destruct (spec_coerce sch fuel (v_type vd) [] value) as [r|e] eqn:Hc; cbn [bind] in Hv; [|discriminate].
      injection Hv as ->. exact (proj1 (input_sound fuel (v_type vd) [] value cv Hc)).
    + destruct (v_default vd) as [d|] eqn:Hdef.
      * rewrite literal_coercer_refines_spec in Hv.
        destruct (spec_literal sch fuel (v_type vd) [] false d) as [dv|e] eqn:Hl; cbn [bind] in Hv; [|discriminate].
        destruct (is_undef dv) eqn:Hu; [discriminate|]. injection Hv as <-.
        exact (literal_sound fuel (v_type vd) [] false d dv Hl Hu (lvt_nil fuel d (v_type vd))
                             (Hwd vd d (or_introl eq_refl) Hdef) (fun H => ltac:(discriminate))).
      * destruct (is_non_null (v_type vd)); discriminate.
Qed.

(* ---------- the variable-usage rule is a sub-typing check ---------- *)
Lemma has_type_strip v t : has_type v (TNonNull t) = true -> has_type v t = true.
Proof. rewrite has_type_nonnull. intros H. apply andb_true_iff in H. tauto. Qed.

Lemma all_items_impl t s items :
  (forall x, In x items -> has_type x t = true -> has_type x s = true) ->
  all_items sch leaf t items = true -> all_items sch leaf s items = true.
Proof.
  unfold all_items. intros H Ha. apply forallb_forall. intros x Hin. rewrite forallb_forall in Ha. auto.
Qed.

Theorem type_compat_subtype : forall T V v, type_compat V T = true -> has_type v V = true -> has_type v T = true.
Proof.
  induction T as [n|s IH|s IH]; intros V v Hc Hv.
  - (* named *)
    cbn [type_compat] in Hc. induction V as [m|V' IHV|V' IHV].
    + apply String.eqb_eq in Hc. now subst m.
    + discriminate.
    + apply IHV; [exact Hc|now apply has_type_strip].
  - (* list *)
    cbn [type_compat] in Hc. induction V as [m|V' IHV|V' IHV].
    + discriminate.
    + destruct v; try discriminate; [reflexivity|].
      rewrite has_type_list in *. apply (all_items_impl V' s l); [|exact Hv]. intros x _. now apply IH.
    + apply IHV; [exact Hc|now apply has_type_strip].
  - (* non-null *)
    cbn [type_compat] in Hc. destruct V as [m|V'|V']; try discriminate.
    rewrite has_type_nonnull in *. apply andb_true_iff in Hv. destruct Hv as [Hn Hv].
    apply andb_true_iff. split; [exact Hn|]. now apply (IH V').
Qed.

Definition nullable (t : ty) : ty := match t with TNonNull t' => t' | _ => t end.

(* a variable that passes all-variable-usages-are-allowed carries a value of the argument's type
   (its nullable form: null / absent values are the coercion's business) *)
Theorem usage_ok_typed ad vd v :
  usage_ok ad vd = true -> has_type v (v_type vd) = true -> has_type v (nullable (in_type ad)) = true.
Proof.
  unfold usage_ok. intros Hu Hv.
  destruct (in_type ad) as [n|t|inner] eqn:Et; cbn [nullable].
  - now apply (type_compat_subtype _ (v_type vd)).
  - now apply (type_compat_subtype _ (v_type vd)).
  - destruct (is_non_null (v_type vd)).
    + apply has_type_strip. now apply (type_compat_subtype _ (v_type vd)).
    + destruct (negb _ && negb _); [discriminate|]. now apply (type_compat_subtype _ (v_type vd)).
Qed.

(* ---------- what an argument delivers ---------- *)
Definition arg_vars_typed (fuel : nat) (ad : input_def) (anode : option argument) (vs : vars) : Prop :=
  match anode with
  | Some a =>
      match a_value a with
      | LVar _ x => forall v, dict_get x vs = Some v -> is_undef v = false -> has_type v (nullable (in_type ad)) = true
      | l => lit_vars_typed sch leaf fuel vs (in_type ad) l = true
      end
  | None => True
  end.

Definition arg_lit_wf (anode : option argument) : bool :=
  match anode with Some a => wf_lit (a_value a) | None => true end.

Theorem argument_typed fuel ad anode vs w :
  spec_argument (spec_coerce_literal sch fuel vs) ad anode vs = Ok (SValue w) ->
  arg_vars_typed fuel ad anode vs -> arg_lit_wf anode = true ->
  (forall d, in_default ad = Some d -> lit_vars_typed sch leaf fuel vs (in_type ad) d = true /\ wf_lit d = true) ->
  has_type w (in_type ad) = true.
Proof.
  intros Hs Hvars Hwf Hdef.
  assert (Hlit : forall node, lit_vars_typed sch leaf fuel vs (in_type ad) node = true -> wf_lit node = true ->
            bind (spec_coerce_literal sch fuel vs (in_type ad) node)
                 (fun r => match r with Some v => Ok (SValue v) | None => Ok SFieldError end) = Ok (SValue w) ->
            has_type w (in_type ad) = true).
  { intros node Hvt Hwn Hb. unfold spec_coerce_literal in Hb.
    destruct (spec_literal sch fuel (in_type ad) vs false node) as [v|e] eqn:Hl; cbn [bind] in Hb; [|discriminate].
    destruct (is_undef v) eqn:Hu; cbn [bind] in Hb; [discriminate|]. injection Hb as <-.
    exact (literal_sound fuel (in_type ad) vs false node v Hl Hu Hvt Hwn (fun H => ltac:(discriminate))). }
  unfold spec_argument in Hs. unfold arg_vars_typed in Hvars. unfold arg_lit_wf in Hwf.
  destruct anode as [a|].
  - destruct (a_value a) as [lo x|lo v|lo v|lo s|lo b|lo|lo s|lo items|lo fnodes] eqn:Ea;
      try (destruct (is_non_null (in_type ad) && _); [discriminate|]; now apply (Hlit _ Hvars Hwf)).
    + (* a variable *)
      destruct (dict_get x vs) as [v|] eqn:Ev.
      * destruct (is_non_null (in_type ad) && _) eqn:Hg; [discriminate|].
        destruct (is_undef v) eqn:Hu; [discriminate|]. injection Hs as <-.
        specialize (Hvars v eq_refl Hu).
        destruct (in_type ad) as [n|t|inner] eqn:Et; cbn [nullable] in Hvars; try exact Hvars.
        cbn [is_non_null negb orb andb] in Hg.
        apply has_type_nonnull_intro; [|exact Hvars]. destruct v; try reflexivity. discriminate.
      * destruct (in_default ad) as [d|] eqn:Hd; [destruct (Hdef d eq_refl) as [H1 H2]; now apply (Hlit d H1 H2)|].
        destruct (is_non_null (in_type ad) && _); discriminate.
    + (* null *)
      destruct (is_non_null (in_type ad)) eqn:Hnn; cbn [andb negb orb] in Hs; [discriminate|]. injection Hs as <-.
      now apply has_type_none.
  - destruct (in_default ad) as [d|] eqn:Hd; [destruct (Hdef d eq_refl) as [H1 H2]; now apply (Hlit d H1 H2)|].
    destruct (is_non_null (in_type ad) && _); discriminate.
Qed.

(* ... for the implementation model: what argument_coercer hands to the resolver *)
Theorem delivered_argument_typed fuel ad floc anode vs w :
  argument_coercer sch fuel ad floc anode vs = Ok (AVal w) ->
  arg_vars_typed fuel ad anode vs -> arg_lit_wf anode = true ->
  (forall d, in_default ad = Some d -> lit_vars_typed sch leaf fuel vs (in_type ad) d = true /\ wf_lit d = true) ->
  has_type w (in_type ad) = true.
Proof.
  intros Hi Hvars Hwf Hdef.
  pose proof (argument_coercer_refines_spec sch fuel ad floc anode vs) as Hr. rewrite Hi in Hr.
  destruct (spec_argument (spec_coerce_literal sch fuel vs) ad anode vs) as [[|w'|]|e] eqn:Hs; cbn in Hr; try contradiction.
  subst w'. exact (argument_typed fuel ad anode vs w Hs Hvars Hwf Hdef).
Qed.

(* a variable that is directly the value of an argument and passes the variable-usage rule *)
Theorem direct_variable_delivers_declared_type fuel ad floc a vs lo x vd w :
  a_value a = LVar lo x -> usage_ok ad vd = true ->
  (forall v, dict_get x vs = Some v -> is_undef v = false -> has_type v (v_type vd) = true) ->
  (forall d, in_default ad = Some d -> lit_vars_typed sch leaf fuel vs (in_type ad) d = true /\ wf_lit d = true) ->
  argument_coercer sch fuel ad floc (Some a) vs = Ok (AVal w) ->
  has_type w (in_type ad) = true.
Proof.
  intros Ha Hu Hv Hdef Hi. apply (delivered_argument_typed fuel ad floc (Some a) vs w Hi); [|cbn [arg_lit_wf]; now rewrite Ha|exact Hdef].
  unfold arg_vars_typed. rewrite Ha. intros v Hg Hnu. apply (usage_ok_typed ad vd v Hu). now apply Hv.
Qed.

(* the whole argument dictionary *)
Theorem delivered_arguments_typed fuel floc anodes vs : forall ads vals errs,
  coerce_arguments_aux sch fuel ads floc anodes vs = Ok (vals, errs) ->
  (forall ad, In ad ads -> arg_vars_typed fuel ad (find_arg (in_name ad) anodes) vs /\ arg_lit_wf (find_arg (in_name ad) anodes) = true) ->
  (forall ad d, In ad ads -> in_default ad = Some d -> lit_vars_typed sch leaf fuel vs (in_type ad) d = true /\ wf_lit d = true) ->
  forall k w, In (k, w) vals -> exists ad, In ad ads /\ in_name ad = k /\ has_type w (in_type ad) = true.
Proof.
  induction ads as [|ad ads IH]; intros vals errs Hs Hvars Hdef k w Hin; cbn [coerce_arguments_aux] in Hs.
  - injection Hs as <- <-. contradiction.
  - destruct (argument_coercer sch fuel ad floc (find_arg (in_name ad) anodes) vs) as [o|e] eqn:Ho; cbn [bind] in Hs; [|discriminate].
    destruct (coerce_arguments_aux sch fuel ads floc anodes vs) as [[vals' errs']|e] eqn:Hr; cbn [bind] in Hs; [|discriminate].
    assert (Hrest : In (k, w) vals' -> exists ad0, In ad0 (ad :: ads) /\ in_name ad0 = k /\ has_type w (in_type ad0) = true).
    { intros H. destruct (IH vals' errs' eq_refl (fun a Ha => Hvars a (or_intror Ha)) (fun a d Ha => Hdef a d (or_intror Ha)) k w H)
        as [ad0 [H1 H2]]. exists ad0. split; [now right|exact H2]. }
    destruct o as [|v|er]; injection Hs as <- <-; auto.
    destruct Hin as [Heq|Hin]; [|auto]. injection Heq as <- <-.
    exists ad. split; [now left|]. split; [reflexivity|].
    exact (delivered_argument_typed fuel ad floc _ vs v Ho (proj1 (Hvars ad (or_introl eq_refl))) (proj2 (Hvars ad (or_introl eq_refl)))
                                    (fun d => Hdef ad d (or_introl eq_refl))).
Qed.

End Sound.
