#!/bin/sh
# Offline setup: regenerate the source-derived Coq files and build the whole development.
set -e
cd "$(dirname "$0")"
mkdir -p coq/Gen coq/Run evidence
/venv/bin/python - <<'PY'
import sys
sys.path.insert(0, ".")
from harness import common
ok, msg = common.regenerate()
common.ensure_makefile()
print("regenerate:", ok, msg)
PY
cd coq
timeout 3000 make -j8 -k || echo "setup: some Coq files do not build (reported by the checks)"
