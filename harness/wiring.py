#!/usr/bin/env python3
"""wiring.py <repo> <out.v>: structural facts about the CURRENT source, as Coq data (fail closed):
  * every `validators.validate(rule, ...)` call site of transformers.py: (enclosing function, rule), in source order
  * RULE_SET of validators/query/__init__.py: (rule name constant of the class, abort flag)
  * the validator lists of GraphQLSchema._validate and _validate_extensions, and the order of the steps of bake()
"""
import ast
import sys
from pathlib import Path


def cs(s):
    return '"%s"' % s.replace('"', '""')


def cl(xs):
    return "[" + "; ".join(xs) + "]"


def fail(msg):
    sys.stderr.write("wiring: " + msg + "\n")
    sys.exit(1)


def call_sites(tree):
    out = []
    for fn in [n for n in tree.body if isinstance(n, ast.FunctionDef)]:
        calls = [n for n in ast.walk(fn) if isinstance(n, ast.Call) and isinstance(n.func, ast.Attribute)
                 and n.func.attr == "validate" and isinstance(n.func.value, ast.Name) and n.func.value.id == "validators"]
        calls.sort(key=lambda n: (n.lineno, n.col_offset))
        for c in calls:
            rule = None
            for kw in c.keywords:
                if kw.arg == "rule":
                    rule = kw.value
            if rule is None and c.args:
                rule = c.args[0]
            if not isinstance(rule, ast.Constant) or not isinstance(rule.value, str):
                fail("validate call with a non-constant rule in %s line %d" % (fn.name, c.lineno))
            out.append((fn.name, rule.value))
    return out


def rule_names(repo):
    """class name -> RULE_NAME constant"""
    out = {}
    for p in sorted((repo / "tartiflette/language/validators/query").glob("*.py")):
        t = ast.parse(p.read_text())
        for c in [n for n in t.body if isinstance(n, ast.ClassDef)]:
            for st in c.body:
                if isinstance(st, ast.Assign) and any(isinstance(x, ast.Name) and x.id == "RULE_NAME" for x in st.targets) \
                        and isinstance(st.value, ast.Constant) and isinstance(st.value.value, str):
                    out[c.name] = st.value.value
    return out


def rule_set(repo):
    names = rule_names(repo)
    t = ast.parse((repo / "tartiflette/language/validators/query/__init__.py").read_text())
    for st in t.body:
        if isinstance(st, ast.Assign) and any(isinstance(x, ast.Name) and x.id == "RULE_SET" for x in st.targets):
            if not isinstance(st.value, ast.Dict):
                fail("RULE_SET is not a dict literal")
            out = []
            for k, v in zip(st.value.keys, st.value.values):
                if not (isinstance(k, ast.Attribute) and k.attr == "RULE_NAME" and isinstance(k.value, ast.Name)):
                    fail("RULE_SET key is not <Class>.RULE_NAME")
                if not (isinstance(v, ast.Call) and isinstance(v.func, ast.Name) and v.func.id == k.value.id):
                    fail("RULE_SET value is not an instance of its key's class")
                abort = False
                for a in v.args[:1]:
                    abort = bool(getattr(a, "value", False))
                for kw in v.keywords:
                    if kw.arg == "abort":
                        abort = bool(getattr(kw.value, "value", False))
                if k.value.id not in names:
                    fail("no RULE_NAME constant for " + k.value.id)
                out.append((names[k.value.id], abort))
            return out
    fail("RULE_SET not found")


def schema_lists(repo):
    t = ast.parse((repo / "tartiflette/schema/schema.py").read_text())
    cls = [n for n in t.body if isinstance(n, ast.ClassDef) and n.name == "GraphQLSchema"]
    if not cls:
        fail("GraphQLSchema not found")
    res = {}
    for fn in [n for n in cls[0].body if isinstance(n, (ast.FunctionDef, ast.AsyncFunctionDef))]:
        if fn.name in ("_validate", "_validate_extensions"):
            for st in ast.walk(fn):
                if isinstance(st, ast.Assign) and any(isinstance(x, ast.Name) and x.id == "validators" for x in st.targets) \
                        and isinstance(st.value, ast.List):
                    res[fn.name] = [e.attr for e in st.value.elts if isinstance(e, ast.Attribute)]
        if fn.name == "bake":
            steps = []
            for n in ast.walk(fn):
                if isinstance(n, ast.Call) and isinstance(n.func, ast.Attribute) and isinstance(n.func.value, ast.Name) \
                        and n.func.value.id in ("self", "SchemaRegistry") and n.func.attr in (
                            "_inject_introspection_fields", "_validate_extensions", "_bake_extensions", "bake_registered_objects",
                            "_bake_types", "_validate"):
                    steps.append((n.lineno, n.func.attr))
            res["bake"] = [a for _l, a in sorted(steps)]
    for k in ("_validate", "_validate_extensions", "bake"):
        if k not in res:
            fail("could not extract " + k)
    return res


def main():
    repo, out = Path(sys.argv[1]), Path(sys.argv[2])
    tr = ast.parse((repo / "tartiflette/language/parsers/libgraphqlparser/transformers.py").read_text())
    sites = call_sites(tr)
    rs = rule_set(repo)
    sl = schema_lists(repo)
    text = "(* GENERATED by harness/wiring.py from the repository's current source -- do not edit *)\n" \
           "From Coq Require Import List String Bool.\nImport ListNotations.\nOpen Scope string_scope.\n\n"
    text += "Definition src_call_sites : list (string * string) :=\n  %s.\n\n" % cl(["(%s, %s)" % (cs(f), cs(r)) for f, r in sites])
    text += "Definition src_rule_set : list (string * bool) :=\n  %s.\n\n" % cl(
        ["(%s, %s)" % (cs(r), "true" if a else "false") for r, a in rs])
    text += "Definition src_schema_validators : list string :=\n  %s.\n\n" % cl([cs(x) for x in sl["_validate"]])
    text += "Definition src_extension_validators : list string :=\n  %s.\n\n" % cl([cs(x) for x in sl["_validate_extensions"]])
    text += "Definition src_bake_steps : list string :=\n  %s.\n" % cl([cs(x) for x in sl["bake"]])
    out.parent.mkdir(parents=True, exist_ok=True)
    out.write_text(text)


if __name__ == "__main__":
    main()
