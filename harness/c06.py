"""C06 — valid documents are never refused by validation.

Documents valid by construction (structured generator: fragment DAGs with sharing, the same
fragment spread several times, fragments defined after use, several named operations, variables
used only inside fragments, directives in every legal location, meta-fields and introspection
selections, identical repeated fields, one-response-key subscriptions) are sent to the real engine;
none may be answered with a validation error (an error carrying a rule tag, or the generic
error of a crashed rule).  Inside Coq each document is (a) checked against the specification model
(every rule of SpecValidate must hold: otherwise the generator is wrong, not the engine) and
(b) run through the implementation model of the validation walk, whose error set must equal the
engine's."""
import asyncio
import json
import random

from . import common, gen, valgen, valcheck
from .gen import N

C06_FILES = ["Properties/C06.v", "Proofs/ValidateProofs.v", "Proofs/ValidateRules.v", "Proofs/ValidateValues.v", "Proofs/ValidateSites.v", "Proofs/ValidateWalk.v", "Proofs/ValidateTree.v", "Proofs/SingleRoot.v", "Proofs/SingleRootSpreads.v", "Proofs/ValidateSpreads.v", "Proofs/ValidateScopes.v", "Proofs/ValidatePure.v", "Proofs/ValidateVars.v"]

INTROSPECTION_DOCS = [
    "{ __schema { queryType { name } mutationType { name } types { kind name fields(includeDeprecated: true) { name "
    "isDeprecated args { name defaultValue type { ...TR } } type { ...TR } } inputFields { name type { ...TR } } "
    "interfaces { name } enumValues { name } possibleTypes { name } } directives { name locations args { name } } } } "
    "fragment TR on __Type { kind name ofType { kind name ofType { kind name ofType { kind name } } } }",
    "query Q($n: String!) { __type(name: $n) { name kind fields { name } } __typename again: __type(name: \"Query\") { name } }",
    "{ a: __typename b: __typename ... on Query { __typename } }",
]


def hand_docs(s):
    """the constructions the property names, on any schema"""
    out = []
    for q in INTROSPECTION_DOCS:
        out.append({"text": q, "variables": {"n": "Query"}, "opname": None, "rule": None, "where": "introspection"})
    q = ("query A { ...F ...F ...G } query B { ...G ... on Query { ...F } } "
         "fragment G on Query { ...H ...H __typename } fragment F on Query { ...H } fragment H on Query { __typename }")
    out.append({"text": q, "variables": {}, "opname": "A", "rule": None, "where": "diamond, repeated spreads, defined after use"})
    return out


HAND_VALID_DOCS = [
    # an argument the object's own field declares (the interface's field does not), selected in the object's scope
    ('{ dog { name(lang: "fr") } }', {}),
    ('{ named { ... on Dog { name(lang: "x") } name } }', {}),
    ('{ pet { ...F } } fragment F on Dog { name(lang: null) }', {}),
    # variable usages 5.8.5 allows: a non-null (list) variable at a nullable (list) position, at every nesting level
    ("query ($v: [Int]!) { echo(l: $v) }", {"v": [1, None]}),
    ("query ($v: [Int!]!) { echo(l: $v) }", {"v": [1]}),
    ("query ($v: [Int!]) { echo(l: $v) }", {"v": None}),
    ("query ($v: Int!) { echo(l: [$v, 2]) }", {"v": 1}),
    ("query ($v: [In1!]!) { echo(i: {l: $v}) }", {"v": [{"y": True}]}),
    ("query ($v: Color!) { echo(c: $v) ...F } fragment F on Query { e2: echo(c: $v) }", {"v": "RED"}),
    ("query ($v: Int = 1) { echo(i: {r: $v}) }", {}),
]
SUBSCRIPTION_DOCS = [
    # ONE response key at the root, written several times / reached through fragments
    "subscription { a ... on Subscription { a } }",
    "subscription { a ...F } fragment F on Subscription { a }",
    "subscription { x: a ... { x: a } ...F } fragment F on Subscription { x: a ...G } fragment G on Subscription { x: a }",
    "subscription { ...F ...F } fragment F on Subscription { a }",
    "subscription { ... on Subscription { b } ... on Subscription { b } }",
    "subscription A { a a } subscription B { ...F b } fragment F on Subscription { b ... { b } }",
]


def cross_engine_schemas():
    """two schemas sharing type names whose possible types differ (engines live in one process and share the rule objects)"""
    from collections import OrderedDict

    def mk(members, impl):
        types = OrderedDict()
        for o in ("Cat", "Dog", "Bird"):
            types[o] = {"kind": "OBJECT", "interfaces": ["Named"] if o in impl else [], "fields": [
                {"name": "name", "type": N("String"), "args": []}]}
        types["Named"] = {"kind": "INTERFACE", "fields": [{"name": "name", "type": N("String"), "args": []}]}
        types["Pet"] = {"kind": "UNION", "members": members}
        types["Query"] = {"kind": "OBJECT", "interfaces": [], "fields": [
            {"name": "pet", "type": N("Pet"), "args": []}, {"name": "named", "type": N("Named"), "args": []}]}
        s = {"types": types, "query": "Query", "mutation": None, "subscription": None, "directives": []}
        s["resolvers"] = {("Query", "pet"), ("Query", "named")}
        s["type_resolvers"], s["field_type_resolvers"] = set(), set()
        return s
    a = mk(["Cat", "Dog"], ["Cat", "Dog"])
    b = mk(["Cat", "Bird"], ["Bird"])
    docs_a = ["{ pet { ...F } named { ... on Dog { name } } } fragment F on Dog { name }"]
    docs_b = ["{ pet { ...F ... on Bird { name } } named { ...G } } fragment F on Bird { name } fragment G on Bird { name }"]
    return (a, docs_a), (b, docs_b)


def gen_items(rng, s, n_docs):
    items = hand_docs(s)
    for k in range(n_docs + n_docs // 3):
        if k >= n_docs:
            doc = valgen.sharing_document(rng, s)
        else:
            doc = valgen.VDocGen(rng, s, max_depth=rng.choice([2, 3, 3, 4])).document()
        named = [o["name"] for o in doc["ops"] if o["name"]]
        opn = rng.choice(named) if len(doc["ops"]) > 1 else None
        items.append({"text": valgen.doc_text(doc), "variables": valgen.variables_for(rng, s, doc, opn), "opname": opn,
                      "rule": None, "where": "generated valid document", "doc": doc})
    return items


def features(doc):
    f = set()
    if len(doc["ops"]) > 1:
        f.add("multi-op")
    if doc["frags"]:
        f.add("fragments")
    spreads = []
    for o in doc["ops"]:
        spreads += valgen.spreads_in(o["sels"])
    for fr in doc["frags"]:
        spreads += valgen.spreads_in(fr["sels"])
        if valgen.spreads_in(fr["sels"]):
            f.add("nested-fragments")
    if len(spreads) != len(set(spreads)):
        f.add("fragment-spread-more-than-once")
    for o in doc["ops"]:
        direct = []
        valgen.vars_in_dirs(o["dirs"], direct)
        valgen.vars_in_sels(o["sels"], direct)
        if set(v["name"] for v in o["vars"]) - set(direct):
            f.add("variable-only-in-fragment")
        if o["kind"] == "subscription":
            f.add("subscription")
        if o["dirs"]:
            f.add("operation-directive")
    if any(fr["dirs"] for fr in doc["frags"]):
        f.add("fragment-definition-directive")
    return f


def main(tier_, replay=None):
    from . import engine_env
    rep = common.Report("C06")
    seed = common.seed()
    b = common.build(["Properties/C06.vo", "Model/RunValidate.vo", "Model/StdScalars.vo"])
    gate = common.grep_gate()
    proofs_ok = b["ok"] and not gate
    engine_env.setup()
    rng = random.Random(seed * 7919 + 6)
    n_schemas, n_docs = (4, 40) if tier_ == "quick" else (30, 120)
    if replay:
        return valcheck.replay("C06", replay)
    batches, feats = [], {}
    for _si in range(n_schemas):
        s = valgen.gen_val_schema(rng)
        items = gen_items(rng, s, n_docs)
        obs = asyncio.run(valcheck.run_docs(s, items))
        batches.append((s, list(zip(items, obs))))
        for it in items:
            if "doc" in it:
                for k in features(it["doc"]):
                    feats[k] = feats.get(k, 0) + 1
    # the same type names with other possible types on a second engine of the same process, in both orders
    for order in (0, 1):
        pair = cross_engine_schemas()
        for s, docs in (pair if order == 0 else pair[::-1]):
            items = [{"text": q, "variables": {}, "opname": None, "rule": None,
                      "where": "second engine sharing type names with another schema (order %d)" % order} for q in docs]
            obs = asyncio.run(valcheck.run_docs(s, items))
            batches.append((s, list(zip(items, obs))))
    # subscriptions whose single response key is written several times (hand schema with a Subscription type)
    from . import c07
    ws = c07.witness_schema()
    items = [{"text": q, "variables": {}, "opname": "A" if "subscription A" in q else None, "rule": None,
              "where": "one subscription response key written several times"} for q in SUBSCRIPTION_DOCS]
    items += [{"text": q, "variables": v, "opname": None, "rule": None, "where": "hand-written valid document"}
              for q, v in HAND_VALID_DOCS]
    batches.append((ws, list(zip(items, asyncio.run(valcheck.run_docs(ws, items))))))
    problems = valcheck.evaluate("C06_s%d" % seed, batches)
    for fname, err in problems[:2]:
        rep.violation({"property": "C06", "what": "case file failed to evaluate", "file": fname, "stderr": err}, no_input=True)
    total = gen_invalid = refused_valid = 0
    distinct_valid = set()
    viol, mism = [], []
    for s, pairs in batches:
        for it, o in pairs:
            total += 1
            if o.get("mask") is None:
                continue
            if o["mask"] != 0:
                gen_invalid += 1          # the generator's fault: the specification model rejects the document
                continue
            distinct_valid.add((id(s), it["text"], json.dumps(it["variables"], sort_keys=True, default=repr), it["opname"]))
            if o["tagged"] or o["crash"] or o["syntax"] or o["raised"]:
                refused_valid += 1
                viol.append((s, it, o))
            elif not o["agree"]:
                mism.append((s, it, o))
    for s, it, o in viol[:5]:
        rep.violation({"property": "C06", "what": "a document satisfying every rule of the specification model was refused by validation",
                       "sdl": valgen.full_sdl(s), "query": it["text"], "variables": it["variables"], "operation_name": it["opname"],
                       "response": o["response"], "construction": it["where"]})
    if not viol and not problems:
        if not proofs_ok:
            rep.violation({"property": "C06", "what": "proof obligation no longer checks", "file": b.get("failed_file"),
                           "theorem": b.get("failed_lemma"), "gate": gate, "log_tail": b["log"][-1500:]}, no_input=True)
        elif mism:
            s, it, o = mism[0]
            rep.violation({"property": "C06", "what": "correspondence broken: the implementation model of the validation walk and "
                           "the engine report different error sets", "n": len(mism), "sdl": valgen.full_sdl(s), "query": it["text"],
                           "engine_errors": o["response"].get("errors")}, no_input=True)
        elif gen_invalid * 10 > total:
            rep.violation({"property": "C06", "what": "the generator produced too many documents the specification model rejects",
                           "n": gen_invalid, "of": total}, no_input=True)
    nob, names = common.count_obligations(C06_FILES)
    assum = common.assumptions("Properties/C06.v") if b["ok"] else {"closed": 0, "axioms": ["build failed"]}
    common.write_evidence("C06", tier_, "proof", {
        "obligations": nob, "discharged": nob if proofs_ok else 0, "checker_cmd": "make Properties/C06.vo",
        "trusted_base": common.TRUSTED_BASE + [
            "Print Assumptions: %d theorems closed; axioms: %s" % (assum["closed"], assum["axioms"] or "none")],
        "theorems": [n for n in names if n.startswith("C06_")],
        "evaluations": total, "distinct_nontrivial": len(distinct_valid),
        "rule": "valid-by-construction documents (+ fixed introspection / diamond documents per schema) on generated schemas with "
                "interfaces, unions, input objects, custom directives in all 7 executable locations; non-trivial = the "
                "specification model accepts the document (all 25 rules)",
        "traces_validated_against_impl": total, "generator_rejected_by_spec_model": gen_invalid,
        "valid_documents_refused": refused_valid, "impl_model_mismatches": len(mism), "feature_counts": feats,
        "samples": [it["text"][:300] for _s, pairs in batches[:1] for it, _o in pairs[4:7]],
    }, rep.wall(), violations=len(rep.violations),
        assumptions_=["parser stand-in decides which texts parse; field-selection-merging (5.3.2) is not implemented by the "
                      "engine: generated documents satisfy it by construction"])
    return rep.finish()
