"""Shared plumbing of the checks: paths, Coq build, running generated case files,
evidence and replay files, known findings."""
import fcntl
import hashlib
import json
import os
import re
import subprocess
import sys
import time
from pathlib import Path

VERIF = Path(__file__).resolve().parent.parent
COQ = VERIF / "coq"
RUN = COQ / "Run"
REPO = Path(os.environ.get("VERIF_REPO", "/repo"))
EVIDENCE = VERIF / "evidence"
REPLAY = EVIDENCE / "replay"
PY = "/venv/bin/python"
COQ_TIMEOUT = int(os.environ.get("VERIF_COQ_TIMEOUT", "900"))

TRUSTED_BASE = [
    "Coq 8.16.1 kernel incl. vm_compute (no native_compute)",
    "harness/translate.py (Python ast -> Gallina, fail-closed subset) and coq/Py/Prelude.v "
    "(hand-written semantics of the Python builtins the scalars use)",
    "correspondence check: generators, Coq term printer, canonicaliser (differential testing "
    "of the hand-written impl model against the real engine)",
    "parser stand-in for the absent libgraphqlparser (harness/gqlshim)",
    "oracles: float(str), str(value), user resolvers/hooks, asyncio, lark SDL parser",
]


def seed() -> int:
    try:
        return int(os.environ.get("VERIF_SEED", "0"))
    except ValueError:
        return 0


def tier(default="quick") -> str:
    t = os.environ.get("VERIF_TIER", default)
    return t if t in ("quick", "thorough") else default


# ---------------------------------------------------------------- Coq build
def _lock():
    COQ.mkdir(exist_ok=True)
    f = open(COQ / ".build.lock", "w")
    fcntl.flock(f, fcntl.LOCK_EX)
    return f


def regenerate():
    """Regenerate coq/Gen/*.v from the repository's current working tree.
    Returns (ok, message)."""
    msgs = []
    ok = True
    r = subprocess.run(
        [sys.executable, str(VERIF / "harness" / "translate.py"), str(REPO),
         str(COQ / "Gen" / "Scalars_gen.v")],
        capture_output=True, text=True)
    if r.returncode != 0:
        ok = False
        msgs.append(r.stderr.strip())
    wiring = VERIF / "harness" / "wiring.py"
    if wiring.exists():
        r = subprocess.run(
            [sys.executable, str(wiring), str(REPO), str(COQ / "Gen" / "Wiring_gen.v")],
            capture_output=True, text=True)
        if r.returncode != 0:
            ok = False
            msgs.append(r.stderr.strip())
    return ok, "\n".join(msgs)


def coq_files():
    files = []
    for sub in ("Py", "Gen", "Model", "Proofs", "Properties"):
        files += sorted(str(p.relative_to(COQ)) for p in (COQ / sub).glob("*.v"))
    return files


def ensure_makefile():
    proj = "-Q . TV\n" + "\n".join(coq_files()) + "\n"
    p = COQ / "_CoqProject"
    if not p.exists() or p.read_text() != proj or not (COQ / "Makefile").exists():
        p.write_text(proj)
        subprocess.run(["coq_makefile", "-f", "_CoqProject", "-o", "Makefile"],
                       cwd=COQ, check=True, capture_output=True)


def build(targets, jobs=8):
    """Regenerate + make the given .vo targets.  Returns dict(ok, log, failed_file,
    failed_lemma, gen_ok, gen_msg)."""
    lock = _lock()
    try:
        gen_ok, gen_msg = regenerate()
        ensure_makefile()
        res = {"gen_ok": gen_ok, "gen_msg": gen_msg, "ok": False, "log": "",
               "failed_file": None, "failed_lemma": None}
        if not gen_ok:
            res["log"] = gen_msg
            res["failed_file"] = "Gen (translator)"
            return res
        r = subprocess.run(
            ["timeout", str(COQ_TIMEOUT), "make", "-j%d" % jobs] + list(targets),
            cwd=COQ, capture_output=True, text=True)
        res["log"] = (r.stdout[-6000:] + "\n" + r.stderr[-6000:])
        res["ok"] = r.returncode == 0
        if not res["ok"]:
            m = re.search(r'File "\./([^"]+)", line (\d+)', r.stderr)
            if m:
                res["failed_file"] = m.group(1)
                res["failed_line"] = int(m.group(2))
            m = re.search(r"\(in proof (\w+)\)", r.stderr)
            if m:
                res["failed_lemma"] = m.group(1)
            elif m is None and res.get("failed_file"):
                res["failed_lemma"] = lemma_at(res["failed_file"], res.get("failed_line", 0))
        if res["ok"] and tier() == "thorough":
            # the independent checker re-checks the compiled property modules and everything they depend on
            mods = ["TV." + t[:-3].replace("/", ".") for t in targets if t.startswith("Properties/")]
            if mods:
                ck = coqchk(mods)
                LAST_COQCHK.update(ck)
                if not ck["ok"]:
                    res["ok"] = False
                    res["failed_file"] = "coqchk " + " ".join(mods)
                    res["log"] += "\n" + ck["raw"][-3000:]
        return res
    finally:
        lock.close()


LAST_COQCHK = {}


def coqchk(modules):
    """coqchk -o: ok iff it accepts the modules and reports no axiom, no type-in-type, no unsafe fixpoint, no assumed
    positivity."""
    r = subprocess.run(["timeout", "3000", "coqchk", "-silent", "-o", "-Q", ".", "TV"] + list(modules),
                       cwd=COQ, capture_output=True, text=True)
    out = r.stdout + r.stderr
    sections = dict(re.findall(r"\* ([^:\n]+):\s*(.*?)\n\s*\n", out + "\n\n", re.S))
    clean = r.returncode == 0 and all("<none>" in sections.get(k, "") for k in (
        "Axioms", "Constants/Inductives relying on type-in-type", "Constants/Inductives relying on unsafe (co)fixpoints",
        "Inductives whose positivity is assumed"))
    return {"ok": clean, "modules": list(modules), "axioms": sections.get("Axioms", "?").strip(), "raw": out}


def lemma_at(relfile, line):
    try:
        lines = (COQ / relfile).read_text().splitlines()
    except OSError:
        return None
    for i in range(min(line, len(lines)) - 1, -1, -1):
        m = re.match(r"\s*(Lemma|Theorem|Corollary|Example|Definition|Fixpoint)\s+(\w+)", lines[i])
        if m:
            return m.group(2)
    return None


GATE_RE = re.compile(r"\b(Admitted|admit|Axiom|Parameter|Conjecture|Unset Guard|bypass_check|Admit Obligations)\b")


def grep_gate():
    """No escape hatches anywhere in the development."""
    bad = []
    for f in coq_files():
        for i, line in enumerate((COQ / f).read_text().splitlines(), 1):
            code = re.sub(r"\(\*.*?\*\)", "", line)
            if GATE_RE.search(code):
                bad.append("%s:%d: %s" % (f, i, line.strip()))
    return bad


def assumptions(property_file):
    """Recompile the property file alone and return the Print Assumptions blocks."""
    r = subprocess.run(["timeout", "300", "coqc", "-Q", ".", "TV", property_file],
                       cwd=COQ, capture_output=True, text=True)
    out = r.stdout
    closed = out.count("Closed under the global context")
    axioms = re.findall(r"^Axioms:\n((?:.+\n)+)", out, re.M)
    return {"ok": r.returncode == 0, "closed": closed, "axioms": axioms, "raw": out[-3000:]}


def count_obligations(files):
    """Number of Lemma/Theorem/Corollary/Example statements in the given files."""
    n = 0
    names = []
    for f in files:
        p = COQ / f
        if not p.exists():
            continue
        for m in re.finditer(r"^\s*(Lemma|Theorem|Corollary|Example)\s+(\w+)", p.read_text(), re.M):
            n += 1
            names.append(m.group(2))
    return n, names


# ---------------------------------------------------------------- running cases in Coq
def run_coq(name, text, timeout=600):
    """Write coq/Run/<name>.v, compile it, return (ok, stdout, stderr)."""
    RUN.mkdir(exist_ok=True)
    path = RUN / (name + ".v")
    path.write_text(text)
    r = subprocess.run(
        ["timeout", str(timeout), "coqc", "-Q", ".", "TV", "Run/%s.v" % name],
        cwd=COQ, capture_output=True, text=True)
    for ext in (".vo", ".vok", ".vos", ".glob"):
        try:
            (RUN / (name + ext)).unlink()
        except OSError:
            pass
    try:
        (RUN / ("." + name + ".aux")).unlink()
    except OSError:
        pass
    # the generated case file is kept only when it failed to evaluate (disk: a thorough pass writes several GB of them);
    # VERIF_KEEP_RUN=1 keeps everything for debugging
    if r.returncode == 0 and not os.environ.get("VERIF_KEEP_RUN"):
        try:
            path.unlink()
        except OSError:
            pass
    return r.returncode == 0, r.stdout, r.stderr


def run_coq_many(files, timeout=600, workers=int(os.environ.get("VERIF_COQ_WORKERS", "6"))):
    """files: list of (name, text).  Compiles them in parallel; returns list of
    (ok, stdout, stderr) in order."""
    from concurrent.futures import ThreadPoolExecutor
    with ThreadPoolExecutor(max_workers=workers) as ex:
        return list(ex.map(lambda nt: run_coq(nt[0], nt[1], timeout), files))


def parse_Z_list(out, label):
    """Parse `label = [1; 2; 3]` style output of  Eval vm_compute in (label, list)."""
    m = re.search(r"\(\s*\"%s\"\s*,\s*\[(.*?)\]\s*\)" % re.escape(label), out, re.S)
    if not m:
        return None
    body = m.group(1).strip()
    if not body:
        return []
    return [int(x.strip().strip("()").replace("%Z", "").replace("%nat", "")) for x in body.split(";") if x.strip()]


# ---------------------------------------------------------------- evidence / replay
def write_evidence(pid, tier_, level, coverage, wall_s, violations=0, assumptions_=None):
    EVIDENCE.mkdir(exist_ok=True)
    ev = {
        "property_id": pid,
        "tier": tier_,
        "seed": seed(),
        "level": level,
        "coverage": dict(coverage, **({"coqchk": {k: LAST_COQCHK[k] for k in ("ok", "modules", "axioms")}}
                                      if LAST_COQCHK else {})),
        "assumptions": assumptions_ or [],
        "wall_s": round(wall_s, 2),
        "violations": violations,
    }
    (EVIDENCE / (pid + ".json")).write_text(json.dumps(ev, indent=1, default=str) + "\n")
    return ev


def write_replay(pid, obj):
    REPLAY.mkdir(parents=True, exist_ok=True)
    blob = json.dumps(obj, indent=1, sort_keys=True, default=str)
    h = hashlib.sha1(blob.encode()).hexdigest()[:12]
    p = REPLAY / ("%s-%s.json" % (pid, h))
    p.write_text(blob + "\n")
    return p


def known_findings(pid):
    p = VERIF / "known_findings.json"
    if not p.exists():
        return []
    data = json.loads(p.read_text())
    return [f for f in data.get("findings", []) if f.get("property") == pid]


class Report:
    """Collects the outcome of one check run and prints the interface lines."""

    def __init__(self, pid):
        self.pid = pid
        self.t0 = time.time()
        self.violations = []   # (replay_path, note)
        self.known = []        # text

    def violation(self, replay_obj, no_input=False):
        p = write_replay(self.pid, replay_obj)
        self.violations.append((p, no_input))

    def known_finding(self, text):
        self.known.append(text)

    def finish(self):
        for k in self.known:
            print("KNOWN-FINDING: property=%s %s" % (self.pid, k))
        for p, no_input in self.violations:
            print("VIOLATION property=%s replay=%s%s" % (
                self.pid, p, " no-failing-input-found" if no_input else ""))
        sys.stdout.flush()
        return 1 if self.violations else 0

    def wall(self):
        return time.time() - self.t0
