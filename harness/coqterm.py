"""Printing Python values as Gallina terms of the model (coq/Py/Prelude.v)."""
import math


def coq_string(s) -> str:
    """A Coq term of type `string` for a Python str (UTF-8 bytes) or bytes."""
    b = s.encode("utf-8", "surrogatepass") if isinstance(s, str) else bytes(s)
    if all(32 <= c < 127 for c in b):
        return '"' + b.decode("ascii").replace('"', '""') + '"'
    return "(sb [" + ";".join(str(c) for c in b) + "]%N)"


def coq_Z(z: int) -> str:
    return "(%d)" % z


def coq_bool(b) -> str:
    return "true" if b else "false"


def coq_float(x: float) -> str:
    """Canonical binary64 as SpecFloat.spec_float data."""
    if math.isnan(x):
        return "S754_nan"
    if math.isinf(x):
        return "(S754_infinity %s)" % coq_bool(x < 0)
    if x == 0.0:
        return "(S754_zero %s)" % coq_bool(math.copysign(1.0, x) < 0)
    m, e = math.frexp(abs(x))  # abs(x) = m * 2**e, 0.5 <= m < 1
    mant = int(m * (1 << 53))  # exact: 53-bit integer
    exp = e - 53
    if exp < -1074:  # subnormal: shift mantissa down
        shift = -1074 - exp
        assert mant % (1 << shift) == 0
        mant >>= shift
        exp = -1074
    return "(S754_finite %s %d (%d))" % (coq_bool(x < 0), mant, exp)


def coq_list(items) -> str:
    return "[" + "; ".join(items) + "]"


def coq_option(x) -> str:
    return "None" if x is None else "(Some %s)" % x


class Opaque:
    """Marker for Python values outside the modelled kinds (bytes, tuple, set, ...)."""

    def __init__(self, tag):
        self.tag = tag


def coq_pyval(v, ast_kinds=None) -> str:
    """Python value -> `pyval` term.  Unmodelled kinds become POpaque <type name>."""
    from_ast = ast_kinds or {}
    if v is None:
        return "PNone"
    if v is True or v is False:
        return "(PBool %s)" % coq_bool(v)
    if isinstance(v, int):
        return "(PInt %s)" % coq_Z(v)
    if isinstance(v, float):
        return "(PFloat %s)" % coq_float(v)
    if isinstance(v, str):
        return "(PStr %s)" % coq_string(v)
    if isinstance(v, list):
        return "(PList %s)" % coq_list([coq_pyval(x) for x in v])
    if isinstance(v, dict):
        if all(isinstance(k, str) for k in v):
            return "(PDict %s)" % coq_list(
                ["(%s, %s)" % (coq_string(k), coq_pyval(x)) for k, x in v.items()]
            )
        return '(POpaque "dict-nonstr-keys")'
    if isinstance(v, Opaque):
        return "(POpaque %s)" % coq_string(v.tag)
    if isinstance(v, AstNode):
        return "(PAst %s %s)" % (v.kind, coq_pyval(v.value))
    if is_undefined(v):
        return "PUndef"
    if isinstance(v, BaseException):
        return "(PExc %s)" % coq_exc(v)
    return "(POpaque %s)" % coq_string(type(v).__name__)


def is_undefined(v) -> bool:
    import sys
    mod = sys.modules.get("tartiflette.constants")
    return mod is not None and v is mod.UNDEFINED_VALUE


class AstNode:
    """An AST value node as the model sees it: kind constructor name + .value."""

    def __init__(self, kind, value):
        self.kind, self.value = kind, value


def coq_exc(e) -> str:
    name = type(e).__name__ if isinstance(e, BaseException) else str(e)
    if name in ("TypeError", "ValueError", "OverflowError", "KeyError", "AttributeError"):
        return name
    return "(UserErr %s)" % coq_string(name)


HEADER = """From Coq Require Import ZArith List String Ascii Bool SpecFloat NArith.
From TV Require Import Py.Prelude.
Import ListNotations.
Open Scope string_scope.
Open Scope Z_scope.
Definition sb (l : list N) : string := string_of_list_ascii (map ascii_of_N l).
"""
