"""Generators and printers shared by the correspondence checks.

Python-side representations
  type      : ("named", n) | ("list", t) | ("nonnull", t)
  literal   : ("int", z) ("float", x) ("str", s) ("bool", b) ("null",) ("enum", s)
              ("list", [lit]) ("obj", [(k, lit)]) ("var", name)
  schema    : dict(types=OrderedDict name -> typedef dict, query=..., mutation=..., subscription=...)
"""
import json
import math
from collections import OrderedDict

from .coqterm import coq_string, coq_Z, coq_float, coq_list, coq_option, coq_pyval, coq_bool

BUILTIN_SCALARS = ["Int", "Float", "String", "Boolean", "ID"]


# ------------------------------------------------------------------ types
def N(n):
    return ("named", n)


def L(t):
    return ("list", t)


def NN(t):
    return ("nonnull", t)


def named_of(t):
    while t[0] != "named":
        t = t[1]
    return t[1]


def type_sdl(t):
    if t[0] == "named":
        return t[1]
    if t[0] == "list":
        return "[%s]" % type_sdl(t[1])
    return type_sdl(t[1]) + "!"


def type_coq(t):
    if t[0] == "named":
        return "(TNamed %s)" % coq_string(t[1])
    if t[0] == "list":
        return "(TList %s)" % type_coq(t[1])
    return "(TNonNull %s)" % type_coq(t[1])


# ------------------------------------------------------------------ literals
def lit_sdl(x):
    k = x[0]
    if k == "int":
        return str(x[1])
    if k == "float":
        r = repr(float(x[1]))
        return r
    if k == "str":
        return json.dumps(x[1])
    if k == "bool":
        return "true" if x[1] else "false"
    if k == "null":
        return "null"
    if k == "enum":
        return x[1]
    if k == "list":
        return "[" + ", ".join(lit_sdl(i) for i in x[1]) + "]"
    if k == "obj":
        return "{" + ", ".join("%s: %s" % (n, lit_sdl(v)) for n, v in x[1]) + "}"
    if k == "var":
        return "$" + x[1]
    raise ValueError(x)


LOC0 = "(0, 0)%Z"


def lit_coq_sdl(x):
    """A literal as the SDL (lark) parser builds it: ints and floats are cast."""
    k = x[0]
    if k == "int":
        return "(LInt %s (PInt %s))" % (LOC0, coq_Z(x[1]))
    if k == "float":
        return "(LFloat %s (PFloat %s))" % (LOC0, coq_float(float(x[1])))
    if k == "str":
        return "(LStr %s %s)" % (LOC0, coq_string(x[1]))
    if k == "bool":
        return "(LBool %s %s)" % (LOC0, coq_bool(x[1]))
    if k == "null":
        return "(LNull %s)" % LOC0
    if k == "enum":
        return "(LEnum %s %s)" % (LOC0, coq_string(x[1]))
    if k == "list":
        return "(LList %s %s)" % (LOC0, coq_list([lit_coq_sdl(i) for i in x[1]]))
    if k == "obj":
        return "(LObj %s %s)" % (LOC0, coq_list(
            ["(%s, %s)" % (coq_string(n), lit_coq_sdl(v)) for n, v in x[1]]))
    raise ValueError(x)


# ------------------------------------------------------------------ schema printing
def schema_sdl(s):
    out = []
    for name, d in s["types"].items():
        k = d["kind"]
        if k == "SCALAR":
            if name not in BUILTIN_SCALARS:
                out.append("scalar %s" % name)
        elif k == "ENUM":
            out.append("enum %s { %s }" % (name, " ".join(d["values"])))
        elif k == "INPUT":
            out.append("input %s {\n%s\n}" % (name, "\n".join(
                "  %s: %s%s" % (f["name"], type_sdl(f["type"]),
                                " = " + lit_sdl(f["default"]) if f.get("default") is not None else "")
                for f in d["fields"])))
        elif k in ("OBJECT", "INTERFACE"):
            head = ("type %s" % name) if k == "OBJECT" else ("interface %s" % name)
            if k == "OBJECT" and d.get("interfaces"):
                head += " implements " + " & ".join(d["interfaces"])
            fl = []
            for f in d["fields"]:
                args = ""
                if f.get("args"):
                    args = "(" + ", ".join(
                        "%s: %s%s" % (a["name"], type_sdl(a["type"]),
                                      " = " + lit_sdl(a["default"]) if a.get("default") is not None else "")
                        for a in f["args"]) + ")"
                fl.append("  %s%s: %s" % (f["name"], args, type_sdl(f["type"])))
            out.append(head + " {\n" + "\n".join(fl) + "\n}")
        elif k == "UNION":
            out.append("union %s = %s" % (name, " | ".join(d["members"])))
    root = ["query: %s" % s["query"]]
    if s.get("mutation"):
        root.append("mutation: %s" % s["mutation"])
    if s.get("subscription"):
        root.append("subscription: %s" % s["subscription"])
    out.append("schema { %s }" % " ".join(root))
    return "\n".join(out) + "\n"


def input_def_coq(f):
    return "{| in_name := %s; in_type := %s; in_default := %s |}" % (
        coq_string(f["name"]), type_coq(f["type"]),
        coq_option(lit_coq_sdl(f["default"]) if f.get("default") is not None else None))


def field_def_coq(f):
    return "{| fd_name := %s; fd_type := %s; fd_args := %s |}" % (
        coq_string(f["name"]), type_coq(f["type"]),
        coq_list([input_def_coq(a) for a in f.get("args", [])]))


def schema_coq(s, scalars_term="std_scalars O"):
    tl = []
    for b in BUILTIN_SCALARS:
        if b not in s["types"]:
            tl.append("(%s, DScalar)" % coq_string(b))
    for name, d in s["types"].items():
        k = d["kind"]
        if k == "SCALAR":
            body = "DScalar"
        elif k == "ENUM":
            body = "DEnum %s" % coq_list([coq_string(v) for v in d["values"]])
        elif k == "INPUT":
            body = "DInput %s" % coq_list([input_def_coq(f) for f in d["fields"]])
        elif k == "OBJECT":
            body = "DObject %s %s" % (coq_list([coq_string(i) for i in d.get("interfaces", [])]),
                                      coq_list([field_def_coq(f) for f in d["fields"]]))
        elif k == "INTERFACE":
            body = "DInterface %s" % coq_list([field_def_coq(f) for f in d["fields"]])
        else:
            body = "DUnion %s" % coq_list([coq_string(m) for m in d["members"]])
        tl.append("(%s, %s)" % (coq_string(name), body))
    return ("{| types := %s; query_type := %s; mutation_type := %s; subscription_type := %s; "
            "scalars := %s |}") % (
        coq_list(tl), coq_string(s["query"]),
        coq_option(coq_string(s["mutation"]) if s.get("mutation") else None),
        coq_option(coq_string(s["subscription"]) if s.get("subscription") else None),
        scalars_term)


# ------------------------------------------------------------------ JSON AST -> Coq document
def loc_coq(node):
    st = node["loc"]["start"]
    return "(%d, %d)%%Z" % (st["line"], st["column"])


def value_coq(v):
    k = v["kind"]
    l = loc_coq(v)
    if k == "Variable":
        return "(LVar %s %s)" % (l, coq_string(v["name"]["value"]))
    if k == "IntValue":
        return "(LInt %s (PStr %s))" % (l, coq_string(v["value"]))
    if k == "FloatValue":
        return "(LFloat %s (PStr %s))" % (l, coq_string(v["value"]))
    if k == "StringValue":
        return "(LStr %s %s)" % (l, coq_string(v["value"]))
    if k == "BooleanValue":
        return "(LBool %s %s)" % (l, coq_bool(v["value"]))
    if k == "NullValue":
        return "(LNull %s)" % l
    if k == "EnumValue":
        return "(LEnum %s %s)" % (l, coq_string(v["value"]))
    if k == "ListValue":
        return "(LList %s %s)" % (l, coq_list([value_coq(i) for i in v["values"]]))
    if k == "ObjectValue":
        return "(LObj %s %s)" % (l, coq_list(
            ["(%s, %s)" % (coq_string(f["name"]["value"]), value_coq(f["value"])) for f in v["fields"]]))
    raise ValueError(k)


def lexemes_in_value(v, acc):
    k = v["kind"]
    if k in ("IntValue", "FloatValue"):
        acc.add(v["value"])
    elif k == "ListValue":
        for i in v["values"]:
            lexemes_in_value(i, acc)
    elif k == "ObjectValue":
        for f in v["fields"]:
            lexemes_in_value(f["value"], acc)


def type_node_coq(t):
    k = t["kind"]
    if k == "NamedType":
        return "(TNamed %s)" % coq_string(t["name"]["value"])
    if k == "ListType":
        return "(TList %s)" % type_node_coq(t["type"])
    return "(TNonNull %s)" % type_node_coq(t["type"])


def directive_coq(d):
    return "{| d_name := %s; d_args := %s; d_loc := %s |}" % (
        coq_string(d["name"]["value"]),
        coq_list(["(%s, %s)" % (coq_string(a["name"]["value"]), value_coq(a["value"]))
                  for a in (d.get("arguments") or [])]),
        loc_coq(d))


def directives_coq(ds):
    return coq_list([directive_coq(d) for d in (ds or [])])


def selection_coq(s):
    k = s["kind"]
    if k == "Field":
        return "(SField %s %s %s %s %s %s)" % (
            loc_coq(s),
            coq_option(coq_string(s["alias"]["value"]) if s.get("alias") else None),
            coq_string(s["name"]["value"]),
            coq_list(["{| a_name := %s; a_value := %s; a_loc := %s |}" % (
                coq_string(a["name"]["value"]), value_coq(a["value"]), loc_coq(a))
                for a in (s.get("arguments") or [])]),
            directives_coq(s.get("directives")),
            selset_coq(s.get("selectionSet")))
    if k == "FragmentSpread":
        return "(SSpread %s %s %s)" % (loc_coq(s), coq_string(s["name"]["value"]),
                                       directives_coq(s.get("directives")))
    if k == "InlineFragment":
        tc = s.get("typeCondition")
        return "(SInline %s %s %s %s)" % (
            loc_coq(s), coq_option(coq_string(tc["name"]["value"]) if tc else None),
            directives_coq(s.get("directives")), selset_coq(s.get("selectionSet")))
    raise ValueError(k)


def selset_coq(ss):
    if not ss:
        return "[]"
    return coq_list([selection_coq(s) for s in ss["selections"]])


def document_coq(ast):
    ops, frags = [], []
    for d in ast["definitions"]:
        if d["kind"] == "OperationDefinition":
            kind = {"query": "OpQuery", "mutation": "OpMutation", "subscription": "OpSubscription"}[d["operation"]]
            vds = []
            for vd in d.get("variableDefinitions") or []:
                vds.append("{| v_name := %s; v_type := %s; v_default := %s; v_loc := %s |}" % (
                    coq_string(vd["variable"]["name"]["value"]), type_node_coq(vd["type"]),
                    coq_option(value_coq(vd["defaultValue"]) if vd.get("defaultValue") else None),
                    loc_coq(vd)))
            ops.append("{| o_kind := %s; o_name := %s; o_vars := %s; o_dirs := %s; o_sels := %s; o_loc := %s |}" % (
                kind, coq_option(coq_string(d["name"]["value"]) if d.get("name") else None),
                coq_list(vds), directives_coq(d.get("directives")), selset_coq(d["selectionSet"]),
                loc_coq(d)))
        elif d["kind"] == "FragmentDefinition":
            frags.append("{| fr_name := %s; fr_type := %s; fr_dirs := %s; fr_sels := %s; fr_loc := %s |}" % (
                coq_string(d["name"]["value"]), coq_string(d["typeCondition"]["name"]["value"]),
                directives_coq(d.get("directives")), selset_coq(d["selectionSet"]), loc_coq(d)))
    return "{| operations := %s; fragments := %s |}" % (coq_list(ops), coq_list(frags))


def all_lexemes(ast):
    acc = set()

    def walk(n):
        if isinstance(n, dict):
            if n.get("kind") in ("IntValue", "FloatValue"):
                acc.add(n["value"])
            for v in n.values():
                walk(v)
        elif isinstance(n, list):
            for v in n:
                walk(v)

    walk(ast)
    return acc


def parse_query(text):
    from .gqlshim import pyparser
    return json.loads(pyparser.parse_to_json(text.encode("utf-8") if isinstance(text, str) else text))


# ------------------------------------------------------------------ input-side schema generator
def gen_input_schema(rng, n_inputs=3, n_enums=2, p_bad_default=0.0):
    """A schema whose Query type has one probe field per input type shape."""
    types = OrderedDict()
    enums = []
    for i in range(n_enums):
        name = "E%d" % i
        vals = rng.sample(["RED", "GREEN", "BLUE", "A", "B", "true_", "null_", "X1"], rng.randrange(1, 4))
        types[name] = {"kind": "ENUM", "values": vals}
        enums.append(name)
    inputs = []
    leaf_pool = list(BUILTIN_SCALARS) + enums
    for i in range(n_inputs):
        name = "In%d" % i
        fields = []
        for j in range(rng.randrange(1, 5)):
            choices = leaf_pool + inputs + ([name] if rng.random() < 0.4 else [])
            t = wrap_random(rng, N(rng.choice(choices)), maxdepth=2)
            if named_of(t) == name:
                # self-reference must stay nullable somewhere to be satisfiable
                t = strip_outer_nonnull(t)
            f = {"name": "f%d" % j, "type": t, "default": None}
            fields.append(f)
        types[name] = {"kind": "INPUT", "fields": fields}
        inputs.append(name)
    # defaults are generated once every type exists
    s = {"types": types, "query": "Query", "mutation": None, "subscription": None}
    for name in inputs:
        for f in types[name]["fields"]:
            if rng.random() < 0.45 and named_of(f["type"]) not in inputs:
                f["default"] = gen_literal(rng, s, f["type"], good=rng.random() >= p_bad_default, for_sdl=True)
    if p_bad_default > 0 and inputs:
        # one field whose default is ALWAYS an invalid literal of its type (on the input type nobody else refers to):
        # an object omitting it must be refused, never delivered with an "undefined" entry
        types[inputs[-1]]["fields"].append({"name": "fbad", "type": rng.choice([N("Int"), L(NN(N("Int"))), N("Boolean")]),
                                            "default": ("str", "x")})
    # probe fields
    shapes = []
    for leaf in leaf_pool + inputs:
        shapes.append(N(leaf))
        for _ in range(2):
            shapes.append(wrap_random(rng, N(leaf), maxdepth=3, force=True))
    seen, uniq = set(), []
    for t in shapes:
        if type_sdl(t) not in seen:
            seen.add(type_sdl(t))
            uniq.append(t)
    qfields = []
    for i, t in enumerate(uniq):
        arg = {"name": "x", "type": t, "default": None}
        if rng.random() < 0.3 and named_of(t) not in inputs:
            arg["default"] = gen_literal(rng, s, t, good=True, for_sdl=True)
        qfields.append({"name": "p%d" % i, "type": N("Int"), "args": [arg]})
    types["Query"] = {"kind": "OBJECT", "interfaces": [], "fields": qfields}
    return s


def strip_outer_nonnull(t):
    return t[1] if t[0] == "nonnull" else t


def wrap_random(rng, t, maxdepth=3, force=False):
    d = rng.randrange(1 if force else 0, maxdepth + 1)
    for _ in range(d):
        if t[0] == "nonnull" or rng.random() < 0.6:
            t = L(t) if rng.random() < 0.75 or t[0] == "nonnull" else t
        else:
            t = NN(t)
    if rng.random() < 0.25 and t[0] != "nonnull":
        t = NN(t)
    return t


INT_GOOD = [0, 1, -1, 7, 2**31 - 1, -(2**31), 42]
INT_BAD = [2**31, -(2**31) - 1, 10**20]
FLOAT_GOOD = [0.0, 1.5, -2.25, 3.0, 1e10, 0.1]
STR_GOOD = ["", "abc", "RED", "12", "é", "a b"]


def gen_json(rng, s, t, good=True, depth=0, nullable=True):
    """A JSON value for declared type t: acceptable when good, else wrong or borderline somewhere."""
    k = t[0]
    if k == "nonnull":
        if not good and rng.random() < 0.3:
            return None
        return gen_json(rng, s, t[1], good, depth, nullable=False)
    if good and nullable and rng.random() < 0.12:
        return None
    if k == "list":
        r = rng.random()
        if r < 0.2 and strip_outer_nonnull(t[1])[0] != "list":   # single value wrapped (never null, never itself a list)
            return gen_json(rng, s, t[1], good, depth + 1, nullable=False)
        if r < 0.27 and good:   # a leaf value wrapped at every list level
            return gen_json(rng, s, N(named_of(t)), True, depth + 1, nullable=False)
        n = rng.randrange(0, 3 if depth else 4)
        items = [gen_json(rng, s, t[1], True, depth + 1) for _ in range(n)]
        if not good:
            if items:
                items[rng.randrange(len(items))] = gen_json(rng, s, t[1], False, depth + 1)
            else:
                items = [gen_json(rng, s, t[1], False, depth + 1)]
        return items
    name = t[1]
    d = s["types"].get(name)
    if d is None:  # builtin scalar
        return gen_scalar_json(rng, name, good)
    if d["kind"] == "ENUM":
        if good:
            return rng.choice(d["values"])
        return rng.choice(["NOPE", 1, True, d["values"][0].lower(), [d["values"][0]], {"a": 1}, ""])
    if d["kind"] == "INPUT":
        if not good and rng.random() < 0.25:
            return rng.choice([1, "x", [], True, 1.5])
        obj = OrderedDict()
        bad_done = good
        fields = list(d["fields"])
        rng.shuffle(fields)
        for f in fields:
            required = f["type"][0] == "nonnull" and f.get("default") is None
            if depth > 3 and not required:
                continue
            if not required and rng.random() < 0.4:
                continue
            if not bad_done and rng.random() < 0.5:
                if required and rng.random() < 0.5:
                    bad_done = True
                    continue  # missing required field
                obj[f["name"]] = gen_json(rng, s, f["type"], False, depth + 1)
                bad_done = True
            else:
                obj[f["name"]] = gen_json(rng, s, f["type"], True, depth + 1)
        if not bad_done:
            obj[rng.choice(["zz", "f9", "F0", "unknown"])] = rng.choice([1, None, "x"])
        return dict(obj)
    raise ValueError(name)


def gen_scalar_json(rng, name, good):
    if name == "Int":
        if good:
            return rng.choice(INT_GOOD + [3.0, -0.0])
        return rng.choice(INT_BAD + [1.5, "1", True, False, [1], {"a": 1}, float(2**31), 1e100, ""])
    if name == "Float":
        if good:
            return rng.choice(FLOAT_GOOD + [3, -7, 2**53 + 1])
        return rng.choice(["1.5", True, False, [], {"x": 1}, "", "nan", 10**400])
    if name == "String":
        if good:
            return rng.choice(STR_GOOD)
        return rng.choice([1, 1.5, True, False, ["a"], {"a": "b"}, 0])
    if name == "Boolean":
        if good:
            return rng.choice([True, False])
        return rng.choice([0, 1, "true", "", 1.0, 0.0, [], [True], {"a": True}, "false"])
    if name == "ID":
        if good:
            return rng.choice(["a", "", "12", 0, 7, -3, 3.0, 10**20])
        return rng.choice([1.5, True, False, [1], {"a": 1}])
    raise ValueError(name)


def gen_literal(rng, s, t, good=True, for_sdl=False, variables=None, depth=0, nullable=True):
    """A literal for declared type t.  variables: list of (name, type) usable inside list/object
    literals (query side only)."""
    k = t[0]
    if k == "nonnull":
        if not good and rng.random() < 0.3:
            return ("null",)
        return gen_literal(rng, s, t[1], good, for_sdl, variables, depth, nullable=False)
    if good and nullable and rng.random() < 0.1:
        return ("null",)
    if k == "list":
        if rng.random() < 0.2 and strip_outer_nonnull(t[1])[0] != "list":
            return gen_literal(rng, s, t[1], good, for_sdl, variables, depth + 1, nullable=False)
        if rng.random() < 0.08 and good:   # a leaf value wrapped at every list level
            return gen_literal(rng, s, N(named_of(t)), True, for_sdl, variables, depth + 1, nullable=False)
        n = rng.randrange(0, 3)
        items = [gen_literal(rng, s, t[1], True, for_sdl, variables, depth + 1) for _ in range(n)]
        if not good:
            if items:
                items[rng.randrange(len(items))] = gen_literal(rng, s, t[1], False, for_sdl, variables, depth + 1)
            else:
                items = [gen_literal(rng, s, t[1], False, for_sdl, variables, depth + 1)]
        return ("list", items)
    name = t[1]
    d = s["types"].get(name)
    if d is None:
        return gen_scalar_literal(rng, name, good)
    if d["kind"] == "ENUM":
        if good:
            return ("enum", rng.choice(d["values"]))
        return rng.choice([("enum", "NOPE"), ("str", d["values"][0]), ("int", 1), ("bool", True),
                           ("list", [("enum", d["values"][0])])])
    if d["kind"] == "INPUT":
        if not good and rng.random() < 0.3:
            return rng.choice([("int", 1), ("str", "x"), ("list", []), ("bool", True)])
        fields = []
        bad_done = good
        for f in d["fields"]:
            required = f["type"][0] == "nonnull" and f.get("default") is None
            if depth > 3 and not required:
                continue
            if not required and rng.random() < 0.4:
                continue
            if not bad_done and rng.random() < 0.6:
                if required and rng.random() < 0.5:
                    bad_done = True
                    continue
                fields.append((f["name"], gen_literal(rng, s, f["type"], False, for_sdl, variables, depth + 1)))
                bad_done = True
            else:
                fields.append((f["name"], gen_literal(rng, s, f["type"], True, for_sdl, variables, depth + 1)))
        return ("obj", fields)
    raise ValueError(name)


def gen_scalar_literal(rng, name, good):
    if name == "Int":
        if good:
            return ("int", rng.choice(INT_GOOD))
        return rng.choice([("int", 2**31), ("int", -(2**31) - 1), ("float", 1.5), ("str", "1"),
                           ("bool", True), ("enum", "A"), ("list", [("str", "a")]), ("obj", [])])
    if name == "Float":
        if good:
            return rng.choice([("float", x) for x in FLOAT_GOOD] + [("int", 3), ("int", -7)])
        return rng.choice([("str", "1.5"), ("bool", False), ("enum", "A"), ("obj", [])])
    if name == "String":
        if good:
            return ("str", rng.choice(STR_GOOD))
        return rng.choice([("int", 1), ("float", 1.5), ("bool", True), ("enum", "abc"), ("obj", [])])
    if name == "Boolean":
        if good:
            return ("bool", rng.choice([True, False]))
        return rng.choice([("int", 0), ("int", 1), ("str", "true"), ("enum", "TRUE"), ("float", 1.0)])
    if name == "ID":
        if good:
            return rng.choice([("str", "a"), ("str", ""), ("int", 0), ("int", 12), ("int", -3)])
        return rng.choice([("float", 1.5), ("bool", True), ("enum", "A"), ("obj", [])])
    raise ValueError(name)
