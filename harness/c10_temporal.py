"""C10, Date / Time / DateTime part.  The real scalar objects of a cooked schema are run in the three
directions on canonical well-formed strings, near-miss spellings, calendar boundaries and foreign values;
the observations are (1) compared inside Coq with Gen/Temporal_gen.v (the parameters extracted from the
source) over Model/Temporal.v, (2) checked here against the laws of the property (search for a concrete
failing input).  ASCII only: non-ASCII decimal digits (which CPython's \\d accepts) are outside the model."""
import datetime as dtm
import random

from . import coqterm
from .coqterm import coq_string, coq_list, coq_pyval, AstNode, Opaque

SCALARS = ("Date", "Time", "DateTime")
DIRS = ("coerce_output", "coerce_input", "parse_literal")
FNS = [(s, d) for s in SCALARS for d in DIRS]


def canonical(s, t):
    y, mo, d, h, mi, sec = t
    if s == "Date":
        return "%04d-%02d-%02d" % (y, mo, d)
    if s == "Time":
        return "%02d:%02d:%02d" % (h, mi, sec)
    return "%04d-%02d-%02dT%02d:%02d:%02d" % (y, mo, d, h, mi, sec)


def tuples(rng, n):
    out = [(1, 1, 1, 0, 0, 0), (9999, 12, 31, 23, 59, 59), (2000, 2, 29, 12, 0, 0), (1900, 2, 28, 0, 0, 1),
           (2024, 2, 29, 23, 59, 0), (1970, 1, 1, 0, 0, 0), (2023, 12, 31, 9, 5, 7), (1000, 10, 10, 10, 10, 10),
           (999, 9, 9, 9, 9, 9), (2021, 11, 30, 19, 30, 45), (400, 2, 29, 1, 2, 3), (1999, 4, 30, 20, 20, 20)]
    for _ in range(n):
        y = rng.choice([rng.randrange(1, 10000), rng.choice([1600, 1700, 1900, 2000, 2100, 2024, 2023, 4, 100, 400])])
        mo = rng.randrange(1, 13)
        dim = [31, 29 if (y % 4 == 0 and y % 100 != 0) or y % 400 == 0 else 28, 31, 30, 31, 30, 31, 31, 30, 31, 30, 31][mo - 1]
        d = rng.choice([1, dim, rng.randrange(1, dim + 1)])
        out.append((y, mo, d, rng.choice([0, 23, rng.randrange(24)]), rng.choice([0, 59, rng.randrange(60)]),
                    rng.choice([0, 59, rng.randrange(60)])))
    return out


def invalid_canonical(s, rng, n):
    """canonical SHAPE, values outside the calendar / clock"""
    bad = [(0, 1, 1, 0, 0, 0), (2023, 2, 29, 0, 0, 0), (1900, 2, 29, 0, 0, 0), (2100, 2, 29, 0, 0, 0), (2023, 4, 31, 0, 0, 0),
           (2023, 13, 1, 0, 0, 0), (2023, 0, 10, 0, 0, 0), (2023, 1, 0, 0, 0, 0), (2023, 1, 32, 0, 0, 0),
           (2023, 6, 31, 0, 0, 0), (2023, 1, 1, 24, 0, 0), (2023, 1, 1, 0, 60, 0), (2023, 1, 1, 0, 0, 60),
           (2023, 1, 1, 0, 0, 61), (2023, 1, 1, 0, 0, 62), (2023, 1, 1, 25, 61, 61), (2023, 9, 31, 1, 1, 1),
           (2023, 11, 31, 1, 1, 1), (2000, 2, 30, 1, 1, 1), (2023, 12, 32, 1, 1, 1)]
    for _ in range(n):
        bad.append((rng.randrange(0, 10000), rng.randrange(0, 20), rng.randrange(0, 40), rng.randrange(0, 30),
                    rng.randrange(0, 70), rng.randrange(0, 70)))
    def dim(y, mo):
        return [31, 29 if (y % 4 == 0 and y % 100 != 0) or y % 400 == 0 else 28, 31, 30, 31, 30, 31, 31, 30, 31, 30, 31][mo - 1]

    def valid(t):
        y, mo, d, h, mi, sec = t
        date_ok = 1 <= y <= 9999 and 1 <= mo <= 12 and 1 <= d <= dim(y, mo)
        time_ok = 0 <= h <= 23 and 0 <= mi <= 59 and 0 <= sec <= 59
        return date_ok if s == "Date" else time_ok if s == "Time" else (date_ok and time_ok)
    out = []
    for t in bad:
        if valid(t) or any(x > 99 for x in t[1:]):
            continue
        out.append(canonical(s, t))
    return out


def spellings(s, t, rng):
    """near-canonical spellings of one value: some accepted by strptime (unpadded fields, lower-case t), some not"""
    y, mo, d, h, mi, sec = t
    c = canonical(s, t)
    out = [c, " " + c, c + " ", c + "Z", c + ".0", c.replace("-", "/"), c.replace(":", "-"), c.lower(), c.upper(),
           c[:-1], c + "0", c.replace("0", "O", 1), "+" + c, c.replace("T", " "), c.replace("T", "t"), c + "\n",
           c[:4] + c[5:], c * 2]
    if s == "Date":
        out += ["%d-%d-%d" % (y, mo, d), "%04d-%d-%02d" % (y, mo, d), "%04d-%02d-%d" % (y, mo, d), "%04d-%02d- %d" % (y, mo, d % 10 or 1),
                "%02d-%02d-%02d" % (y % 100, mo, d), "%04d%02d%02d" % (y, mo, d), "%04d-%02d-%02dT00:00:00" % (y, mo, d),
                "%05d-%02d-%02d" % (y, mo, d)]
    elif s == "Time":
        out += ["%d:%d:%d" % (h, mi, sec), "%02d:%d:%02d" % (h, mi, sec), "%02d:%02d" % (h, mi), "%02d:%02d:%02d.5" % (h, mi, sec),
                "%02d:%02d:%02d+00:00" % (h, mi, sec), "%02d%02d%02d" % (h, mi, sec), "T%02d:%02d:%02d" % (h, mi, sec),
                "%03d:%02d:%02d" % (h, mi, sec)]
    else:
        out += ["%d-%d-%dT%d:%d:%d" % t, "%04d-%02d-%02d %02d:%02d:%02d" % t, "%04d-%02d-%02dT%02d:%02d" % t[:5],
                "%04d-%02d-%02dT%02d:%02d:%02d.000" % t, "%04d-%02d-%02dT%02d:%02d:%02dZ" % t, "%04d-%02d-%02d" % t[:3],
                "%04d-%02d-%02dT%d:%02d:%d" % t, "%04d-%02d-%02dTT%02d:%02d:%02d" % t]
    return out


FOREIGN_INPUT = [None, True, False, 0, 1, 20230101, 1.5, [], ["2023-01-01"], {}, {"value": "2023-01-01"}, "", " ", "abc",
                 "2023", "today", "٢٠٢٣-01-01", "é", Opaque("bytes"), Opaque("object")]


def ascii_digits_only(x):
    return not isinstance(x, str) or all((not ch.isdecimal()) or ch.isascii() for ch in x)


def output_values(rng, n):
    vals = []
    for t in tuples(rng, n):
        y, mo, d, h, mi, sec = t
        vals.append(dtm.datetime(y, mo, d, h, mi, sec))
        if rng.random() < 0.3:
            vals.append(dtm.datetime(y, mo, d, h, mi, sec, rng.choice([1, 5, 500000, 999999, 123456])))
        if rng.random() < 0.3:
            vals.append(dtm.date(y, mo, d))
        if rng.random() < 0.3:
            vals.append(dtm.time(h, mi, sec, rng.choice([0, 0, 7])))
    vals += [None, True, 0, 1.5, "2023-01-01", "12:00:00", "2023-01-01T12:00:00", "", [], {}, Opaque("object")]
    return vals


def model_value(v):
    """Coq term of a Python value of this universe"""
    if isinstance(v, dtm.datetime):
        return "(mk_datetime %d %d %d %d %d %d %d)" % (v.year, v.month, v.day, v.hour, v.minute, v.second, v.microsecond)
    if isinstance(v, dtm.date):
        return "(mk_date %d %d %d)" % (v.year, v.month, v.day)
    if isinstance(v, dtm.time):
        return "(mk_time %d %d %d %d)" % (v.hour, v.minute, v.second, v.microsecond)
    return coq_pyval(v)


def obs_term(obs):
    if obs[0] == "ok":
        from tartiflette.constants import UNDEFINED_VALUE
        if obs[1] is UNDEFINED_VALUE:
            return "(Ok PUndef)"
        return "(Ok %s)" % model_value(obs[1])
    return "(Raise %s)" % coqterm.coq_exc(obs[1])


def observe(fn, arg):
    try:
        return ("ok", fn(arg))
    except Exception as e:  # pylint: disable=broad-except
        return ("raise", e)


def describe(x):
    return repr(x)[:120]


async def get_scalars(schema_name):
    from tartiflette import create_engine
    e = await create_engine("type Query { a: Date b: Time c: DateTime }", schema_name=schema_name)
    return {s: e._schema.find_scalar(s) for s in SCALARS}


def collect(scalars, tier_, seed):
    """returns (cases for the Coq comparison, law failures found on the real scalars)"""
    from tartiflette.language import ast as tast
    from tartiflette.constants import UNDEFINED_VALUE
    rng = random.Random(seed * 7919 + 10)
    n = 25 if tier_ == "quick" else 200
    cases, fails = [], []
    stats = {"canonical": 0, "invalid_canonical": 0, "spellings": 0, "foreign": 0, "outputs": 0, "accepted": 0, "refused": 0}

    def add(s, d, arg_model, arg_real, obs, desc):
        cases.append({"fn": FNS.index((s, d)), "m": arg_model, "obs": obs, "desc": desc, "scalar": s, "dir": d})

    for s in SCALARS:
        sc = scalars[s]
        tl = tuples(rng, n)
        inputs = []
        for t in tl:
            c = canonical(s, t)
            stats["canonical"] += 1
            inputs.append(("canonical", t, c))
        for c in invalid_canonical(s, rng, n // 2):
            stats["invalid_canonical"] += 1
            inputs.append(("invalid", None, c))
        for t in tl[: max(4, n // 5)]:
            for c in spellings(s, t, rng):
                stats["spellings"] += 1
                inputs.append(("spelling", t, c))
        for v in FOREIGN_INPUT:
            stats["foreign"] += 1
            inputs.append(("foreign", None, v))
        for kind, t, v in inputs:
            if not ascii_digits_only(v):
                continue
            oi = observe(sc.coerce_input, v)
            add(s, "coerce_input", coq_pyval(v), v, oi, describe(v))
            stats["accepted" if oi[0] == "ok" else "refused"] += 1
            if isinstance(v, str):
                node = tast.StringValueNode(value=v)
                ol = observe(sc.parse_literal, node)
                add(s, "parse_literal", "(PAst KStringValue %s)" % coq_pyval(v), node, ol, "StringValueNode(%s)" % describe(v))
                # literal = variable
                same = (oi[0] == "ok" and ol[0] == "ok" and ol[1] == oi[1]) or \
                       (oi[0] == "raise" and ol[0] == "ok" and ol[1] is UNDEFINED_VALUE)
                if not same:
                    fails.append({"law": "literal_eq_variable", "scalar": s, "input": v, "variable": obs_json(oi),
                                  "literal": obs_json(ol)})
            # exactness on canonical shapes
            if kind == "canonical":
                y, mo, d, h, mi, sec = t
                want = dtm.datetime(*((y, mo, d, 0, 0, 0) if s == "Date" else (1900, 1, 1, h, mi, sec) if s == "Time" else t))
                if oi != ("ok", want):
                    fails.append({"law": "input accepts the canonical spelling of a real date/time and denotes it",
                                  "scalar": s, "input": v, "observed": obs_json(oi), "expected": repr(want)})
            if kind == "invalid" and oi[0] == "ok":
                fails.append({"law": "input accepts exactly calendar / clock values", "scalar": s, "input": v,
                              "observed": obs_json(oi)})
            if kind == "foreign" and oi[0] == "ok":
                fails.append({"law": "input accepts only well-formed strings", "scalar": s, "input": describe(v),
                              "observed": obs_json(oi)})
            # idempotence: what input produced, output must render as a string that input maps back to it
            if oi[0] == "ok":
                oo = observe(sc.coerce_output, oi[1])
                if oo[0] != "ok" or not isinstance(oo[1], str):
                    fails.append({"law": "result coercion of a produced value yields the wire type", "scalar": s,
                                  "input": v, "produced": repr(oi[1]), "output": obs_json(oo)})
                else:
                    back = observe(sc.coerce_input, oo[1])
                    if back != ("ok", oi[1]):
                        fails.append({"law": "idempotence: input(output(input(s))) = input(s)", "scalar": s, "input": v,
                                      "output": oo[1], "back": obs_json(back)})
                    if kind == "canonical" and oo[1] != v:
                        fails.append({"law": "output(input(s)) = s for a canonical s", "scalar": s, "input": v,
                                      "output": oo[1]})
        # non-string literal nodes
        for ctor, val in (("IntValueNode", 20230101), ("FloatValueNode", 1.5), ("BooleanValueNode", True),
                          ("EnumValueNode", "A"), ("NullValueNode", None), ("ListValueNode", None), ("ObjectValueNode", None)):
            cls = getattr(tast, ctor)
            node = cls() if ctor == "NullValueNode" else cls(values=[]) if ctor == "ListValueNode" else \
                cls(fields=[]) if ctor == "ObjectValueNode" else cls(value=val)
            ol = observe(sc.parse_literal, node)
            kind = {"IntValueNode": "KIntValue", "FloatValueNode": "KFloatValue", "BooleanValueNode": "KBooleanValue",
                    "EnumValueNode": "KEnumValue", "NullValueNode": "KNullValue", "ListValueNode": "KListValue",
                    "ObjectValueNode": "KObjectValue"}[ctor]
            add(s, "parse_literal", "(PAst %s %s)" % (kind, coq_pyval(val if ctor in ("IntValueNode", "BooleanValueNode", "EnumValueNode") else None)),
                node, ol, ctor)
            if not (ol[0] == "ok" and ol[1] is UNDEFINED_VALUE):
                fails.append({"law": "a literal of another kind is not a " + s, "scalar": s, "input": ctor, "observed": obs_json(ol)})
        for v in output_values(rng, n):
            stats["outputs"] += 1
            oo = observe(sc.coerce_output, v)
            add(s, "coerce_output", model_value(v), v, oo, describe(v))
            if oo[0] == "ok" and not isinstance(oo[1], str):
                fails.append({"law": "result coercion yields a string or fails", "scalar": s, "input": describe(v),
                              "observed": obs_json(oo)})
            if isinstance(v, dtm.datetime) and v.microsecond == 0:
                want = canonical(s, (v.year, v.month, v.day, v.hour, v.minute, v.second))
                if oo != ("ok", want):
                    fails.append({"law": "result coercion of a datetime denotes the same value", "scalar": s,
                                  "input": describe(v), "observed": obs_json(oo), "expected": want})
    return cases, fails, stats


def obs_json(obs):
    if obs[0] == "ok":
        return {"ok": repr(obs[1])}
    return {"raise": type(obs[1]).__name__}


def shard_files(cases, seed, shard=400):
    files = []
    for j in range(0, len(cases), shard):
        part = cases[j:j + shard]
        L = [coqterm.HEADER, "From TV Require Import Model.ScalarSpec Model.ScalarLawsB Gen.Scalars_gen Model.Temporal Gen.Temporal_gen.\n",
             "Definition O := table_oracle [] [].\n",
             "Definition cases : list (nat * pyval * res pyval) := %s.\n" % coq_list(
                 ["(%d%%nat, %s, %s)" % (c["fn"], c["m"], obs_term(c["obs"])) for c in part]),
             "Definition model (fn : nat) : pyval -> res pyval := nth fn [%s] (fun _ => Raise OutOfFuel).\n" % "; ".join(
                 "%s_%s O" % (s.lower(), d) for s, d in FNS),
             'Eval vm_compute in ("model_mismatch", idx_where (fun c => match c with (fn, v, obs) => '
             "negb (res_eqb (model fn v) obs) end) cases 0).\n"]
        files.append(("C10T_s%d_%d" % (seed, j), "".join(L), j))
    return files
