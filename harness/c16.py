"""C16 — the query cache and request history never change a response.

Request sequences over a pool of documents (valid, invalid, syntactically broken, the same text
with different variables / operation names, str and bytes spellings) are sent to engines with
each cache configuration (default LRU, custom memoising decorator, capacity 1, disabled); every
response is compared, position by position, with the response the same request gets from a
fresh engine without parsing cache.  The cached DocumentNode is fingerprinted before and after
every request (the model treats parsed documents as read-only)."""
import asyncio
import functools
import json
import random

from . import common, gen, execgen, c01
from .c04 import fresh_schema_name

C16_FILES = ["Properties/C16.v", "Proofs/CacheRegistry.v"]


def fingerprint(obj, depth=0, seen=None):
    """structural fingerprint of an AST (all slots / attributes, recursively)"""
    if seen is None:
        seen = set()
    if obj is None or isinstance(obj, (str, int, float, bool, bytes)):
        return repr(obj)
    if id(obj) in seen or depth > 60:
        return "<seen>"
    seen.add(id(obj))
    if isinstance(obj, (list, tuple)):
        return "[" + ",".join(fingerprint(x, depth + 1, seen) for x in obj) + "]"
    if isinstance(obj, dict):
        return "{" + ",".join("%r:%s" % (k, fingerprint(v, depth + 1, seen)) for k, v in sorted(obj.items(), key=lambda kv: repr(kv[0]))) + "}"
    names = []
    for klass in type(obj).__mro__:
        names += list(getattr(klass, "__slots__", ()))
    names += list(getattr(obj, "__dict__", {}).keys())
    if type(obj).__name__ == "Validators":
        return "Validators(errors=%d)" % len(getattr(obj, "errors", []))
    if type(obj).__module__.split(".")[0] != "tartiflette":
        return "<%s>" % type(obj).__name__
    parts = []
    for n in sorted(set(names)):
        if n.startswith("__"):
            continue
        try:
            v = getattr(obj, n)
        except AttributeError:
            continue
        if callable(v) and not isinstance(v, (list, dict)):
            continue
        parts.append("%s=%s" % (n, fingerprint(v, depth + 1, seen)))
    return "%s(%s)" % (type(obj).__name__, ",".join(parts))


def build_pool(rng, s, n_docs):
    base = c01.gen_cases(rng, s, n_docs, adversarial=0.05, fail=0.08)
    # documents with several operations declaring DIFFERENT variables (cache entries shared by operations)
    multi = []
    qf = [f for f in s["types"]["Query"]["fields"] if not any(a["type"][0] == "nonnull" and a.get("default") is None for a in f.get("args", []))]
    scal = [f for f in qf if gen.named_of(f["type"]) not in s["types"] or s["types"][gen.named_of(f["type"])]["kind"] in ("ENUM", "SCALAR")]
    with_args = [f for f in scal if f.get("args")]
    for _ in range(3):
        if not scal:
            break
        f1 = rng.choice(scal)
        f2 = rng.choice(with_args) if with_args else rng.choice(scal)
        decl, call = "", ""
        if f2.get("args"):
            a = f2["args"][0]
            decl = "($y: %s)" % gen.type_sdl(a["type"])
            call = "(%s: $y)" % a["name"]
            val = gen.gen_json(rng, s, a["type"], good=True)
        else:
            val = None
        q = "query A($x: Boolean = true) { %s @include(if: $x) __typename } query B%s { k: %s%s }" % (
            f1["name"], decl, f2["name"], call)
        multi.append({"query": q, "variables": {}, "opname": "A", "oracle_seed": rng.randrange(1 << 30), "root": None})
        multi.append({"query": q, "variables": ({"y": val} if decl else {}), "opname": "B",
                      "oracle_seed": rng.randrange(1 << 30), "root": None})
        multi.append({"query": q, "variables": {"x": False}, "opname": "A", "oracle_seed": rng.randrange(1 << 30), "root": None})
    for i in range(2):
        q = ("query A($x: Boolean = true) { a%d: __typename @include(if: $x) } "
             "query B($y: Boolean = false, $z: Boolean = true) { b%d: __typename @skip(if: $y) c: __typename @include(if: $z) }" % (i, i))
        for opn, v in [("A", {}), ("B", {}), ("A", {"x": False}), ("B", {"y": True}), ("B", {"z": False}), ("A", {"x": True})]:
            multi.append({"query": q, "variables": v, "opname": opn, "oracle_seed": rng.randrange(1 << 30), "root": None})
    pool = []
    build_pool.multi = multi
    for c in base + multi:
        pool.append(c)
        r = rng.random()
        if r < 0.3:       # same text, different variables (flip booleans / drop a variable)
            v = dict(c["variables"])
            for k in list(v):
                if isinstance(v[k], bool):
                    v[k] = not v[k]
            pool.append(dict(c, variables=v, oracle_seed=rng.randrange(1 << 30)))
        if r < 0.15 or (0.5 < r < 0.6):
            pool.append(dict(c, query=c["query"].encode("utf-8")))        # bytes spelling
        if 0.3 < r < 0.4:
            pool.append(dict(c, opname="Nope"))
    broken = ["{", "{ nope }", "{ __typename", "query { ...Missing }", "{ __typename } { __typename }",
              "query ($v: Int) { __typename }", b"{ __typename }", "{ __typename }", "\x00", ""]
    for q in broken:
        pool.append({"query": q, "variables": {}, "opname": None, "oracle_seed": 1, "root": None})
    # documents refused by a validation rule next to VALID documents that reuse their names: a rule object, a
    # suggestion list or any other state kept between requests shows as a history-dependent answer
    for q in INVALID_VALID_FAMILY:
        pool.append({"query": q, "variables": {}, "opname": None, "oracle_seed": 1, "root": None})
    for c in execgen.error_path_cases():
        pool.append({"query": c["query"], "variables": c["variables"], "opname": None, "oracle_seed": 1, "root": None})
    return pool


INVALID_VALID_FAMILY = [
    # fragment cycles, then valid nestings over the same fragment names
    "query { ...FA } fragment FA on Query { __typename ...FB } fragment FB on Query { ...FA }",
    "query { ...FA } fragment FA on Query { __typename ...FB } fragment FB on Query { __typename }",
    "query { ...FB } fragment FB on Query { __typename ...FA } fragment FA on Query { __typename }",
    "query { ...FA } fragment FA on Query { ...FB } fragment FB on Query { ...FC } fragment FC on Query { ...FA }",
    "query { ...FC } fragment FC on Query { ...FB } fragment FB on Query { ...FA } fragment FA on Query { a: __typename }",
    "query { ...FA } fragment FA on Query { ...FA }",
    "query { ...FA ...FA } fragment FA on Query { __typename }",
    # one operation text, different fragment definitions behind it: what a rule concludes about the operation depends
    # on the fragments of ITS document (variables used / defined through spreads, unknown fields, cycles)
    "query Q($v: Int) { ...F }\nfragment F on Query { echoInt(v: $v) }",
    "query Q($v: Int) { ...F }\nfragment F on Query { ping }",
    "query Q { ...F }\nfragment F on Query { ping }",
    "query Q { ...F }\nfragment F on Query { echoInt(v: $v) }",
    "query Q { ...F }\nfragment F on Query { nope }",
    "query Q($v: Int) { ...F }\nfragment F on Query { ...G }\nfragment G on Query { echoInt(v: $v) }",
    "query Q($v: Int) { ...F }\nfragment F on Query { ...G }\nfragment G on Query { echoStr(v: $v) }",
    # unused / unknown / duplicated names
    "query { __typename } fragment FA on Query { __typename }",
    "query { ...FZ }",
    "query { ...FA } fragment FA on Query { __typename } fragment FA on Query { __typename }",
    "query A { __typename } query A { __typename }",
    "query A { __typename } query B { b: __typename }",
    "query ($v: Boolean) { __typename }",
    "query ($v: Boolean) { __typename @include(if: $v) }",
    "query ($v: Boolean, $v: Boolean) { __typename @include(if: $v) }",
    "query { __typename @include(if: $v) }",
    "query ($v: Int) { __typename @include(if: $v) }",
    "query { __typename @include(if: true) @include(if: true) }",
    "query { __typename @nope }",
    "query { __typename @include }",
    "query { __typename { x } }",
    "query { a: __typename a: __typename }",
    "{ __typename } query B { __typename }",
]


def canon(resp):
    import re
    # engine-authored messages may quote the repr of a user object: addresses differ from run to run
    return re.sub(r"0x[0-9a-fA-F]+", "0x", json.dumps(resp, sort_keys=True, default=repr))


def isolated_references(cases):
    """each distinct request answered by a fresh engine in a FRESH INTERPRETER (16 at a time)"""
    import os
    import subprocess
    import sys
    from concurrent.futures import ThreadPoolExecutor
    worker = os.path.join(os.path.dirname(os.path.abspath(__file__)), "c16_worker.py")
    env = dict(os.environ, PYTHONHASHSEED="0")

    def one(c):
        arg = json.dumps({"query": c["query"].decode("utf-8") if isinstance(c["query"], bytes) else c["query"],
                          "query_is_bytes": isinstance(c["query"], bytes), "variables": c["variables"],
                          "opname": c.get("opname"), "oracle_seed": c["oracle_seed"]})
        r = subprocess.run([sys.executable, worker, arg], capture_output=True, text=True, env=env, timeout=300)
        for line in r.stdout.splitlines():
            if line.startswith("RESULT "):
                return json.loads(line[7:])
        return {"worker_failed": (r.stderr or r.stdout)[-400:]}

    with ThreadPoolExecutor(max_workers=16) as ex:
        return list(ex.map(one, cases))


TYPE_NODE_FAMILY = [
    # documents whose type nodes (variable types, type conditions) name DIFFERENT types: whatever is remembered about a
    # type node of one document must not be applied to another document's
    ("query ($v: Int) { echoInt(v: $v) }", {"v": 7}), ("query ($v: String) { echoStr(v: $v) }", {"v": "s"}),
    ("query ($v: Boolean) { echoBool(v: $v) }", {"v": True}), ("query ($v: [Int]) { echoList(v: $v) }", {"v": [1, 2]}),
    ("query ($v: Colr) { qfilt(colr: $v) }", {"v": "RED"}), ("query ($v: Filt) { qfilt(filt: $v) }", {"v": {"hasFriend": True}}),
    ("query ($v: Int!) { echoInt(v: $v) }", {"v": 1}), ("query ($v: [Int!]!) { echoList(v: $v) }", {"v": [3]}),
    # LITERAL arguments (same field, other values; several per document): whatever is remembered about an argument node of
    # one document must not be applied to another document's
    ("{ echoInt(v: 1) }", {}), ("{ echoInt(v: 2) }", {}), ("{ echoInt(v: 12345) }", {}), ('{ echoStr(v: "a") }', {}),
    ('{ echoStr(v: "bcd") }', {}), ("{ echoList(v: [1, 2]) }", {}), ("{ echoList(v: [3]) }", {}), ("{ echoList(v: 4) }", {}),
    ("{ a: echoInt(v: 5) b: echoBool(v: true) }", {}), ('{ a: echoInt(v: 6) b: echoBool(v: false) c: echoStr(v: "z") }', {}),
    ("{ echoBool }", {}), ("{ echoInt }", {}),
    ("{ pets { ... on Cat { name meow } } }", {}), ("{ pets { ... on Dog { name woof } } }", {}),
    ("{ pets { ...F } } fragment F on Cat { meow }", {}), ("{ pets { ...F } } fragment F on Dog { woof }", {}),
    ("{ pets { ... on Pet { __typename } } }", {}), ("{ ... on Query { ping } }", {}),
    ("{ pets { __typename ... on Cat { n: name } ... on Dog { n: name } } }", {}),
]


def isolated_family():
    cases = [{"query": q, "variables": {}, "opname": None, "oracle_seed": 1, "root": None} for q in INVALID_VALID_FAMILY]
    cases += [{"query": q, "variables": v, "opname": None, "oracle_seed": 5 + i, "root": None}
              for i, (q, v) in enumerate(TYPE_NODE_FAMILY)]
    cases += [{"query": c["query"], "variables": c["variables"], "opname": None, "oracle_seed": 1, "root": None}
              for c in execgen.error_path_cases()]
    return cases


async def run_schema(s, history, rng, isolated=None):
    configs = {
        "default-lru": {},
        "custom-decorator": {"query_cache_decorator": lambda fn: functools.lru_cache(maxsize=None)(fn)},
        "lru(1)": {"query_cache_decorator": functools.lru_cache(maxsize=1)},
        "lru(2)": {"query_cache_decorator": functools.lru_cache(maxsize=2)},
        "disabled": {"query_cache_decorator": None},
    }
    import tartiflette
    engines = {}
    ctx_obj = {"ctx": 1}
    for name, kw in configs.items():
        rec = execgen.Recorder()
        oref = [None, ctx_obj]
        orig = tartiflette.create_engine

        async def patched(*a, _kw=kw, **k):
            k.update(_kw)
            return await orig(*a, **k)

        tartiflette.create_engine = patched
        try:
            eng = await execgen.build_engine(s, fresh_schema_name("c16"), oref, rec)
        finally:
            tartiflette.create_engine = orig
        engines[name] = (eng, rec, oref)
    out = []
    for idx, c in enumerate(history):
        # reference: a FRESH engine without parsing cache for every request
        rrec, roref = execgen.Recorder(), [None, ctx_obj]
        orig = tartiflette.create_engine

        async def patched_ref(*a, **k):
            k["query_cache_decorator"] = None
            return await orig(*a, **k)

        tartiflette.create_engine = patched_ref
        try:
            ref = await execgen.build_engine(s, fresh_schema_name("c16ref"), roref, rrec)
        finally:
            tartiflette.create_engine = orig
        roref[0] = execgen.Oracle(s, c["oracle_seed"], 0.05, 0.08)
        expected = await ref.execute(c["query"], operation_name=c.get("opname"), variables=c["variables"], context=ctx_obj)
        row = {"expected": expected, "got": {}, "mutated": {}}
        if isolated is not None:
            # the reference is the answer of a fresh interpreter; the in-process fresh engine is one more subject
            row["got"]["fresh-engine-in-this-process"] = expected
            row["mutated"]["fresh-engine-in-this-process"] = False
            row["expected"] = isolated[id(c)]
        for name, (eng, rec, oref) in engines.items():
            oref[0] = execgen.Oracle(s, c["oracle_seed"], 0.05, 0.08)
            try:
                before = fingerprint(eng._cached_parse_and_validate_query(c["query"], eng._schema)[0]) \
                    if name != "disabled" else None
            except Exception:  # pylint: disable=broad-except
                before = None
            resp = await eng.execute(c["query"], operation_name=c.get("opname"), variables=c["variables"], context=ctx_obj)
            try:
                after = fingerprint(eng._cached_parse_and_validate_query(c["query"], eng._schema)[0]) \
                    if name != "disabled" else None
            except Exception:  # pylint: disable=broad-except
                after = None
            row["got"][name] = resp
            row["mutated"][name] = before != after
        out.append(row)
    return out


def main(tier_, replay=None):
    from . import engine_env
    rep = common.Report("C16")
    seed = common.seed()
    b = common.build(["Properties/C16.vo"])
    gate = common.grep_gate()
    proofs_ok = b["ok"] and not gate
    engine_env.setup()
    rng = random.Random(seed * 977 + 16)
    n_schemas, n_docs, hist_len = (2, 10, 70) if tier_ == "quick" else (10, 16, 250)
    viol, mutated, total, distinct = [], [], 0, set()
    samples = []
    for si in range(n_schemas):
        s = execgen.gen_exec_schema(rng)
        pool = build_pool(rng, s, n_docs)
        history = [rng.choice(build_pool.multi) if (build_pool.multi and rng.random() < 0.3) else rng.choice(pool)
                   for _ in range(hist_len)]
        # make sure repeats and alternations occur
        history = history[:hist_len // 2] + [history[i // 2] for i in range(hist_len // 2)]
        rows = asyncio.run(run_schema(s, history, rng))
        for i, (c, row) in enumerate(zip(history, rows)):
            total += 1
            distinct.add((si, repr(c["query"]), repr(c.get("opname")), canon(c["variables"])))
            for name, resp in row["got"].items():
                if canon(resp) != canon(row["expected"]):
                    viol.append((s, history[:i + 1], name, row["expected"], resp))
                    break
                if row["mutated"][name]:
                    mutated.append((s, c, name))
        samples.append({"history_prefix": [{"query": repr(c["query"])[:80], "opname": c.get("opname")} for c in history[:4]]})
    # histories over the invalid/valid family and the error-path requests on a fixed schema; the reference of each
    # request comes from a fresh INTERPRETER, so state kept anywhere in the process (rule objects, module-level
    # caches) is seen as well
    from . import c16_worker
    fs = c16_worker.fixed_schema()
    fam = isolated_family()
    refs = isolated_references(fam)
    isolated = {id(c): r for c, r in zip(fam, refs)}
    for rnd in range(2 if tier_ == "quick" else 6):
        history = list(fam)
        rng.shuffle(history)
        history = history + [rng.choice(fam) for _ in range(2 * len(fam))]
        rows = asyncio.run(run_schema(fs, history, rng, isolated=isolated))
        for i, (c, row) in enumerate(zip(history, rows)):
            total += 1
            distinct.add(("fixed", repr(c["query"]), repr(c.get("opname")), canon(c["variables"])))
            for name, resp in row["got"].items():
                if canon(resp) != canon(row["expected"]):
                    viol.append((fs, history[:i + 1], name, row["expected"], resp))
                    break
    # the same family in a TIGHT loop on engines that do not keep documents alive (no cache, capacity 1): nothing else
    # allocates in between, so anything remembered by identity of a freed document's nodes is hit again
    async def tight():
        import tartiflette
        out = []
        for cname, kw in (("disabled", {"query_cache_decorator": None}),
                          ("lru(1)", {"query_cache_decorator": functools.lru_cache(maxsize=1)})):
            rec, oref = execgen.Recorder(), [None, {"ctx": 1}]
            orig = tartiflette.create_engine

            async def patched(*a, _kw=kw, **k):
                k.update(_kw)
                return await orig(*a, **k)
            tartiflette.create_engine = patched
            try:
                eng = await execgen.build_engine(fs, fresh_schema_name("c16tight"), oref, rec)
            finally:
                tartiflette.create_engine = orig
            hist = []
            for _ in range(150 if tier_ == "quick" else 1500):
                c = rng.choice(fam)
                hist.append(c)
                oref[0] = execgen.Oracle(fs, c["oracle_seed"], 0.05, 0.08)
                resp = await eng.execute(c["query"], operation_name=c.get("opname"), variables=c["variables"], context=oref[1])
                if canon(resp) != canon(isolated[id(c)]):
                    out.append((fs, list(hist), cname + " (tight loop)", isolated[id(c)], resp))
                    break
        return out
    tv = asyncio.run(tight())
    total += 2 * (150 if tier_ == "quick" else 1500)
    viol += tv
    for s, hist, name, exp, got in viol[:5]:
        rep.violation({"property": "C16", "kind": "response differs from the fresh uncached engine's",
                       "cache_configuration": name, "sdl": gen.schema_sdl(s),
                       "history": [{"query": repr(c["query"]), "operation_name": c.get("opname"),
                                    "variables": c["variables"], "oracle_seed": c["oracle_seed"]} for c in hist[-12:]],
                       "position": len(hist) - 1, "fresh_uncached": repr(exp)[:1500], "this_engine": repr(got)[:1500]})
    if not viol:
        if not proofs_ok:
            rep.violation({"property": "C16", "what": "proof obligation no longer checks", "file": b.get("failed_file"),
                           "theorem": b.get("failed_lemma"), "gate": gate, "log_tail": b["log"][-1500:]}, no_input=True)
        elif mutated:
            s, c, name = mutated[0]
            rep.violation({"property": "C16", "what": "correspondence broken: executing a request changed the cached "
                           "DocumentNode (the model treats parsed documents as read-only); no response differed on "
                           "the explored histories", "cache_configuration": name, "query": repr(c["query"]),
                           "operation_name": c.get("opname"), "n": len(mutated)}, no_input=True)
    nob, names = common.count_obligations(C16_FILES)
    assum = common.assumptions("Properties/C16.v") if b["ok"] else {"closed": 0, "axioms": ["build failed"]}
    common.write_evidence("C16", tier_, "proof", {
        "obligations": nob, "discharged": nob if proofs_ok else 0,
        "checker_cmd": "make Properties/C16.vo", "trusted_base": common.TRUSTED_BASE + [
            "Print Assumptions: %d theorems closed; axioms: %s" % (assum["closed"], assum["axioms"] or "none")],
        "theorems": [n for n in names if n.startswith("C16_")],
        "evaluations": total * 5, "distinct_nontrivial": len(distinct),
        "rule": "request histories over a pool (valid, invalid, broken, same text with other variables/operation names, "
                "multi-operation documents with different variable signatures, str and bytes) x 5 cache configurations, "
                "each position compared with a fresh uncached engine; plus histories over refused documents (every "
                "fragment-cycle shape, unknown / unused / duplicated names, ...) next to valid documents reusing their "
                "names and over requests failing in the suggestion paths, each compared with the answer of a fresh "
                "INTERPRETER; non-trivial = distinct (document, operation, variables)",
        "traces_validated_against_impl": total * 5, "documents_mutated": len(mutated),
        "property_violations": len(viol), "samples": samples[:2],
    }, rep.wall(), violations=len(rep.violations),
        assumptions_=["hypothesis keq_sound (equal cache keys denote the same query text for the same schema) is tied to "
                      "the code by this differential check, not proved about GraphQLSchema.__eq__/__hash__"])
    return rep.finish()
