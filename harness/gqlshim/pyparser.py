"""
Scratch probe: pure-Python stand-in for libgraphqlparser's
graphql_parse_string + graphql_ast_to_json (JSON AST with bison-style
locations: 1-based line/column, byte columns, end exclusive).
"""
import json
import re

PUNCT = set("!$():=@[]{}|&")
NAME_RE = re.compile(rb"[_A-Za-z][_0-9A-Za-z]*")
NUM_RE = re.compile(rb"-?(0|[1-9][0-9]*)(\.[0-9]+)?([eE][+-]?[0-9]+)?")


class SyntaxErr(Exception):
    def __init__(self, line, col, msg):
        super().__init__("%d.%d: syntax error, %s" % (line, col, msg))


class Tok:
    __slots__ = ("kind", "value", "sl", "sc", "el", "ec")

    def __init__(self, kind, value, sl, sc, el, ec):
        self.kind, self.value = kind, value
        self.sl, self.sc, self.el, self.ec = sl, sc, el, ec

    def describe(self):
        if self.kind == "EOF":
            return "EOF"
        if self.kind in ("NAME",):
            return "IDENTIFIER"
        if self.kind == "PUNCT":
            return self.value
        return self.kind


def lex(src: bytes):
    toks = []
    i, n = 0, len(src)
    line, col = 1, 1
    if src.startswith(b"\xef\xbb\xbf"):
        i = 3
    while i < n:
        c = src[i : i + 1]
        if c in (b" ", b"\t", b","):
            i += 1
            col += 1
            continue
        if c == b"\n":
            i += 1
            line += 1
            col = 1
            continue
        if c == b"\r":
            i += 1
            if src[i : i + 1] == b"\n":
                i += 1
            line += 1
            col = 1
            continue
        if c == b"#":
            while i < n and src[i : i + 1] not in (b"\n", b"\r"):
                i += 1
                col += 1
            continue
        if src[i : i + 3] == b"...":
            toks.append(Tok("PUNCT", "...", line, col, line, col + 3))
            i += 3
            col += 3
            continue
        ch = c.decode("latin-1")
        if ch in PUNCT:
            toks.append(Tok("PUNCT", ch, line, col, line, col + 1))
            i += 1
            col += 1
            continue
        m = NAME_RE.match(src, i)
        if m:
            s = m.group(0)
            toks.append(Tok("NAME", s.decode(), line, col, line, col + len(s)))
            i += len(s)
            col += len(s)
            continue
        m = NUM_RE.match(src, i)
        if m and m.group(0) not in (b"", b"-"):
            s = m.group(0)
            kind = "FLOAT" if (m.group(2) or m.group(3)) else "INTEGER"
            toks.append(Tok(kind, s.decode(), line, col, line, col + len(s)))
            i += len(s)
            col += len(s)
            continue
        if src[i : i + 3] == b'"""':
            sl, sc = line, col
            j = i + 3
            col += 3
            raw = bytearray()
            while True:
                if j >= n:
                    raise SyntaxErr(line, col, "Unterminated string at EOF")
                if src[j : j + 3] == b'"""':
                    j += 3
                    col += 3
                    break
                if src[j : j + 4] == b'\\"""':
                    raw += b'"""'
                    j += 4
                    col += 4
                    continue
                b = src[j : j + 1]
                if b == b"\n":
                    line += 1
                    col = 1
                    raw += b
                    j += 1
                elif b == b"\r":
                    j += 1
                    if src[j : j + 1] == b"\n":
                        j += 1
                    line += 1
                    col = 1
                    raw += b"\n"
                else:
                    raw += b
                    j += 1
                    col += 1
            toks.append(
                Tok("STRING", block_string_value(raw.decode("utf-8", "replace")), sl, sc, line, col)
            )
            i = j
            continue
        if c == b'"':
            sl, sc = line, col
            j = i + 1
            col += 1
            out = []
            while True:
                if j >= n:
                    raise SyntaxErr(line, col, "Unterminated string at EOF")
                b = src[j : j + 1]
                if b == b'"':
                    j += 1
                    col += 1
                    break
                if b in (b"\n", b"\r"):
                    raise SyntaxErr(line, col, "Unterminated string")
                if b == b"\\":
                    e = src[j + 1 : j + 2]
                    simple = {b'"': '"', b"\\": "\\", b"/": "/", b"b": "\b",
                              b"f": "\f", b"n": "\n", b"r": "\r", b"t": "\t"}
                    if e in simple:
                        out.append(simple[e].encode())
                        j += 2
                        col += 2
                        continue
                    if e == b"u":
                        hx = src[j + 2 : j + 6]
                        if len(hx) == 4 and re.fullmatch(rb"[0-9A-Fa-f]{4}", hx):
                            out.append(chr(int(hx, 16)).encode("utf-8", "surrogatepass"))
                            j += 6
                            col += 6
                            continue
                        raise SyntaxErr(line, col, "bad Unicode escape sequence")
                    raise SyntaxErr(line, col, "bad escape sequence")
                if b < b" " and b != b"\t":
                    raise SyntaxErr(line, col, "unrecognized character " + repr(b))
                out.append(b)
                j += 1
                col += 1
            toks.append(
                Tok("STRING", b"".join(out).decode("utf-8", "replace"), sl, sc, line, col)
            )
            i = j
            continue
        raise SyntaxErr(line, col, "unrecognized character " + repr(c))
    toks.append(Tok("EOF", None, line, col, line, col))
    return toks


def block_string_value(raw: str) -> str:
    lines = raw.split("\n")
    common = None
    for ln in lines[1:]:
        indent = len(ln) - len(ln.lstrip(" \t"))
        if indent < len(ln) and (common is None or indent < common):
            common = indent
    if common:
        lines = [lines[0]] + [ln[common:] for ln in lines[1:]]
    while lines and not lines[0].strip(" \t"):
        lines.pop(0)
    while lines and not lines[-1].strip(" \t"):
        lines.pop()
    return "\n".join(lines)


class Parser:
    def __init__(self, src: bytes):
        self.toks = lex(src)
        self.p = 0
        self.last = None

    # -- helpers
    @property
    def t(self):
        return self.toks[self.p]

    def adv(self):
        self.last = self.toks[self.p]
        self.p += 1
        return self.last

    def is_p(self, v):
        return self.t.kind == "PUNCT" and self.t.value == v

    def expect_p(self, v):
        if not self.is_p(v):
            self.fail("expecting " + v)
        return self.adv()

    def fail(self, extra=None):
        t = self.t
        msg = "unexpected " + t.describe()
        if extra:
            msg += ", " + extra
        raise SyntaxErr(t.sl, t.sc, msg)

    def node(self, kind, start, **fields):
        end = self.last
        d = {
            "kind": kind,
            "loc": {
                "start": {"line": start.sl, "column": start.sc},
                "end": {"line": end.el, "column": end.ec},
            },
        }
        d.update(fields)
        return d

    def name(self):
        if self.t.kind != "NAME":
            self.fail("expecting IDENTIFIER")
        t = self.adv()
        return self.node("Name", t, value=t.value)

    # -- document
    def document(self):
        start = self.t
        defs = []
        if self.t.kind == "EOF":
            self.fail()
        while self.t.kind != "EOF":
            defs.append(self.definition())
        return self.node("Document", start, definitions=defs)

    def definition(self):
        t = self.t
        if self.is_p("{"):
            sel = self.selection_set()
            return self.node(
                "OperationDefinition", t, operation="query", name=None,
                variableDefinitions=None, directives=None, selectionSet=sel,
            )
        if t.kind == "NAME" and t.value in ("query", "mutation", "subscription"):
            self.adv()
            name = self.name() if self.t.kind == "NAME" else None
            vdefs = self.variable_definitions() if self.is_p("(") else None
            dirs = self.directives(False)
            sel = self.selection_set()
            return self.node(
                "OperationDefinition", t, operation=t.value, name=name,
                variableDefinitions=vdefs, directives=dirs, selectionSet=sel,
            )
        if t.kind == "NAME" and t.value == "fragment":
            self.adv()
            if self.t.kind == "NAME" and self.t.value == "on":
                self.fail()
            name = self.name()
            if not (self.t.kind == "NAME" and self.t.value == "on"):
                self.fail("expecting on")
            self.adv()
            tc = self.named_type()
            dirs = self.directives(False)
            sel = self.selection_set()
            return self.node(
                "FragmentDefinition", t, name=name, typeCondition=tc,
                directives=dirs, selectionSet=sel,
            )
        if t.kind == "NAME" and t.value in (
            "schema", "scalar", "type", "interface", "union", "enum", "input",
            "extend", "directive",
        ):
            raise SyntaxErr(t.sl, t.sc, "schema support disabled")
        self.fail()

    def variable_definitions(self):
        self.expect_p("(")
        out = []
        if self.is_p(")"):
            self.fail()
        while not self.is_p(")"):
            start = self.t
            var = self.variable()
            self.expect_p(":")
            ty = self.type_()
            dv = None
            if self.is_p("="):
                self.adv()
                dv = self.value(True)
            out.append(self.node("VariableDefinition", start, variable=var, type=ty, defaultValue=dv))
        self.adv()
        return out

    def variable(self):
        start = self.expect_p("$")
        nm = self.name()
        return self.node("Variable", start, name=nm)

    def type_(self):
        start = self.t
        if self.is_p("["):
            self.adv()
            inner = self.type_()
            self.expect_p("]")
            ty = self.node("ListType", start, type=inner)
        else:
            ty = self.named_type()
        if self.is_p("!"):
            self.adv()
            ty = self.node("NonNullType", start, type=ty)
        return ty

    def named_type(self):
        start = self.t
        nm = self.name()
        return self.node("NamedType", start, name=nm)

    def selection_set(self):
        start = self.expect_p("{")
        sels = []
        if self.is_p("}"):
            self.fail()
        while not self.is_p("}"):
            sels.append(self.selection())
        self.adv()
        return self.node("SelectionSet", start, selections=sels)

    def selection(self):
        start = self.t
        if self.is_p("..."):
            self.adv()
            if self.t.kind == "NAME" and self.t.value != "on":
                nm = self.name()
                dirs = self.directives(False)
                return self.node("FragmentSpread", start, name=nm, directives=dirs)
            tc = None
            if self.t.kind == "NAME" and self.t.value == "on":
                self.adv()
                tc = self.named_type()
            dirs = self.directives(False)
            sel = self.selection_set()
            return self.node("InlineFragment", start, typeCondition=tc, directives=dirs, selectionSet=sel)
        nm = self.name()
        alias = None
        if self.is_p(":"):
            self.adv()
            alias = nm
            nm = self.name()
        args = self.arguments(False) if self.is_p("(") else None
        dirs = self.directives(False)
        sel = self.selection_set() if self.is_p("{") else None
        return self.node("Field", start, alias=alias, name=nm, arguments=args, directives=dirs, selectionSet=sel)

    def arguments(self, const):
        self.expect_p("(")
        out = []
        if self.is_p(")"):
            self.fail()
        while not self.is_p(")"):
            start = self.t
            nm = self.name()
            self.expect_p(":")
            v = self.value(const)
            out.append(self.node("Argument", start, name=nm, value=v))
        self.adv()
        return out

    def directives(self, const):
        out = []
        while self.is_p("@"):
            start = self.adv()
            nm = self.name()
            args = self.arguments(const) if self.is_p("(") else None
            out.append(self.node("Directive", start, name=nm, arguments=args))
        return out or None

    def value(self, const):
        t = self.t
        if self.is_p("$"):
            if const:
                self.fail()
            return self.variable()
        if t.kind == "INTEGER":
            self.adv()
            return self.node("IntValue", t, value=t.value)
        if t.kind == "FLOAT":
            self.adv()
            return self.node("FloatValue", t, value=t.value)
        if t.kind == "STRING":
            self.adv()
            return self.node("StringValue", t, value=t.value)
        if t.kind == "NAME":
            self.adv()
            if t.value in ("true", "false"):
                return self.node("BooleanValue", t, value=(t.value == "true"))
            if t.value == "null":
                return self.node("NullValue", t)
            return self.node("EnumValue", t, value=t.value)
        if self.is_p("["):
            self.adv()
            vals = []
            while not self.is_p("]"):
                if self.t.kind == "EOF":
                    self.fail()
                vals.append(self.value(const))
            self.adv()
            return self.node("ListValue", t, values=vals)
        if self.is_p("{"):
            self.adv()
            fields = []
            while not self.is_p("}"):
                fs = self.t
                nm = self.name()
                self.expect_p(":")
                v = self.value(const)
                fields.append(self.node("ObjectField", fs, name=nm, value=v))
            self.adv()
            return self.node("ObjectValue", t, fields=fields)
        self.fail()


def parse_to_json(src: bytes) -> bytes:
    """Returns JSON AST bytes or raises SyntaxErr."""
    ast = Parser(src).document()
    return json.dumps(ast, separators=(",", ":")).encode("utf-8")
