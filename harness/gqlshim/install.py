"""
Scratch probe: make tartiflette importable without libgraphqlparser.so by
patching cffi.FFI.dlopen so that the repo's *unchanged* parser.py talks to the
Python stand-in parser through real cffi cdata objects.
"""
import cffi

from . import pyparser

_ffi = cffi.FFI()
_keep = []


class _Node:
    def __init__(self, js):
        self.js = js


class FakeLib:
    def __init__(self):
        self._nodes = {}

    def graphql_parse_string(self, text, error):
        src = _ffi.string(text) if not isinstance(text, bytes) else text
        try:
            js = pyparser.parse_to_json(src)
        except pyparser.SyntaxErr as e:
            buf = _ffi.new("char[]", str(e).encode("utf-8"))
            _keep.append(buf)
            error[0] = buf
            return _ffi.NULL
        return _Node(js)

    def graphql_error_free(self, err):
        _keep.clear()

    def graphql_node_free(self, node):
        pass

    def graphql_ast_to_json(self, node):
        buf = _ffi.new("char[]", node.js)
        _keep.append(buf)
        if len(_keep) > 64:
            del _keep[:32]
        return buf


_orig_dlopen = cffi.FFI.dlopen


def _dlopen(self, name, flags=0):
    if isinstance(name, str) and "libgraphqlparser" in name:
        return FakeLib()
    return _orig_dlopen(self, name, flags)


def install():
    cffi.FFI.dlopen = _dlopen
