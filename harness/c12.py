"""C12 — an engine is never built from an SDL that breaks a checked schema rule.

Valid schema models (every type kind, interfaces with several implementers, unions, input objects,
custom directives, `extend` definitions of every kind, type-system directives, with and without a
schema definition) are rewritten by a catalogue of SDL-level violations (harness/schemagen.py
`mutants`): undefined / non-input types behind wrappers and inside extensions, every way of not
honouring an interface, bad root types, empty objects, self-containing unions (also through an
extension), duplicate enum values / definitions (also of built-ins), scalars without implementation,
every kind of invalid extension, non-awaitable directive hooks, syntax errors.  For each the real
`create_engine` must raise and leave no usable engine; the implementation model of the build
(Model/SchemaBuild.v) must predict built / rejected and the set of error kinds; the specification
predicates (Model/SpecSchema.v) must confirm that the rewritten model breaks a checked rule."""
import asyncio
import json
import random
import re

from . import common, coqterm, gen, schemagen
from .c04 import fresh_schema_name
from .coqterm import coq_list, coq_string, coq_bool

C12_FILES = ["Properties/C12.v", "Proofs/SchemaProofs.v", "Proofs/SchemaInterfaces.v", "Proofs/Wiring.v", "Proofs/SchemaExtensions.v", "Proofs/SchemaRoots.v"]

KINDS = [
    (r"is Invalid: the given Type <", "unknown-field-type"),
    (r"is missing as defined in the <", "interface-field-missing"),
    (r"should be of Type <", "interface-field-type"),
    (r"is missing interface field argument", "interface-argument-missing"),
    (r"is not of type < .* > as required by the interface", "interface-argument-type"),
    (r"so it cannot be NonNullable", "interface-extra-required-argument"),
    (r"which is not an interface!", "implements-non-interface"),
    (r"which does not exist!", "implements-unknown"),
    (r"Missing Query Type", "missing-query-type"),
    (r"Missing Mutation Type", "missing-mutation-type"),
    (r"Missing Subscription Type", "missing-subscription-type"),
    (r"has no fields\.", "object-without-fields"),
    (r"contains itself\.", "union-contains-itself"),
    (r"is missing an implementation", "scalar-without-implementation"),
    (r"is not unique", "enum-value-not-unique"),
    (r"Argument < .* which is not a Scalar, an Enum or an InputObject", "argument-not-input-type"),
    (r"Field < .* which is not a Scalar, an Enum or an InputObject", "input-field-not-input-type"),
    (r"is not awaitable\.|is not an Async Generator\.", "directive-hook-not-awaitable"),
    (r"Can't extend a non existing type", "ext-non-existing-type"),
    (r"cause it's not an", "ext-wrong-kind"),
    (r"cause value already exists", "ext-enum-value-exists"),
    (r"Can't add Field < .* cause field already exists", "ext-field-exists"),
    (r"cause Interface already exists", "ext-interface-exists"),
    (r"cause PossibleType already exists", "ext-possible-type-exists"),
    (r"Can't add Input Field", "ext-input-field-exists"),
    (r"Directive to schema cause it's already there", "ext-schema-directive-already-there"),
    (r"Directive to < .* cause it's already there", "ext-directive-already-there"),
    (r"multiple times", "ext-schema-operation-multiple-times"),
    (r"cause type is already defined", "ext-schema-operation-type-defined"),
]

SPEC_RULES = ["duplicate-definition", "invalid-extension", "undefined-type", "non-input-type", "interface-not-honoured",
              "root-types", "object-without-fields", "union-contains-itself", "duplicate-enum-value",
              "scalar-without-implementation", "directive-hook-not-awaitable"]


def kinds_of_exception(e):
    name = type(e).__name__
    msg = str(e)
    if name == "RedefinedImplementation":
        return ["redefined-directive"] if "directive definition" in msg else ["redefined-type"]
    if name == "GraphQLSchemaError":
        out = []
        for line in msg.splitlines():
            line = line.strip()
            if not line:
                continue
            for pat, k in KINDS:
                if re.search(pat, line):
                    out.append(k)
                    break
            else:
                out.append("unclassified:" + line[:80])
        return out
    return ["raised:" + name]


async def try_build(m):
    """returns dict(built, kinds, usable, exception)"""
    from tartiflette import create_engine, Directive, Scalar
    name = fresh_schema_name("c12")
    for d in m["dirdefs"]:
        if d["name"] in ("skip", "include", "deprecated", "nonIntrospectable"):
            continue

        def mk(d):
            if d.get("awaitable", True):
                @Directive(d["name"], schema_name=name)
                class D:            # pylint: disable=unused-variable
                    async def on_field_execution(self, directive_args, next_resolver, parent, args, ctx, info):
                        return await next_resolver(parent, args, ctx, info)
            else:
                import functools
                style = d.get("hook_style", "plain")

                async def real(self, directive_args, next_resolver, parent, args, ctx, info):
                    return await next_resolver(parent, args, ctx, info)
                body = {}
                if style == "plain":
                    def on_field_execution(self, directive_args, next_resolver, parent, args, ctx, info):
                        return None
                    body["on_field_execution"] = on_field_execution
                elif style == "wrapped":
                    @functools.wraps(real)
                    def on_field_execution(self, *a, **k):           # synchronous: calling it returns no awaitable
                        return "not awaitable"
                    body["on_field_execution"] = on_field_execution
                elif style == "callable_object":
                    class Hook:
                        def __call__(self, *a, **k):
                            return None
                    body["on_field_execution"] = Hook()
                elif style == "post_bake":
                    def on_post_bake(self, element):
                        return None
                    body["on_post_bake"] = on_post_bake
                    body["on_field_execution"] = real
                elif style == "argument_execution":
                    def on_argument_execution(self, *a, **k):
                        return None
                    body["on_argument_execution"] = on_argument_execution
                elif style == "lambda":
                    body["on_pre_output_coercion"] = lambda self, *a, **k: None
                else:
                    async def on_schema_subscription(self, *a, **k):    # a coroutine, not an async generator
                        return None
                    body["on_schema_subscription"] = on_schema_subscription
                Directive(d["name"], schema_name=name)(type("D2", (), body))
        try:
            mk(d)
        except Exception:           # pylint: disable=broad-except
            pass                    # the same directive registered twice for a duplicated definition
    for sc in set(m["scalar_impls"]):
        if sc in gen.BUILTIN_SCALARS:
            continue

        def mks(sc):
            @Scalar(sc, schema_name=name)
            class S:                # pylint: disable=unused-variable
                def coerce_output(self, v):
                    return v

                def coerce_input(self, v):
                    return v

                def parse_literal(self, ast):
                    return getattr(ast, "value", None)
        mks(sc)
    sdl = schemagen.model_sdl(m)
    try:
        engine = await create_engine(sdl, schema_name=name)
    except Exception as e:          # pylint: disable=broad-except
        return {"built": False, "kinds": kinds_of_exception(e), "exception": "%s: %s" % (type(e).__name__, str(e)[:600]),
                "usable": False, "sdl": sdl}
    usable = False
    try:
        r = await engine.execute("{ __typename }")
        usable = isinstance(r, dict) and "data" in r
    except Exception:               # pylint: disable=broad-except
        usable = False
    return {"built": True, "kinds": [], "exception": None, "usable": usable, "sdl": sdl}


def cases_file(items):
    L = [coqterm.HEADER,
         "From TV Require Import Model.Schema Model.ImplValidate Model.SchemaBuild Model.SpecSchema.\n",
         "Definition cases : list (sdl * bool * list string) := %s.\n" % coq_list(
             ["(%s, %s, %s)" % (schemagen.model_coq(m), coq_bool(o["built"]), coq_list([coq_string(k) for k in o["kinds"]]))
              for m, o in items]),
         'Eval vm_compute in ("disagree", idx_where (fun c => match c with (s, b, ks) => negb (build_agree s b ks) end) cases 0).\n',
         'Eval vm_compute in ("masks", map (fun c => match c with (s, _, _) => spec_build_mask s end) cases).\n',
         'Eval vm_compute in ("verdicts", map (fun c => match c with (s, _, _) => build_verdict s end) cases).\n',
         ]
    return "".join(L).replace("idx_where", "idx_where'").replace(
        "Model.SpecSchema.\n", "Model.SpecSchema Model.RunValidate.\n")


def main(tier_, replay=None):
    from . import engine_env, c01
    rep = common.Report("C12")
    if replay:
        engine_env.setup()
        r = json.load(open(replay))
        if "sdl" not in r:
            print("replay file names a proof obligation / correspondence, not an input:", r.get("what"))
            return 1
        m = r["model"]
        o = asyncio.run(try_build(m))
        print(json.dumps({k: o[k] for k in ("built", "kinds", "exception", "usable")})[:2000])
        if o["built"]:
            print("VIOLATION property=C12 replay=%s" % replay)
            return 1
        return 0
    seed = common.seed()
    b = common.build(["Properties/C12.vo", "Model/SpecSchema.vo", "Model/RunValidate.vo"])
    gate = common.grep_gate()
    proofs_ok = b["ok"] and not gate
    engine_env.setup()
    rng = random.Random(seed * 15485863 + 12)
    n_schemas, limit = (6, 3) if tier_ == "quick" else (40, 6)
    items = []
    for _ in range(n_schemas):
        m, _s = schemagen.base_model(rng)
        items.append(({"rule": None, "where": "valid schema model"}, m))
        for rule, where, m2 in schemagen.mutants(rng, m, limit):
            items.append(({"rule": rule, "where": where}, m2))

    async def run_all():
        return [await try_build(m) for _meta, m in items]
    obs = asyncio.run(run_all())
    coq_items = [(m, o) for (meta, m), o in zip(items, obs) if not m.get("text_mutation")]
    files = []
    step = 25
    for j in range(0, len(coq_items), step):
        files.append(("C12_s%d_%d" % (seed, j), cases_file(coq_items[j:j + step])))
    results = common.run_coq_many(files)
    agree, masks = {}, {}
    k = 0
    for (fname, _t), (ok, so, se) in zip(files, results):
        chunk = coq_items[k:k + step]
        if not ok:
            rep.violation({"property": "C12", "what": "case file failed to evaluate", "file": fname, "stderr": se[-1500:]}, no_input=True)
        else:
            ms = c01.parse_int_list(so, "masks") or []
            dis = set(common.parse_Z_list(so, "disagree") or [])
            for i, (m, o) in enumerate(chunk):
                agree[id(m)] = i not in dis
                masks[id(m)] = ms[i] if i < len(ms) else None
        k += step
    viol, mism, per_rule, valid_rejected, ineffective, total = [], [], {}, [], 0, 0
    for (meta, m), o in zip(items, obs):
        total += 1
        mask = masks.get(id(m))
        if m.get("text_mutation"):
            per_rule["syntax"] = per_rule.get("syntax", 0) + 1
            if o["built"]:
                viol.append((meta, m, o, "an engine was built from a syntactically invalid SDL"))
            continue
        if mask is None:
            continue
        if not agree.get(id(m), True):
            mism.append((meta, m, o))
        if meta["rule"] is None:
            if mask != 0:
                ineffective += 1
            elif not o["built"]:
                valid_rejected.append((meta, m, o))
            continue
        if mask == 0:
            ineffective += 1
            continue
        for i, r in enumerate(SPEC_RULES):
            if mask >> i & 1:
                per_rule[r] = per_rule.get(r, 0) + 1
        if o["built"]:
            viol.append((meta, m, o, "create_engine returned an engine%s although the SDL breaks: %s" % (
                " that answers requests" if o["usable"] else "", [r for i, r in enumerate(SPEC_RULES) if mask >> i & 1])))
    for meta, m, o, why in viol[:6]:
        rep.violation({"property": "C12", "what": why, "rewrite": "%s: %s" % (meta["rule"], meta["where"]), "sdl": o["sdl"],
                       "model": {k: v for k, v in m.items() if k != "text_mutation"}})
    if not viol and not rep.violations:
        if not proofs_ok:
            rep.violation({"property": "C12", "what": "proof obligation no longer checks", "file": b.get("failed_file"),
                           "theorem": b.get("failed_lemma"), "gate": gate, "log_tail": b["log"][-1500:]}, no_input=True)
        elif mism:
            meta, m, o = mism[0]
            rep.violation({"property": "C12", "what": "correspondence broken: the build model and create_engine disagree (built / "
                           "rejected, or the set of error kinds)", "n": len(mism), "rewrite": "%s: %s" % (meta["rule"], meta["where"]),
                           "sdl_text": o["sdl"], "engine": {"built": o["built"], "kinds": o["kinds"], "exception": o["exception"]}},
                          no_input=True)
        elif valid_rejected:
            meta, m, o = valid_rejected[0]
            rep.violation({"property": "C12", "what": "correspondence note: a schema model the specification predicates accept was "
                           "rejected by create_engine AND by the build model (over-strict rule; see C11)", "sdl_text": o["sdl"],
                           "exception": o["exception"]}, no_input=True)
    nob, names = common.count_obligations(C12_FILES)
    assum = common.assumptions("Properties/C12.v") if b["ok"] else {"closed": 0, "axioms": ["build failed"]}
    common.write_evidence("C12", tier_, "proof", {
        "obligations": nob, "discharged": nob if proofs_ok else 0, "checker_cmd": "make Properties/C12.vo",
        "trusted_base": common.TRUSTED_BASE + [
            "Print Assumptions: %d theorems closed; axioms: %s" % (assum["closed"], assum["axioms"] or "none")],
        "theorems": [n for n in names if n.startswith("C12_")],
        "evaluations": total, "distinct_nontrivial": total - ineffective,
        "rule": "valid schema models x SDL-level violation rewrites (catalogue in harness/schemagen.py); non-trivial = the "
                "specification predicates say the model breaks a checked rule (or the text is syntactically invalid)",
        "traces_validated_against_impl": len(coq_items), "rewrites_without_effect": ineffective,
        "models_breaking_rule": per_rule, "impl_model_mismatches": len(mism), "property_violations": len(viol),
        "samples": [{"rewrite": "%s: %s" % (meta["rule"], meta["where"])} for (meta, _m) in items[1:6]],
    }, rep.wall(), violations=len(rep.violations),
        assumptions_=["the lark SDL grammar decides which texts are syntactically valid (oracle); inspect decides awaitability"])
    return rep.finish()
