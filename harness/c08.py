"""C08 — results do not depend on resolver scheduling or concurrency settings.
(also the driver used by C09 and C15)"""
import asyncio
import json
import random

from . import common, coqterm, gen, execgen, c01, sched
from .c04 import fresh_schema_name
from .coqterm import coq_list, coq_string, coq_option, coq_bool

C08_FILES = ["Properties/C08.v", "Proofs/AsyncProofs.v", "Proofs/AsyncBridge.v", "Proofs/ExecRefine.v", "Proofs/MixedFields.v", "Proofs/ExecCalls.v"]
CONFIGS = [{"parent": p, "list": l, "args": a} for p in (True, False) for l in (True, False) for a in ("gather", "sync")]
# per-field parent_concurrently / list_concurrently settings (a third of the fields concurrent, a third sequential, a
# third left to the engine default), over both engine defaults; the model's configuration carries the same table
MIXED_CONFIGS = [{"parent": p, "list": not p, "args": "gather", "mixed": m} for m, p in ((1, True), (2, False), (3, True))]


def cfg_coq(cfg, s=None):
    return execgen.cfg_coq(cfg, s)


def sites_coq(paths):
    return coq_list([execgen.plain_path_coq(list(p)) for p in paths])


def sched_case_term(s, c, ast, run, cfg):
    rv = c01.RecView(run)
    raw = coq_list(["(%s, %s)" % (coq_string(k), execgen.model_value(v)) for k, v in c["variables"].items()])
    return "(%s, %s, %s, %s, %s, %s, %s, %s, %s, %s)" % (
        gen.document_coq(ast), execgen.usercode_coq(s, rv),
        coq_option(coq_string(c["opname"]) if c.get("opname") else None), raw,
        execgen.model_value(c.get("root")), cfg_coq(cfg, s), sites_coq(run["picks"]),
        execgen.observation_coq(run["response"], rv), sites_coq(run["starts"]), sites_coq(run["finishes"]))


SCHED_TYPE = ("list (document * usercode * option string * vars * pyval * config * list site * response * "
              "list site * list site)")
SCHED_EVAL = (
    'Eval vm_compute in ("sched_mismatch", idx_where (fun c => match c with '
    "(doc, U, opn, raw, root, cf, picks, obs, st, fi) => negb (sched_agree sch doc U cf opn raw root picks obs st fi) "
    "end) cases 0).\n"
    'Eval vm_compute in ("seq_models_disagree", idx_where (fun c => match c with '
    "(doc, U, opn, raw, root, cf, picks, obs, st, fi) => negb (seq_models_agree sch doc U cf opn raw root) "
    "end) cases 0).\n"
    'Eval vm_compute in ("verdicts", map (fun c => match c with '
    "(doc, U, opn, raw, root, cf, picks, obs, st, fi) => spec_verdict sch doc U cf opn raw root obs "
    "end) cases).\n")


def sched_cases_file(s, items, extra_eval=""):
    """items: list of (case, ast, run, cfg)"""
    asts = [a for _c, a, _r, _f in items]
    strings, stro = set(), []
    for c, _a, r, _f in items:
        for call in r["calls"]:
            if call["ret"][0] == "ret":
                c01.collect_strings(call["ret"][1], strings)
                c01.collect_str_oracle(call["ret"][1], stro)
    ftab = c01.float_table(asts, strings)
    seen, stab = set(), []
    for k, v in stro:
        if k not in seen:
            seen.add(k)
            stab.append((k, v))
    L = [coqterm.HEADER,
         "From TV Require Import Model.Schema Model.ImplInput Model.ScalarLawsB Model.StdScalars "
         "Model.RunInput Model.RunArgs Model.ImplExec Model.Async Model.RunExec.\n",
         "Definition ftab : list (string * option spec_float) := %s.\n" % coq_list(
             ["(%s, %s)" % (coq_string(k), coq_option(None if v is None else coqterm.coq_float(v)))
              for k, v in ftab.items()]),
         "Definition stab : list (pyval * option string) := %s.\n" % coq_list(
             ["(%s, %s)" % (k, coq_option(None if v is None else coq_string(v))) for k, v in stab]),
         "Definition O := table_oracle ftab stab.\n",
         "Definition sch : schema := %s.\n" % gen.schema_coq(s),
         "Definition cases : %s := %s.\n" % (SCHED_TYPE, coq_list([sched_case_term(s, c, a, r, f) for c, a, r, f in items])),
         SCHED_EVAL, extra_eval]
    return "".join(L)


def handwritten_schema():
    """fan-out shapes named by the property: lists of non-null objects with non-null fields"""
    from collections import OrderedDict
    from .gen import N, L, NN
    types = OrderedDict()
    types["Item"] = {"kind": "OBJECT", "interfaces": [], "fields": [
        {"name": "v", "type": NN(N("Int")), "args": []}, {"name": "w", "type": N("Int"), "args": []},
        {"name": "sub", "type": N("Item"), "args": []}, {"name": "tags", "type": NN(L(NN(N("String")))), "args": []},
        {"name": "tag", "type": N("Int"), "args": [{"name": "n", "type": NN(N("Int")), "default": ("int", 3)}]}]}
    types["Query"] = {"kind": "OBJECT", "interfaces": [], "fields": [
        {"name": "items", "type": L(NN(N("Item"))), "args": []}, {"name": "pairs", "type": L(NN(L(NN(N("Item"))))), "args": []},
        {"name": "one", "type": N("Item"), "args": []}, {"name": "strict", "type": NN(N("Item")), "args": []},
        {"name": "ping", "type": N("Int"), "args": []}]}
    types["Mutation"] = {"kind": "OBJECT", "interfaces": [], "fields": [
        {"name": "ma", "type": N("Item"), "args": []}, {"name": "mb", "type": N("Item"), "args": []},
        {"name": "mc", "type": NN(N("Int")), "args": []}, {"name": "ml", "type": L(NN(N("Item"))), "args": []},
        {"name": "mt", "type": N("Int"), "args": [{"name": "n", "type": NN(N("Int")), "default": ("int", 3)}]}]}
    s = {"types": types, "query": "Query", "mutation": "Mutation", "subscription": None}
    s["resolvers"] = {(t, f["name"]) for t in ("Item", "Query", "Mutation") for f in types[t]["fields"]}
    s["type_resolvers"], s["field_type_resolvers"] = set(), set()
    return s


def shared_root_schema():
    """the handwritten schema with ONE object type declared as both the query and the mutation root
    (`schema { query: Query mutation: Query }`, seed C09-h): the operation keyword, not the root type, selects the serial chain"""
    s = handwritten_schema()
    s["types"]["Query"]["fields"] = s["types"]["Query"]["fields"] + s["types"]["Mutation"]["fields"]
    del s["types"]["Mutation"]
    s["mutation"] = "Query"
    s["resolvers"] = {(t, f["name"]) for t in ("Item", "Query") for f in s["types"][t]["fields"]}
    return s


HAND_QUERIES = [
    "{ items { v w } ping }",
    "{ items { v } one { v w } ping }",
    "{ pairs { v } ping }",
    "{ items { v sub { v } } }",
    "{ one { sub { v w } w } strict { v } }",
    "{ items { tags v } ping }",
    # an argument that fails at execution time (null through a nullable variable at a defaulted non-null argument), once
    # per list item
    ("query ($x: Int) { items { tag(n: $x) w } ping }", {"x": None}),
    ("query ($x: Int) { pairs { tag(n: $x) } one { tag(n: $x) sub { tag } } }", {"x": None}),
]
HAND_MUTATIONS = [
    "mutation { ma { v w } mb { v } }",
    "mutation { ma { w sub { v w } } mb { w } mc }",
    "mutation { ml { v w } x: ma { w } mb { v } }",
    "mutation { ma { sub { v } w } mc mb { w } }",
    # response keys repeated by a root fragment (spread / inline) with other keys in between: order = first appearance
    "mutation { first: ma { v } second: mb { v } ...F third: mc } fragment F on Mutation { first: ma { w } }",
    "mutation { one: ma { v } two: mb { w } ... on Mutation { one: ma { w } three: ml { v } } two: mb { v } }",
    "mutation { a: mb { v } ...G b: ma { w } ...G } fragment G on Mutation { b: ma { v } a: mb { w } c: mc }",
    # a NULLABLE root field whose argument coercion fails at execution time (null through a nullable variable at a
    # defaulted non-null argument): it becomes null with an error at its path, the following root fields still run
    ("mutation ($x: Int) { first: mt(n: 1) second: mt(n: $x) third: mb { v } fourth: mt }", {"x": None}),
    ("mutation ($x: Int) { a: mt(n: $x) b: ma { w } c: mt(n: $x) d: mc }", {"x": None}),
]


def handwritten_cases(rng, queries):
    return [{"query": q if isinstance(q, str) else q[0], "variables": {} if isinstance(q, str) else dict(q[1]), "opname": None,
             "kind": "query", "oracle_seed": rng.randrange(1 << 30), "root": None, "adversarial": 0.0, "fail": 0.0}
            for q in queries]


async def fault_variants(s, cases, rng, per_case, root_kinds=()):
    """fault-free baseline gives the call sites; each variant fails one or two of them"""
    eng = await sched.build_gated_engine(s, fresh_schema_name("c08base"), None, None, CONFIGS[0])
    out = []
    for c in cases:
        out.append(c)
        base = await sched.run_scheduled(eng, s, dict(c, adversarial=0.0, fail=0.0), sched.strategy("first", rng))
        sites = [tuple(x["path"]) for x in base["calls"]]
        if not sites:
            continue
        for k in root_kinds:          # every root field failed in turn with these kinds
            for p in [p for p in sites if len(p) == 1][:3]:
                out.append(dict(c, adversarial=0.0, fail=0.0, faults=[(list(p), k)]))
        for _ in range(per_case):
            ps = rng.sample(sites, 1 if rng.random() < 0.6 or len(sites) < 2 else 2)
            out.append(dict(c, adversarial=0.0, fail=0.0,
                            faults=[(list(p), rng.choice(["raise", "null", "raise_gql_ext", "raise_coercible"])) for p in ps]))
    return out


def small_cases(rng, s, n, kinds=("query",), fail=0.1):
    out = []
    tries = 0
    while len(out) < n and tries < n * 20:
        tries += 1
        kind = rng.choice(kinds)
        dg = execgen.DocGen(rng, s, max_depth=2)
        q, variables, opname = dg.document(kind, n_ops=1)
        if len(q) > 700:
            continue
        out.append({"query": q, "variables": variables, "opname": opname, "kind": kind,
                    "oracle_seed": rng.randrange(1 << 30), "root": None, "adversarial": 0.03, "fail": fail})
    return out


async def explore_schema(s, cases, rng, per_case_limit, other_cfg_runs):
    engines = {}
    for cfg in CONFIGS + MIXED_CONFIGS:
        engines[json.dumps(cfg, sort_keys=True)] = await sched.build_gated_engine(
            s, fresh_schema_name("c08"), None, None, cfg)
    out = []
    for c in cases:
        runs = []
        base_cfg = CONFIGS[0]
        eng = engines[json.dumps(base_cfg, sort_keys=True)]
        rs, exhaustive = await sched.enumerate_schedules(eng, s, c, per_case_limit, rng)
        runs += [(r, base_cfg, exhaustive) for r in rs]
        for cfg in CONFIGS[1:] + MIXED_CONFIGS:
            eng = engines[json.dumps(cfg, sort_keys=True)]
            for strat in other_cfg_runs + (["last", "random"] if "mixed" in cfg else []):
                r = await sched.run_scheduled(eng, s, c, sched.strategy(strat, rng))
                runs.append((r, cfg, False))
        out.append((c, runs))
    return out


# `execute` terminates whichever concurrency options are chosen -- also when something on the DIRECTIVE side fails while
# several executions of one field overlap: directives applied in the SDL whose own arguments cannot be coerced (the engine
# builds such schemas and fails the field on every execution), next to ones with valid arguments
DIRECTIVE_SDL = """
directive @lim(n: Int!) on FIELD_DEFINITION
directive @ok(n: Int = 1) on FIELD_DEFINITION
type Item { v: Int @lim(n: "abc") w: Int @ok(n: 2) u: Int @lim }
type Query { items: [Item] broken: Int @lim(n: "abc") fine: Int @ok one: Item }
"""
DIRECTIVE_QUERIES = ["{ items { v w } }", "{ b1: broken b2: broken fine }", "{ items { u v } one { v u w } broken }",
                     "{ items { w } fine f2: fine }"]


async def directive_termination_scenario(timeout=15.0):
    from tartiflette import create_engine, Resolver, Directive
    from tartiflette.resolver.default import sync_arguments_coercer
    problems, n = [], 0
    answers = {}
    for cfg in CONFIGS:
        if len(problems) >= 3:
            break                                   # enough to report; every further hang costs a full timeout
        name = fresh_schema_name("c08dir")
        for dn in ("lim", "ok"):
            def mkd(dn):
                @Directive(dn, schema_name=name)
                class D:          # pylint: disable=unused-variable
                    async def on_field_execution(self, directive_args, next_resolver, parent, args, ctx, info):
                        await asyncio.sleep(0)
                        return await next_resolver(parent, args, ctx, info)
            mkd(dn)
        kw = dict(schema_name=name, parent_concurrently=cfg["parent"], list_concurrently=cfg["list"])
        if cfg["args"] == "sync":
            kw["arguments_coercer"] = sync_arguments_coercer

        @Resolver("Query.items", **kw)
        async def items(parent, args, ctx, info):       # pylint: disable=unused-variable
            return [{"v": 1, "w": 2, "u": 3}, {"v": 4, "w": 5, "u": 6}, {"v": 7, "w": 8, "u": 9}]

        @Resolver("Query.one", **kw)
        async def one(parent, args, ctx, info):         # pylint: disable=unused-variable
            await asyncio.sleep(0)
            return {"v": 1, "w": 2, "u": 3}
        engine = await create_engine(DIRECTIVE_SDL, schema_name=name, coerce_parent_concurrently=cfg["parent"],
                                     coerce_list_concurrently=cfg["list"])
        for q in DIRECTIVE_QUERIES:
            for rnd in range(2):
                n += 1
                try:
                    resp = await asyncio.wait_for(engine.execute(q, initial_value={"broken": 1, "fine": 2}), timeout)
                except asyncio.TimeoutError:
                    problems.append({"sdl": DIRECTIVE_SDL, "query": q, "configuration": cfg, "execution": rnd + 1,
                                     "kind": "execute has not returned after %.0f s" % timeout})
                    break
                except Exception as e:  # pylint: disable=broad-except
                    problems.append({"sdl": DIRECTIVE_SDL, "query": q, "configuration": cfg, "kind": "execute raised %r" % e})
                    break
                key = (json.dumps(resp.get("data"), sort_keys=True),
                       sorted(json.dumps([e.get("path"), e.get("message")], default=repr) for e in resp.get("errors") or []))
                if answers.setdefault(q, (cfg, key))[1] != key:
                    problems.append({"sdl": DIRECTIVE_SDL, "query": q, "configuration": cfg, "execution": rnd + 1,
                                     "kind": "the response differs from the one under configuration %r" % (answers[q][0],),
                                     "response": repr(resp)[:1500], "other": repr(answers[q][1])[:1500]})
    return problems, n


# argument coercions that really SUSPEND, each for its own number of loop iterations (seed C08-h): whichever coercion of a
# field's arguments finishes first, every value reaches the resolver under its own argument name, in every configuration
PACED_SDL = """
directive @paced on ARGUMENT_DEFINITION
type Query {
  span(lo: Int @paced, hi: Int @paced, step: Int = 7 @paced): String
  plain(lo: Int, hi: Int): String
}
"""
PACED_REQUESTS = [("{ span(lo: 1, hi: 20, step: 300) plain(lo: 1, hi: 2) }", {}, "lo=1 hi=20 step=300"),
                  ("query ($a: Int, $b: Int) { span(hi: $b, lo: $a) }", {"a": 2, "b": 50}, "lo=2 hi=50 step=7"),
                  ("{ span(lo: 4, step: 9) }", {}, "lo=4 hi=None step=9")]


async def paced_arguments_scenario():
    import itertools
    from tartiflette import create_engine, Resolver, Directive
    from tartiflette.resolver.default import sync_arguments_coercer
    problems, n = [], 0
    for cfg in CONFIGS:
        name = fresh_schema_name("c08paced")

        @Directive("paced", schema_name=name)
        class Paced:          # pylint: disable=unused-variable
            async def on_argument_execution(self, directive_args, next_directive, parent_node, argument_definition_node,
                                            argument_node, value, ctx):
                for _ in range(ctx["ticks"].get(argument_definition_node.name.value, 0)):
                    await asyncio.sleep(0)
                return await next_directive(parent_node, argument_definition_node, argument_node, value, ctx)
        kw = dict(schema_name=name, parent_concurrently=cfg["parent"], list_concurrently=cfg["list"])
        if cfg["args"] == "sync":
            kw["arguments_coercer"] = sync_arguments_coercer

        async def body(parent, args, ctx, info):
            return "lo=%s hi=%s step=%s" % (args.get("lo"), args.get("hi"), args.get("step"))
        Resolver("Query.span", **kw)(body)
        Resolver("Query.plain", **kw)(body)
        engine = await create_engine(PACED_SDL, schema_name=name, coerce_parent_concurrently=cfg["parent"],
                                     coerce_list_concurrently=cfg["list"])
        for ticks in itertools.product((0, 1, 3), repeat=3):
            t = dict(zip(("lo", "hi", "step"), ticks))
            for q, variables, want in PACED_REQUESTS:
                n += 1
                try:
                    resp = await asyncio.wait_for(engine.execute(q, variables=dict(variables), context={"ticks": t}), 15.0)
                except Exception as e:  # pylint: disable=broad-except
                    problems.append({"sdl": PACED_SDL, "query": q, "variables": variables, "configuration": cfg,
                                     "loop iterations each argument coercion waits": t, "kind": "execute raised / hung: %r" % e})
                    continue
                got = (resp.get("data") or {}).get("span")
                if got != want or resp.get("errors"):
                    problems.append({"sdl": PACED_SDL, "query": q, "variables": variables, "configuration": cfg,
                                     "loop iterations each argument coercion waits": t,
                                     "kind": "the resolver received %r, the request says %r" % (got, want),
                                     "response": repr(resp)[:1000]})
    return problems, n


def data_key(resp):
    import re
    return re.sub(r"0x[0-9a-fA-F]+", "0x", json.dumps(resp.get("data"), sort_keys=False, default=repr))


def main(tier_, replay=None):
    from . import engine_env
    rep = common.Report("C08")
    seed = common.seed()
    b = common.build(["Properties/C08.vo", "Model/RunExec.vo", "Model/StdScalars.vo"])
    gate = common.grep_gate()
    proofs_ok = b["ok"] and not gate
    engine_env.setup()
    rng = random.Random(seed * 2654435761 % (1 << 31) + 8)
    n_schemas, n_cases, limit, strategies = (2, 8, 10, ["first", "random"]) if tier_ == "quick" else \
        (10, 16, 60, ["first", "last", "deepest", "random", "random"])
    viol, mism, total_runs, exhaustive_cases, schedules = [], [], 0, 0, set()
    files, meta = [], []
    for si in range(-1, n_schemas + 1):
        if si == -1:
            # heterogeneous lists of an abstract type, a field merged from unconditional and type-conditioned nodes
            s = execgen.hand_abstract_schema()
            cases = handwritten_cases(rng, execgen.HAND_ABSTRACT_QUERIES[:3] + execgen.HAND_ABSTRACT_QUERIES[4:6])
            cases = cases + [dict(c, oracle_seed=rng.randrange(1 << 30)) for c in cases[:3]]
            # a list field selected again inside its own sub-selection (every configuration, the sequential list
            # coercion included): own generator, the stream above is not touched
            r3 = random.Random(seed * 4099 + 8)
            cases += handwritten_cases(r3, [q for q in execgen.HAND_ABSTRACT_QUERIES if "more { x more" in q[0]])
        elif si == 0:
            s = handwritten_schema()
            cases = asyncio.run(fault_variants(s, handwritten_cases(rng, HAND_QUERIES), rng, 3 if tier_ == "quick" else 10))
        else:
            s = execgen.gen_exec_schema(rng, n_objects=rng.randrange(2, 4))
            cases = small_cases(rng, s, n_cases)
        explored = asyncio.run(explore_schema(s, cases, rng, limit, strategies))
        items = []
        for c, runs in explored:
            ast = gen.parse_query(c["query"])
            datas = {}
            if runs and runs[0][2]:
                exhaustive_cases += 1
            for r, cfg, _ex in runs:
                total_runs += 1
                schedules.add((si, c["query"], json.dumps(cfg, sort_keys=True), tuple(map(repr, r["picks"]))))
                if r["problems"] or r["raised"]:
                    viol.append((s, c, r, cfg, r["problems"] + ([r["raised"]] if r["raised"] else [])))
                datas.setdefault(data_key(r["response"]), (r, cfg))
                items.append((c, ast, r, cfg))
            if len(datas) > 1:
                (r1, cfg1), (r2, cfg2) = list(datas.values())[:2]
                viol.append((s, c, r2, cfg2, ["data differs between schedules/configurations: %s under picks %r / config %r"
                                             % (data_key(r1["response"])[:300], r1["picks"], cfg1)]))
        step = 40
        for j in range(0, len(items), step):
            files.append(("C08_s%d_%s_%d" % (seed, ("h" if si < 0 else str(si)), j), sched_cases_file(s, items[j:j + step])))
            meta.append((s, items[j:j + step]))
    results = common.run_coq_many(files)
    seq_dis = []
    for (s, items), (ok, so, se) in zip(meta, results):
        if not ok:
            rep.violation({"property": "C08", "what": "case file failed to evaluate", "stderr": se[-1500:]}, no_input=True)
            continue
        verdicts = c01.parse_int_list(so, "verdicts") or []
        for i, v in enumerate(verdicts):
            if v & (1 | 8 | 16):
                c, _a, r, cfg = items[i]
                viol.append((s, c, r, cfg, ["the response violates C01/C02/C03 semantics under this schedule (verdict %d)" % v]))
        for i in common.parse_Z_list(so, "sched_mismatch") or []:
            mism.append((s,) + items[i])
        for i in common.parse_Z_list(so, "seq_models_disagree") or []:
            seq_dis.append((s,) + items[i])
    dir_problems, dir_runs = asyncio.run(directive_termination_scenario())
    total_runs += dir_runs
    paced_problems, paced_runs = asyncio.run(paced_arguments_scenario())
    total_runs += paced_runs
    dir_problems = dir_problems + paced_problems
    for pr in dir_problems[:3]:
        rep.violation(dict(pr, property="C08"))
    for s, c, r, cfg, why in viol[:5]:
        rep.violation({"property": "C08", "kind": why, "sdl": gen.schema_sdl(s), "query": c["query"],
                       "variables": c["variables"], "oracle_seed": c["oracle_seed"], "configuration": cfg,
                       "schedule (released response paths, in order)": [list(p) for p in r["picks"]],
                       "response": repr(r["response"])[:2500], "start_finish_log": [(k, list(p)) for k, p in r["log"]][:80]})
    if not viol and not dir_problems:
        if not proofs_ok:
            rep.violation({"property": "C08", "what": "proof obligation no longer checks", "file": b.get("failed_file"),
                           "theorem": b.get("failed_lemma"), "gate": gate, "log_tail": b["log"][-1500:]}, no_input=True)
        elif mism or seq_dis:
            s, c, _a, r, cfg = (mism or seq_dis)[0]
            rep.violation({"property": "C08", "what": "correspondence broken: the engine under this schedule and run_sched of "
                           "the async model disagree (response / started / finished sets)" if mism else
                           "the calculus' sequential interpreter and the state-passing model disagree",
                           "n": len(mism) + len(seq_dis), "sdl": gen.schema_sdl(s), "query": c["query"],
                           "variables": c["variables"], "configuration": cfg, "schedule": [list(p) for p in r["picks"]],
                           "response": repr(r["response"])[:2000]}, no_input=True)
    nob, names = common.count_obligations(C08_FILES)
    assum = common.assumptions("Properties/C08.v") if b["ok"] else {"closed": 0, "axioms": ["build failed"]}
    common.write_evidence("C08", tier_, "proof", {
        "obligations": nob, "discharged": nob if proofs_ok else 0,
        "checker_cmd": "make Properties/C08.vo", "trusted_base": common.TRUSTED_BASE + [
            "Print Assumptions: %d theorems closed; axioms: %s" % (assum["closed"], assum["axioms"] or "none")],
        "theorems": [n for n in names if n.startswith("C08_")],
        "evaluations": total_runs, "distinct_nontrivial": len(schedules),
        "rule": "small requests under the gated scheduler: systematic enumeration of pick sequences in the default "
                "configuration (bounded), strategies first/last/deepest/random in the other 7 of the 2x2x2 configurations; "
                "non-trivial = distinct (request, configuration, pick sequence)",
        "traces_validated_against_impl": total_runs, "requests_enumerated_exhaustively": exhaustive_cases,
        "impl_model_mismatches": len(mism), "seq_model_disagreements": len(seq_dis), "property_violations": len(viol),
        "samples": [{"query": c["query"], "schedule": [list(p) for p in r["picks"]], "configuration": cfg}
                    for (_s, items) in meta[:1] for (c, _a, r, cfg) in items[:3]],
    }, rep.wall(), violations=len(rep.violations),
        assumptions_=["the asyncio runtime (task wake-up order beyond FIFO start, gather internals, cancellation, "
                      "thread-pool resolvers) is outside the model"])
    return rep.finish()
