#!/usr/bin/env python3
"""seedrun.py [seed-id ...] [--tier quick] [--props C01,C02]
Applies each seeded change to /repo, runs the check of its property (plus any extra --props),
records in seeded/<id>/meta.json which checks raised an alarm, and ALWAYS restores /repo."""
import json
import subprocess
import sys
import time
from pathlib import Path

import os
VERIF = Path(__file__).resolve().parent.parent
REPO = os.environ.get("VERIF_REPO", "/repo")      # a scratch worktree when seeds are replayed in a parallel copy


def sh(cmd, timeout=3600):
    r = subprocess.run(cmd, shell=True, cwd=VERIF, capture_output=True, text=True, timeout=timeout)
    return r.returncode, r.stdout + r.stderr


def main():
    args = sys.argv[1:]
    tier, extra = "quick", []
    ids = []
    i = 0
    while i < len(args):
        if args[i] == "--tier":
            tier = args[i + 1]; i += 2
        elif args[i] == "--props":
            extra = args[i + 1].split(","); i += 2
        else:
            ids.append(args[i]); i += 1
    if not ids:
        ids = sorted(p.name for p in (VERIF / "seeded").iterdir() if (p / "patch.diff").exists())
    rc, out = sh("git -C %s status --porcelain -- tartiflette" % REPO)
    if out.strip():
        print("refusing: /repo has local changes:\n" + out)
        return 2
    for sid in ids:
        d = VERIF / "seeded" / sid
        meta = json.loads((d / "meta.json").read_text())
        props = [meta["property"]] + [p for p in extra if p != meta["property"]]
        rc, out = sh("git -C %s apply %s" % (REPO, d / "patch.diff"))
        if rc != 0:
            print(sid, "patch does not apply:", out[-300:])
            continue
        det = {}
        # evidence/ describes the UNCHANGED tree: keep what is there, put it back afterwards
        saved = {p: ((VERIF / "evidence" / (p + ".json")).read_bytes()
                     if (VERIF / "evidence" / (p + ".json")).exists() else None) for p in props}
        try:
            for p in props:
                t0 = time.time()
                rc, out = sh("./check %s --tier %s" % (p, tier))
                lines = [l for l in out.splitlines() if l.startswith("VIOLATION")]
                det[p] = {"exit": rc, "violations": lines[:3], "wall_s": round(time.time() - t0, 1)}
                print(sid, p, "rc=%d" % rc, lines[:1])
                for l in lines[:1]:
                    rp = l.split("replay=")[1].split()[0]
                    try:
                        txt = Path(rp).read_text()
                        det[p]["replay_head"] = txt[:600]
                    except OSError:
                        pass
        finally:
            sh("git -C %s checkout -- ." % REPO)
            for p, blob in saved.items():
                f = VERIF / "evidence" / (p + ".json")
                if blob is None:
                    f.unlink(missing_ok=True)
                else:
                    f.write_bytes(blob)
        meta["detected_by"] = {p: v for p, v in det.items() if v["exit"] != 0} or None
        meta["checks_run"] = {p: v["exit"] for p, v in det.items()}
        (d / "meta.json").write_text(json.dumps(meta, indent=1) + "\n")
    rc, out = sh("git -C %s status --porcelain -- tartiflette" % REPO)
    if out.strip():
        print("WARNING /repo not clean:", out)
    return 0


if __name__ == "__main__":
    sys.exit(main())
