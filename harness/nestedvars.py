"""Spelling equivalence on the real engine (used by C04, C05 and C10): an argument value with a HOLE below the top level
of a list / input-object literal is spelled twice -- the hole filled with a LITERAL, and with a VARIABLE of the position's
type carrying the same JSON value (explicit null and an omitted variable included).  Both spellings must have the same
outcome: the resolver receives the same argument dictionary, or neither reaches the resolver.
Shapes (each one a hand witness of a seeded change of round h): falsy values (0, 0.0, false, "") at non-null positions;
an explicit null for a nullable variable with a default at a non-null position; an explicit null vs an omitted variable at
an input field with a default."""
import asyncio
import json

from .c04 import fresh_schema_name

SDL = """
enum Color { RED GREEN }
input Box { i: Int! f: Float! s: String! b: Boolean! d: ID! c: Color! }
input OBox { i: Int = 7 s: String = "dflt" c: Color = RED n: Int l: [Int!] req: Int! = 4 }
type Query {
  ints(xs: [Int!]): String
  floats(xs: [Float!]): String
  strs(xs: [String!]): String
  bools(xs: [Boolean!]): String
  ids(xs: [ID!]): String
  cols(xs: [Color!]): String
  nints(xs: [Int]): String
  box(o: Box): String
  obox(o: OBox, os: [OBox]): String
}
"""
FULL_BOX = {"i": "1", "f": "1.5", "s": '"a"', "b": "true", "d": '"x"', "c": "GREEN"}


def lit(v):
    if v is None:
        return "null"
    if v is True or v is False:
        return "true" if v else "false"
    if isinstance(v, str) and v.startswith("enum:"):
        return v[5:]
    return json.dumps(v)


def jv(v):
    return v[5:] if isinstance(v, str) and v.startswith("enum:") else v


def cases():
    """(template with %s, variable declaration, value) ; the literal spelling fills %s with lit(value)"""
    out = []
    per_type = [("ints", "Int", [0, 1, -1]), ("floats", "Float", [0.0, 1.5, 0]), ("strs", "String", ["", "a"]),
                ("bools", "Boolean", [False, True]), ("ids", "ID", ["", "x", 0]), ("cols", "Color", ["enum:RED"])]
    for field, t, vals in per_type:
        for v in vals:
            out.append(("%s(xs: [%%s])" % field, "$v: %s!" % t, v))
            out.append(("%s(xs: [%s, %%s])" % (field, lit(vals[-1])), "$v: %s!" % t, v))
        # a nullable variable with a default at a non-null position: explicit null must be refused like the literal null
        out.append(("%s(xs: [%%s])" % field, "$v: %s = %s" % (t, lit(vals[-1])), None))
        out.append(("%s(xs: [%s, %%s])" % (field, lit(vals[-1])), "$v: %s = %s" % (t, lit(vals[-1])), None))
    for name, t, vals in [("i", "Int", [0, 2]), ("f", "Float", [0.0, 2.5]), ("s", "String", ["", "b"]), ("b", "Boolean", [False, True]),
                          ("d", "ID", ["", "y"]), ("c", "Color", ["enum:RED"])]:
        others = ", ".join("%s: %s" % (k, x) for k, x in FULL_BOX.items() if k != name)
        for v in vals:
            out.append(("box(o: {%s, %s: %%s})" % (others, name), "$v: %s!" % t, v))
        out.append(("box(o: {%s, %s: %%s})" % (others, name), "$v: %s = %s" % (t, lit(vals[-1])), None))
    # nullable input fields with and without defaults: explicit null is a VALUE (not "use the default")
    for name, t, vals in [("i", "Int", [0, None]), ("s", "String", ["", None]), ("c", "Color", ["enum:GREEN", None]), ("n", "Int", [0, None]),
                          ("req", "Int", [0, 5])]:
        for v in vals:
            out.append(("obox(o: {%s: %%s})" % name, "$v: %s" % t, v))
            out.append(("obox(os: [{%s: %%s}, {n: 1}])" % name, "$v: %s" % t, v))
    out.append(("obox(o: {l: [%s, 1]})", "$v: Int!", 0))
    out.append(("nints(xs: [%s, 0])", "$v: Int", None))
    out.append(("nints(xs: [%s, 0])", "$v: Int", 0))
    return out


async def spelling_scenario():
    from tartiflette import create_engine, Resolver
    name = fresh_schema_name("nestedvars")
    seen = []

    async def body(p, a, c, i):
        seen.append(json.dumps(a, sort_keys=True))
        return "ok"
    for f in ("ints", "floats", "strs", "bools", "ids", "cols", "nints", "box", "obox"):
        Resolver("Query." + f, schema_name=name)(body)
    engine = await create_engine(SDL, schema_name=name)

    async def outcome(q, variables):
        del seen[:]
        try:
            r = await engine.execute(q, variables=variables)
        except Exception as e:  # pylint: disable=broad-except
            return "raised %r" % (e,)
        return seen[0] if seen else "refused"
    problems, n = [], 0
    for tmpl, decl, v in cases():
        q_lit = "{ %s }" % (tmpl % lit(v))
        q_var = "query (%s) { %s }" % (decl, tmpl % "$v")
        a = await outcome(q_lit, {})
        b = await outcome(q_var, {"v": jv(v)})
        n += 2
        if a != b:
            problems.append({"literal_spelling": q_lit, "variable_spelling": q_var, "variables": {"v": jv(v)},
                             "resolver_arguments_with_the_literal": a, "resolver_arguments_with_the_variable": b})
        if "=" in decl and v is None:
            # the variable omitted: its default applies, like the default written as a literal
            d = decl.split("=", 1)[1].strip()
            a2 = await outcome("{ %s }" % (tmpl % d), {})
            b2 = await outcome(q_var, {})
            n += 2
            if a2 != b2:
                problems.append({"literal_spelling": "{ %s }" % (tmpl % d), "variable_spelling": q_var, "variables": {},
                                 "resolver_arguments_with_the_literal": a2, "resolver_arguments_with_the_variable": b2})
        elif "!" not in decl and v is None and "{" in tmpl:
            # an omitted nullable variable at an input field = the field omitted (its default, if any, applies)
            import re
            omitted = re.sub(r"\w+: %s", "", tmpl)
            a3 = await outcome("{ %s }" % omitted, {})
            b3 = await outcome(q_var, {})
            n += 2
            if a3 != b3:
                problems.append({"literal_spelling": "{ %s }" % omitted, "variable_spelling": q_var, "variables": {},
                                 "resolver_arguments_with_the_literal": a3, "resolver_arguments_with_the_variable": b3})
    return problems, n


def run(rep, prop):
    """runs the scenario, reports up to three disagreements as violations of `prop`; returns (n_problems, n_requests)"""
    problems, n = asyncio.run(spelling_scenario())
    for pr in problems[:3]:
        rep.violation(dict(pr, property=prop, sdl=SDL,
                           kind="a value below the top level of a list / input-object literal reaches the resolver differently "
                                "when spelled as a variable carrying the same value than when spelled as a literal"))
    return len(problems), n
