"""Shared driver of the validation checks (C06 C07): runs documents through the real engine with
counting resolvers / type resolvers / directive hooks, prints (document, observed errors) as Coq
terms, and evaluates inside Coq the agreement of the implementation model of the validation walk
and the specification's verdict per rule."""
import asyncio
import json

from . import common, coqterm, gen, execgen, c01, valgen
from .c04 import fresh_schema_name
from .coqterm import coq_list, coq_string, coq_option, coq_bool

GENERIC = "Server encountered an error."

RULES = [
    "operation-name-uniqueness", "lone-anonymous-operation", "single-root-field",
    "field-selections-on-objects-interfaces-and-unions-types", "leaf-field-selections", "argument-names",
    "argument-uniqueness", "required-arguments", "fragment-name-uniqueness", "fragment-spread-type-existence",
    "fragments-on-composite-types", "fragment-must-be-used", "fragment-spread-target-defined",
    "fragment-spreads-must-not-form-cycles", "fragment-spread-is-possible", "values-of-correct-type",
    "input-object-field-uniqueness", "directives-are-defined", "directives-are-in-valid-locations",
    "directives-are-unique-per-location", "variable-uniqueness", "variables-are-input-types",
    "all-variable-uses-defined", "all-variables-used", "all-variable-usages-are-allowed"]


def rules_of_mask(m):
    return [r for i, r in enumerate(RULES) if m >> i & 1]


class Counters:
    def __init__(self):
        self.hooks = 0


async def build(s, schema_name, rec, oracle_ref, counters):
    from tartiflette import Directive

    for d in s.get("directives", []):
        def mk(name):
            @Directive(name, schema_name=schema_name)
            class D:                                           # pylint: disable=unused-variable
                async def on_field_execution(self, directive_args, next_resolver, parent, args, ctx, info):
                    counters.hooks += 1
                    return await next_resolver(parent, args, ctx, info)

                async def on_argument_execution(self, directive_args, next_directive, parent_node, argument_node, value, ctx):
                    counters.hooks += 1
                    return await next_directive(parent_node, argument_node, value, ctx)
        mk(d["name"])
    return await execgen.build_engine(s, schema_name, oracle_ref, rec, sdl=valgen.full_sdl(s))


async def run_docs(s, items, seed=0):
    """items: list of dict(text, variables, opname).  Returns one observation per item."""
    rec, counters = execgen.Recorder(), Counters()
    oracle_ref = [execgen.Oracle(s, seed, 0.0, 0.0), None]
    oracle_ref[1] = ctx = {}
    engine = await build(s, fresh_schema_name("val"), rec, oracle_ref, counters)
    out = []
    for it in items:
        rec.clear()
        counters.hooks = 0
        raised = None
        try:
            resp = await engine.execute(it["text"], operation_name=it.get("opname"), variables=it.get("variables") or {},
                                        context=ctx)
        except Exception as e:      # pylint: disable=broad-except
            resp, raised = {"data": None, "errors": []}, repr(e)
        errs = resp.get("errors") or []
        tagged = [e for e in errs if isinstance(e.get("extensions"), dict) and "tag" in e["extensions"]]
        crash = len(errs) == 1 and errs[0].get("message") == GENERIC
        syntax = bool(errs) and not tagged and not crash and errs[0].get("path") is None and \
            str(errs[0].get("message", "")).lower().startswith("syntax error")
        out.append({"response": resp, "raised": raised, "tagged": tagged, "crash": crash, "syntax": syntax,
                    "calls": len(rec.calls), "tr_calls": len(rec.tr_calls), "hooks": counters.hooks,
                    "refused": resp.get("data") is None and bool(errs)})
    return out


def verr_coq(e):
    locs = coq_list(["(%d, %d)%%Z" % (l["line"], l["column"]) for l in (e.get("locations") or [])])
    return "(%s, %s, %s)" % (coq_string(e["extensions"]["tag"]), execgen.path_coq(e.get("path")), locs)


def cases_file(s, cases):
    """cases: list of (ast, observation)"""
    ftab = c01.float_table([a for a, _o in cases], set())
    L = [coqterm.HEADER,
         "From TV Require Import Model.Schema Model.ImplInput Model.ScalarLawsB Model.StdScalars "
         "Model.ImplValidate Model.SpecValidate Model.RunValidate.\n",
         "Definition ftab : list (string * option spec_float) := %s.\n" % coq_list(
             ["(%s, %s)" % (coq_string(k), coq_option(None if v is None else coqterm.coq_float(v))) for k, v in ftab.items()]),
         "Definition O := table_oracle ftab [].\n",
         "Definition V : vschema := %s.\n" % valgen.vschema_coq(s),
         "Definition cases : list (document * bool * list verror) := %s.\n" % coq_list(
             ["(%s, %s, %s)" % (gen.document_coq(a), coq_bool(o["crash"]), coq_list([verr_coq(e) for e in o["tagged"]]))
              for a, o in cases]),
         'Eval vm_compute in ("disagree", idx_where\' (fun c => match c with (d, cr, es) => negb (val_agree V d cr es) end) cases 0).\n',
         'Eval vm_compute in ("masks", map (fun c => match c with (d, _, _) => spec_mask V d end) cases).\n',
         'Eval vm_compute in ("implverdicts", map (fun c => match c with (d, _, _) => impl_verdict V d end) cases).\n',
         'Eval vm_compute in ("regions", map (fun c => match c with (d, _, _) => region_mask V d end) cases).\n']
    return "".join(L)


def evaluate(name, batches):
    """batches: list of (s, [(item, obs)]).  Adds 'mask', 'agree', 'impl' to every observation that the
    stand-in parser could parse; returns list of failed file errors."""
    files, meta, problems = [], [], []
    for bi, (s, pairs) in enumerate(batches):
        parsed = []
        for it, o in pairs:
            try:
                ast = gen.parse_query(it["text"])
            except Exception:     # pylint: disable=broad-except
                o["mask"] = None
                continue
            if any(d["kind"] not in ("OperationDefinition", "FragmentDefinition") for d in ast["definitions"]):
                o["mask"] = None
                continue
            parsed.append((ast, o))
        step = 60
        for j in range(0, len(parsed), step):
            files.append(("%s_%d_%d" % (name, bi, j), cases_file(s, parsed[j:j + step])))
            meta.append(parsed[j:j + step])
    results = common.run_coq_many(files)
    for chunk, (ok, so, se), (fname, _t) in zip(meta, results, files):
        if not ok:
            problems.append((fname, se[-1500:]))
            for _a, o in chunk:
                o["mask"] = None
            continue
        masks = c01.parse_int_list(so, "masks") or []
        impl = c01.parse_int_list(so, "implverdicts") or []
        regions = c01.parse_int_list(so, "regions") or []
        dis = set(common.parse_Z_list(so, "disagree") or [])
        for i, (_a, o) in enumerate(chunk):
            o["mask"] = masks[i] if i < len(masks) else None
            o["impl"] = impl[i] if i < len(impl) else None
            o["region"] = regions[i] if i < len(regions) else 0
            o["agree"] = i not in dis
    return problems


def is_known(findings, o, it):
    """a listed finding suppresses only its own signature: (rule, site kind)"""
    for f in findings:
        if f.get("rule") in (it.get("rule"), None) and f.get("signature") and f["signature"] in (it.get("where") or ""):
            return f
    return None


def replay(pid, path):
    """re-runs the recorded request against the current tree (engine built from the recorded SDL with
    pass-through directive implementations and default resolvers) and prints what happens"""
    import re
    from . import engine_env
    engine_env.setup()
    r = json.load(open(path))
    if "sdl" not in r or "query" not in r:
        print("replay file names a proof obligation / correspondence, not an input:", r.get("what"))
        return 1

    async def go():
        from tartiflette import create_engine, Directive, Scalar
        name = fresh_schema_name("replay")
        for d in re.findall(r"directive @(\w+)", r["sdl"]):
            def mk(d):
                @Directive(d, schema_name=name)
                class D:          # pylint: disable=unused-variable
                    pass
            mk(d)
        for sc in re.findall(r"^scalar (\w+)", r["sdl"], re.M):
            def mks(sc):
                @Scalar(sc, schema_name=name)
                class S:          # pylint: disable=unused-variable
                    def coerce_output(self, v):
                        return v

                    def coerce_input(self, v):
                        return v

                    def parse_literal(self, ast):
                        return getattr(ast, "value", None)
            mks(sc)
        eng = await create_engine(r["sdl"], schema_name=name)
        return await eng.execute(r["query"], operation_name=r.get("operation_name"), variables=r.get("variables") or {})
    resp = asyncio.run(go())
    print(json.dumps(resp, default=repr)[:3000])
    errs = resp.get("errors") or []
    tagged = [e for e in errs if isinstance(e.get("extensions"), dict) and "tag" in e["extensions"]]
    refused = resp.get("data") is None and bool(errs)
    if pid == "C06":
        bad = bool(tagged) or (len(errs) == 1 and errs[0].get("message") == GENERIC)
    else:
        bad = not refused
    if bad:
        print("VIOLATION property=%s replay=%s" % (pid, path))
    return 1 if bad else 0
