#!/usr/bin/env python3
"""seedtool.py import <seed-id> <property> <agent-worktree> "<needs>"
Copies patch+demo out of a sub-agent's scratch worktree into /verif/seeded/<seed-id>/, re-verifies
them in a fresh scratch worktree of /repo (demo passes without, fails with; pinned suite still 641
passed), writes meta.json, and removes the fresh worktree."""
import json
import os
import re
import shutil
import subprocess
import sys
import tempfile
from pathlib import Path

VERIF = Path(__file__).resolve().parent.parent
PY = "/venv/bin/python"


def sh(cmd, cwd=None, env=None, timeout=1800):
    r = subprocess.run(cmd, shell=True, cwd=cwd, env=env, capture_output=True, text=True, timeout=timeout)
    return r.returncode, r.stdout + r.stderr


def main():
    sid, prop, wt, needs = sys.argv[2:6]
    wt = Path(wt)
    dest = VERIF / "seeded" / sid
    dest.mkdir(parents=True, exist_ok=True)
    rc, diff = sh("git diff -- tartiflette", cwd=wt)
    (dest / "patch.diff").write_text(diff)
    demo_src = (wt / ("demo_%s.py" % prop)).read_text()
    demo_src = demo_src.replace('"%s"' % wt, '__import__("os").environ.get("SEED_WORKTREE", "/repo")')
    demo_src = demo_src.replace("'%s'" % wt, '__import__("os").environ.get("SEED_WORKTREE", "/repo")')
    demo_src = demo_src.replace('"/tmp/gqltools"', '__import__("os").environ.get("GQLTOOLS", "/verif/harness")')
    demo_src = demo_src.replace("'/tmp/gqltools'", '__import__("os").environ.get("GQLTOOLS", "/verif/harness")')
    (dest / "demo.py").write_text(demo_src)
    if str(wt) in demo_src:
        print("WARNING: demo still mentions", wt)
    fresh = Path(tempfile.mkdtemp(prefix="seedverify_", dir="/tmp"))
    fresh.rmdir()
    rc, out = sh("git -C /repo worktree add --detach %s HEAD -q" % fresh)
    env = dict(os.environ, SEED_WORKTREE=str(fresh), GQLTOOLS=str(VERIF / "harness"), PYTHONHASHSEED="0")
    try:
        rc0, out0 = sh("%s %s" % (PY, dest / "demo.py"), cwd=fresh, env=env)
        rca, outa = sh("git apply %s" % (dest / "patch.diff"), cwd=fresh)
        rc1, out1 = sh("%s %s" % (PY, dest / "demo.py"), cwd=fresh, env=env)
        rct, outt = sh("%s -m pytest -p no:cacheprovider --timeout=900 --continue-on-collection-errors 2>&1 | tail -1" % PY, cwd=fresh, env=env)
    finally:
        sh("git -C /repo worktree remove --force %s" % fresh)
    ok = rc0 == 0 and rca == 0 and rc1 != 0 and "641 passed" in outt
    meta = {
        "seed": sid, "property": prop, "needs_to_manifest": needs,
        "base_commit": sh("git -C /repo rev-parse HEAD")[1].strip(),
        "verified": ok,
        "ran": {
            "demo_without_patch": {"exit": rc0, "tail": out0[-300:]},
            "apply": rca,
            "demo_with_patch": {"exit": rc1, "tail": out1[-600:]},
            "pinned_suite_with_patch": outt.strip(),
        },
        "detected_by": None,
    }
    (dest / "meta.json").write_text(json.dumps(meta, indent=1) + "\n")
    print(sid, "verified" if ok else "NOT VERIFIED", rc0, rca, rc1, outt.strip())


if __name__ == "__main__":
    main()
