"""C13 — directive hooks wrap their target exactly once, nested in declaration order.

Schemas decorated with non-commuting tagging directives (0-3 instances per element, each directive
implementing a random subset of the hooks, each instance with its own argument) on a custom
scalar, two input objects, their input fields, the arguments and the definition of the probed
fields, an object type and an enum with its values; requests spell the arguments as literals,
whole-argument variables, and variables nested in list / object literals, with query-side
directives on the field.  Observed: the values the resolver receives, the value in `data`, and
the log of hook invocations (directive, hook, that instance's argument).  Compared inside Coq with
Model/Directives.v: delivered argument values, field result, and the multiset of
post-input-coercion invocations (exactly once per governed value)."""
import asyncio
import json
import random

from . import common, coqterm
from .c04 import fresh_schema_name
from .coqterm import coq_list, coq_string, coq_Z

C13_FILES = ["Properties/C13.v", "Proofs/DirectiveProofs.v", "Proofs/DirectiveOutProofs.v", "Proofs/DirectiveAbstract.v"]
HOOKS = ["on_post_input_coercion", "on_argument_execution", "on_field_execution", "on_pre_output_coercion"]
LOCS = ("SCALAR | OBJECT | INPUT_OBJECT | INPUT_FIELD_DEFINITION | ARGUMENT_DEFINITION | FIELD_DEFINITION | FIELD | ENUM | "
        "ENUM_VALUE | INTERFACE | UNION")


OBJ_RESOLVED = {"v": "s", "vs": ["s", None, "t"], "e": "RED", "es": ["GREEN", None, "RED", "RED"]}
OBJS_RESOLVED = [{"v": "s"}, None, {"v": "t"}]
IOBJ_RESOLVED = {"v": "s"}
UOBJS_RESOLVED = [{"v": "s"}, {"v": "t"}]      # no null item: a null at an abstract position has no runtime type (not modelled)


ENUM_VALUES = ("RED", "GREEN")


def tag_value(name, v):
    if isinstance(v, str):
        if v in ENUM_VALUES:
            return v            # an enum position: the hooks are counted, the value must stay a declared one
        return "%s(%s)" % (name, v)
    if isinstance(v, list):
        return [tag_value(name, x) for x in v]
    if isinstance(v, dict):
        return {k: tag_value(name, x) for k, x in v.items()}
    return v


def gen_setup(rng):
    """directive pool + placement of instances on every attachable element"""
    pool = {}
    for i in range(5):
        hs = [h for h in HOOKS if rng.random() < 0.6]
        pool["d%d" % i] = hs
    counter = [0]

    def inst():
        out = []
        for _ in range(rng.choice([0, 0, 1, 1, 2, 3])):
            counter[0] += 1
            out.append((rng.choice(list(pool)), counter[0]))
        return out
    places = {k: inst() for k in ["Tg", "In1", "In2", "In1.f", "In1.g", "In1.sub", "In2.h", "echo.a", "echo.b", "echo.c",
                                  "Query.echo", "Out", "Out.v", "Query.obj", "En", "En.RED", "Out.vs", "Query.objs"]}
    # ABSTRACT output positions (seed C13-h): an interface and a union whose runtime type is Out -- own generator, the
    # stream above is untouched
    r2 = random.Random(counter[0] * 31 + len(places["Out"]))
    for k in ("Ifc", "Un", "Query.iobj", "Query.uobjs"):
        places[k] = []
        for _ in range(r2.choice([0, 1, 1, 2])):
            counter[0] += 1
            places[k].append((r2.choice(list(pool)), counter[0]))
    if not any("on_pre_output_coercion" in pool[d] for d, _n in places["Out"]):
        withpre = [d for d in pool if "on_pre_output_coercion" in pool[d]]
        if withpre:
            counter[0] += 1
            places["Out"] = places["Out"] + [(withpre[0], counter[0])]
    return pool, places


def dirs_sdl(insts):
    return "".join(" @%s(n: %d)" % (d, n) for d, n in insts)


def sdl_of(pool, P):
    ds = "\n".join("directive @%s(n: Int = 0) on %s" % (d, LOCS) for d in pool)
    return """%s
scalar Tg%s
enum En%s { RED%s GREEN }
input In2%s { h: Tg%s }
input In1%s { f: Tg%s g: [Tg]%s sub: In2%s }
interface Ifc%s { v: Tg }
union Un%s = Out
type Out implements Ifc%s { v: Tg%s e: En es: [En] vs: [Tg]%s }
type Query {
  iobj: Ifc%s
  uobjs: [Un]%s
  echo(a: In1%s, b: Tg%s, c: [Tg]%s): Tg%s
  dflt(a: In1 = {f: "w", g: ["x", "yz"], sub: {h: "w"}}%s, b: Tg = "x"%s, c: [Tg] = ["w", "yz"]%s): Tg%s
  obj: Out%s
  objs: [Out]%s
}
""" % (ds, dirs_sdl(P["Tg"]), dirs_sdl(P["En"]), dirs_sdl(P["En.RED"]), dirs_sdl(P["In2"]), dirs_sdl(P["In2.h"]),
       dirs_sdl(P["In1"]), dirs_sdl(P["In1.f"]), dirs_sdl(P["In1.g"]), dirs_sdl(P["In1.sub"]),
       dirs_sdl(P["Ifc"]), dirs_sdl(P["Un"]), dirs_sdl(P["Out"]),
       dirs_sdl(P["Out.v"]), dirs_sdl(P["Out.vs"]), dirs_sdl(P["Query.iobj"]), dirs_sdl(P["Query.uobjs"]), dirs_sdl(P["echo.a"]), dirs_sdl(P["echo.b"]), dirs_sdl(P["echo.c"]),
       dirs_sdl(P["Query.echo"]), dirs_sdl(P["echo.a"]), dirs_sdl(P["echo.b"]), dirs_sdl(P["echo.c"]), dirs_sdl(P["Query.echo"]),
       dirs_sdl(P["Query.obj"]), dirs_sdl(P["Query.objs"]))


# ---- value / literal generation: ("leaf", s) ("obj", [(k, v)]) ("lst", [v]) ("var", name)
def gen_lit(rng, t, vars_, depth=0):
    """t: "Tg" | "In1" | "In2" | ("list", "Tg").  Returns a literal tree possibly using fresh variables."""
    if rng.random() < (0.3 if depth == 0 else 0.25):
        name = "v%d" % len(vars_)
        raw = gen_raw(rng, t)
        vars_.append((name, t, raw))
        return ("var", name)
    if t == "Tg":
        return ("leaf", rng.choice(["w", "x", "yz"]))
    if isinstance(t, tuple):
        return ("lst", [gen_lit(rng, t[1], vars_, depth + 1) for _ in range(rng.randrange(0, 3))])
    fields = {"In1": [("f", "Tg"), ("g", ("list", "Tg")), ("sub", "In2")], "In2": [("h", "Tg")]}[t]
    out = []
    for k, ft in fields:
        if rng.random() < 0.7:
            out.append((k, gen_lit(rng, ft, vars_, depth + 1)))
    rng.shuffle(out)
    return ("obj", out)


def gen_raw(rng, t):
    if t == "Tg":
        return ("leaf", rng.choice(["w", "x", "yz"]))
    if isinstance(t, tuple):
        return ("lst", [gen_raw(rng, t[1]) for _ in range(rng.randrange(0, 3))])
    fields = {"In1": [("f", "Tg"), ("g", ("list", "Tg")), ("sub", "In2")], "In2": [("h", "Tg")]}[t]
    out = [(k, gen_raw(rng, ft)) for k, ft in fields if rng.random() < 0.7]
    rng.shuffle(out)
    return ("obj", out)


def lit_text(q):
    k = q[0]
    if k == "leaf":
        return json.dumps(q[1])
    if k == "var":
        return "$" + q[1]
    if k == "lst":
        return "[" + ", ".join(lit_text(x) for x in q[1]) + "]"
    return "{" + ", ".join("%s: %s" % (n, lit_text(v)) for n, v in q[1]) + "}"


def raw_json(r):
    k = r[0]
    if k == "leaf":
        return r[1]
    if k == "lst":
        return [raw_json(x) for x in r[1]]
    return {n: raw_json(v) for n, v in r[1]}


def type_text(t):
    return "[Tg]" if isinstance(t, tuple) else t


# ---- Coq printing
def dinst_coq(pool, insts):
    return coq_list(["{| di_name := %s; di_hooks := %s; di_arg := %s |}" % (
        coq_string(d), coq_list([coq_string(h) for h in pool[d]]), coq_Z(n)) for d, n in insts])


def ity_coq(pool, P, t):
    if t == "Tg":
        return "(IScalar %s)" % dinst_coq(pool, P["Tg"])
    if isinstance(t, tuple):
        return "(IList %s)" % ity_coq(pool, P, t[1])
    if t == "In2":
        return "(IObj %s [(%s, %s, %s)])" % (dinst_coq(pool, P["In2"]), coq_string("h"), dinst_coq(pool, P["In2.h"]), ity_coq(pool, P, "Tg"))
    return "(IObj %s [(%s, %s, %s); (%s, %s, %s); (%s, %s, %s)])" % (
        dinst_coq(pool, P["In1"]),
        coq_string("f"), dinst_coq(pool, P["In1.f"]), ity_coq(pool, P, "Tg"),
        coq_string("g"), dinst_coq(pool, P["In1.g"]), ity_coq(pool, P, ("list", "Tg")),
        coq_string("sub"), dinst_coq(pool, P["In1.sub"]), ity_coq(pool, P, "In2"))


def tval_coq(v):
    if v is None:
        return "TNull"
    if isinstance(v, str):
        return "(TLeaf %s)" % coq_string(v)
    if isinstance(v, list):
        return "(TLst %s)" % coq_list([tval_coq(x) for x in v])
    if isinstance(v, dict):
        return "(TObj %s)" % coq_list(["(%s, %s)" % (coq_string(k), tval_coq(x)) for k, x in v.items()])
    return "(TLeaf %s)" % coq_string("?" + repr(v))


def raw_coq(r):
    k = r[0]
    if k == "leaf":
        return "(TLeaf %s)" % coq_string(r[1])
    if k == "lst":
        return "(TLst %s)" % coq_list([raw_coq(x) for x in r[1]])
    return "(TObj %s)" % coq_list(["(%s, %s)" % (coq_string(n), raw_coq(v)) for n, v in r[1]])


def tlit_coq(q):
    k = q[0]
    if k == "leaf":
        return "(QLeaf %s)" % coq_string(q[1])
    if k == "var":
        return "(QVar %s)" % coq_string(q[1])
    if k == "lst":
        return "(QLst %s)" % coq_list([tlit_coq(x) for x in q[1]])
    return "(QObj %s)" % coq_list(["(%s, %s)" % (coq_string(n), tlit_coq(v)) for n, v in q[1]])


async def run_schema(pool, P, cases):
    from tartiflette import create_engine, Directive, Scalar, Resolver
    name = fresh_schema_name("c13")
    log = []
    received = {}

    for d, hooks in pool.items():
        def mk(d, hooks):
            body = {}
            if "on_post_input_coercion" in hooks:
                async def on_post_input_coercion(self, directive_args, next_directive, parent_node, value, ctx):
                    log.append((d, "on_post_input_coercion", directive_args["n"]))
                    return await next_directive(parent_node, tag_value(d, value), ctx)
                body["on_post_input_coercion"] = on_post_input_coercion
            if "on_argument_execution" in hooks:
                async def on_argument_execution(self, directive_args, next_directive, parent_node, argument_definition_node,
                                                argument_node, value, ctx):
                    log.append((d, "on_argument_execution", directive_args["n"]))
                    return await next_directive(parent_node, argument_definition_node, argument_node, tag_value(d, value), ctx)
                body["on_argument_execution"] = on_argument_execution
            if "on_field_execution" in hooks:
                async def on_field_execution(self, directive_args, next_resolver, parent, args, ctx, info):
                    r = await next_resolver(parent, args, ctx, info)
                    log.append((d, "on_field_execution", directive_args["n"]))
                    return tag_value(d, r)
                body["on_field_execution"] = on_field_execution
            if "on_pre_output_coercion" in hooks:
                async def on_pre_output_coercion(self, directive_args, next_directive, value, ctx, info):
                    log.append((d, "on_pre_output_coercion", directive_args["n"]))
                    return await next_directive(tag_value(d, value), ctx, info)
                body["on_pre_output_coercion"] = on_pre_output_coercion
            Directive(d, schema_name=name)(type("Dir_" + d, (), body))
        mk(d, hooks)

    @Scalar("Tg", schema_name=name)
    class Tg:                                   # pylint: disable=unused-variable
        def coerce_output(self, v):
            return v

        def coerce_input(self, v):
            return v

        def parse_literal(self, ast):
            return getattr(ast, "value", None)

    @Resolver("Query.echo", schema_name=name)
    async def echo(parent, args, ctx, info):    # pylint: disable=unused-variable
        received[info.path.as_list()[0]] = json.loads(json.dumps(args))
        return "r"

    @Resolver("Query.dflt", schema_name=name)
    async def dflt(parent, args, ctx, info):    # pylint: disable=unused-variable
        received[info.path.as_list()[0]] = json.loads(json.dumps(args))
        return "r"

    @Resolver("Query.obj", schema_name=name)
    async def obj(parent, args, ctx, info):     # pylint: disable=unused-variable
        return json.loads(json.dumps(OBJ_RESOLVED))

    @Resolver("Query.objs", schema_name=name)
    async def objs(parent, args, ctx, info):    # pylint: disable=unused-variable
        return json.loads(json.dumps(OBJS_RESOLVED))

    @Resolver("Query.iobj", schema_name=name)
    async def iobj(parent, args, ctx, info):    # pylint: disable=unused-variable
        return json.loads(json.dumps(IOBJ_RESOLVED))

    @Resolver("Query.uobjs", schema_name=name)
    async def uobjs(parent, args, ctx, info):   # pylint: disable=unused-variable
        return json.loads(json.dumps(UOBJS_RESOLVED))

    from tartiflette import TypeResolver
    for abstract in ("Ifc", "Un"):
        TypeResolver(abstract, schema_name=name)(lambda result, context, info, abstract_type: "Out")

    engine = await create_engine(sdl_of(pool, P), schema_name=name)
    out = []
    for c in cases:
        log.clear()
        received.clear()
        resp = await engine.execute(c["query"], variables=c["variables"])
        out.append({"response": resp, "received": dict(received), "log": list(log)})
    return out


def gen_case(rng, pool):
    vars_ = []
    args = {}
    for an, t in (("a", "In1"), ("b", "Tg"), ("c", ("list", "Tg"))):
        if rng.random() < 0.75:
            args[an] = gen_lit(rng, t, vars_)
    # the field may be selected by several nodes merged under one response key (same arguments): the query-side
    # directives of EVERY node wrap the resolver, in document order; names are unique per node only (5.7.3)
    n_nodes = rng.choice([1, 1, 1, 2, 2, 3])
    used_n = set()

    def fresh_n():
        while True:
            n = rng.randrange(100, 200)
            if n not in used_n:
                used_n.add(n)
                return n
    nodes = []
    for k in range(n_nodes):
        nd = [(d, fresh_n()) for d in rng.sample(list(pool), rng.choice([0, 0, 1, 2] if k == 0 else [0, 1, 1, 2]))]
        nodes.append(nd)
    if n_nodes > 1 and rng.random() < 0.6 and nodes[0]:
        # the same directive NAME on two nodes, different instances
        d0 = nodes[0][0][0]
        k = rng.randrange(1, n_nodes)
        if all(d != d0 for d, _n in nodes[k]):
            nodes[k].insert(rng.randrange(len(nodes[k]) + 1), (d0, fresh_n()))
    qdirs = [x for nd in nodes for x in nd]
    # the argument of a query-side directive instance is spelled as a literal, a variable, a variable whose declared
    # default applies (variable omitted), or a variable overriding its default: the hook must see the same value
    dvar_decls, dvars, spelled = [], {}, {}
    for d, n in qdirs:
        how = rng.choice(["lit", "lit", "var", "vardefault", "varoverride"])
        vn = "dv%d" % n
        if how == "lit":
            spelled[(d, n)] = str(n)
        elif how == "var":
            dvar_decls.append("$%s: Int" % vn)
            dvars[vn] = n
            spelled[(d, n)] = "$" + vn
        elif how == "vardefault":
            dvar_decls.append("$%s: Int = %d" % (vn, n))
            spelled[(d, n)] = "$" + vn
        else:
            dvar_decls.append("$%s: Int = %d" % (vn, n + 1000))
            dvars[vn] = n
            spelled[(d, n)] = "$" + vn

    def qdirs_sdl(nd):
        return "".join(" @%s(n: %s)" % (d, spelled[(d, n)]) for d, n in nd)
    all_decls = ["$%s: %s" % (n, type_text(t)) for n, t, _r in vars_] + dvar_decls
    decl = "(%s)" % ", ".join(all_decls) if all_decls else ""
    argtext = "(%s)" % ", ".join("%s: %s" % (k, lit_text(v)) for k, v in args.items()) if args else ""
    sels, frags = [], []
    for k, nd in enumerate(nodes):
        node = "echo%s%s" % (argtext, qdirs_sdl(nd))
        form = "plain" if k == 0 else rng.choice(["plain", "inline", "spread"])
        if form == "plain":
            sels.append(node)
        elif form == "inline":
            sels.append("... on Query { %s }" % node)
        else:
            sels.append("...FE%d" % k)
            frags.append("fragment FE%d on Query { %s }" % (k, node))
    q = "query %s { %s obj { v vs e es } objs { v } iobj { v } uobjs { ... on Out { v } } } %s" % (decl, " ".join(sels), " ".join(frags))
    return {"query": q, "variables": dict({n: raw_json(r) for n, _t, r in vars_}, **dvars), "vars": vars_, "args": args, "qdirs": qdirs,
            "nodes": n_nodes}


def cases_file(pool, P, items):
    argtypes = {"a": "In1", "b": "Tg", "c": ("list", "Tg")}
    rows = []
    for c, o in items:
        decls = coq_list(["(%s, %s, %s)" % (coq_string(n), ity_coq(pool, P, t), raw_coq(r)) for n, t, r in c["vars"]])
        args = coq_list(["(%s, %s, %s, %s)" % (dinst_coq(pool, P["echo." + an]), ity_coq(pool, P, argtypes[an]), tlit_coq(q),
                                               tval_coq((o["received"].get("echo") or {}).get(an)))
                         for an, q in c["args"].items()])
        data = o["response"].get("data") or {}
        post = coq_list(["(%s, %s)" % (coq_string(d), coq_Z(n)) for d, h, n in o["log"] if h == "on_post_input_coercion"])
        rows.append("(%s, %s, (%s, %s, %s, %s), %s)" % (
            decls, args, dinst_coq(pool, c["qdirs"]), dinst_coq(pool, P["Query.echo"]), dinst_coq(pool, P["Tg"]),
            tval_coq(data.get("echo")), post))
    def oty_tg():
        return "(OScalar %s)" % dinst_coq(pool, P["Tg"])

    def oty_out(fields, abstract_dirs=()):
        return "(OObject %s %s)" % (dinst_coq(pool, list(abstract_dirs) + P["Out"]), coq_list(
            ["(%s, %s, %s)" % (coq_string(fn), dinst_coq(pool, P["Out." + fn]), ft) for fn, ft in fields]))
    orows = []
    for c, o in items:
        data = o["response"].get("data") or {}
        parts = [
            "(%s, %s, TLeaf \"r\")" % (dinst_coq(pool, c["qdirs"] + P["Query.echo"]), oty_tg()),
            "(%s, %s, %s)" % (dinst_coq(pool, P["Query.obj"]), oty_out([("v", oty_tg()), ("vs", "(OListOf %s)" % oty_tg())]),
                              tval_coq(OBJ_RESOLVED)),
            "(%s, (OListOf %s), %s)" % (dinst_coq(pool, P["Query.objs"]), oty_out([("v", oty_tg())]), tval_coq(OBJS_RESOLVED)),
            # abstract positions: the abstract type's hooks, then the runtime object type's, then the object's fields
            "(%s, %s, %s)" % (dinst_coq(pool, P["Query.iobj"]), oty_out([("v", oty_tg())], P["Ifc"]), tval_coq(IOBJ_RESOLVED)),
            "(%s, (OListOf %s), %s)" % (dinst_coq(pool, P["Query.uobjs"]), oty_out([("v", oty_tg())], P["Un"]),
                                        tval_coq(UOBJS_RESOLVED))]
        # the enum positions (obj.e, obj.es) and the hooks of En / En.RED are judged by python_checks (exact counts);
        # the Coq-side model covers the Tg / Out positions
        obj_obs = data.get("obj")
        if isinstance(obj_obs, dict):
            obj_obs = {k: v for k, v in obj_obs.items() if k in ("v", "vs")}
        enum_insts = set(P["En"]) | set(P["En.RED"])
        obs = [tval_coq(data.get("echo")), tval_coq(obj_obs), tval_coq(data.get("objs")), tval_coq(data.get("iobj")),
               tval_coq(data.get("uobjs"))]
        pre = coq_list(["(%s, %s)" % (coq_string(d), coq_Z(n)) for d, h, n in o["log"]
                        if h == "on_pre_output_coercion" and (d, n) not in enum_insts])
        orows.append("(%s, %s, %s)" % (coq_list(parts), coq_list(obs), pre))
    L = [coqterm.HEADER,
         "From TV Require Import Model.Schema Model.Directives Model.RunDirectives Model.RunValidate Model.DirectivesOut "
         "Model.RunDirectivesOut.\n",
         "Definition ocases : list (list opart * list tval * list (string * Z)) := %s.\n" % coq_list(orows),
         'Eval vm_compute in ("outtree_mismatch", idx_where\' (fun c => match c with (parts, obs, _) => '
         "negb (forallb (fun po => out_tree_agree (fst po) (snd po)) (combine parts obs)) end) ocases 0).\n",
         'Eval vm_compute in ("outlog_mismatch", idx_where\' (fun c => match c with (parts, _, lg) => '
         "negb (pre_output_log_agree parts lg) end) ocases 0).\n",
         "Definition cases : list (list decl * list (list dinst * ity * tlit * tval) * "
         "(list dinst * list dinst * list dinst * tval) * list (string * Z)) := %s.\n" % coq_list(rows),
         'Eval vm_compute in ("arg_mismatch", idx_where\' (fun c => match c with (decls, args, _, _) => '
         "negb (forallb (fun a => match a with (ad, t, q, obs) => arg_agree decls ad t q obs end) args) end) cases 0).\n",
         'Eval vm_compute in ("out_mismatch", idx_where\' (fun c => match c with (_, _, (qd, sd, td, obs), _) => '
         "negb (out_agree qd sd td (TLeaf \"r\") obs) end) cases 0).\n",
         'Eval vm_compute in ("log_mismatch", idx_where\' (fun c => match c with (decls, args, _, obs) => '
         "negb (input_hook_log_agree decls (map (fun a => match a with (_, t, q, _) => (t, q) end) args) obs) end) cases 0).\n"]
    return "".join(L)


def python_checks(pool, P, c, o):
    """exactly-once and order checks that need no model: argument / field / output hooks of this request"""
    P_ = []
    log = o["log"]
    # every logged (directive, hook, n) instance at most once per governed value: field-level hooks exactly once
    for d, n in P["Query.echo"] + c["qdirs"]:
        if "on_field_execution" in pool[d]:
            k = log.count((d, "on_field_execution", n))
            if k != 1:
                P_.append("on_field_execution of @%s(n: %d) on Query.echo invoked %d times" % (d, n, k))
    for an in c["args"]:
        for d, n in P["echo." + an]:
            if "on_argument_execution" in pool[d]:
                k = log.count((d, "on_argument_execution", n))
                if k != 1:
                    P_.append("on_argument_execution of @%s(n: %d) on argument %s invoked %d times" % (d, n, an, k))
    # output hooks of Out / Out.v / En / En.RED on `obj { v }`
    data = (o["response"].get("data") or {}).get("obj")
    exp_v = "s"
    # Query.obj's field hooks tag the resolved object (last declared = innermost = applied first) ...
    for d, n in reversed([x for x in P["Query.obj"] if "on_field_execution" in pool[x[0]]]):
        exp_v = tag_value(d, exp_v)
    # ... then the object type's output hooks tag it before its fields are read ...
    for d, n in [x for x in P["Out"] if "on_pre_output_coercion" in pool[x[0]]]:
        exp_v = tag_value(d, exp_v)
    # ... then Out.v's field hooks, then the scalar's output hooks
    for d, n in reversed([x for x in P["Out.v"] if "on_field_execution" in pool[x[0]]]):
        exp_v = tag_value(d, exp_v)
    for d, n in [x for x in P["Tg"] if "on_pre_output_coercion" in pool[x[0]]]:
        exp_v = tag_value(d, exp_v)
    if not isinstance(data, dict) or data.get("v") != exp_v:
        P_.append("obj.v is %r, expected %r (field hooks innermost-declared first, then Tg output hooks)" % (
            data.get("v") if isinstance(data, dict) else data, exp_v))

    def chain(v, field_place, parent_place):
        for d, n in reversed([x for x in P[parent_place] if "on_field_execution" in pool[x[0]]]):
            v = tag_value(d, v)
        for d, n in [x for x in P["Out"] if "on_pre_output_coercion" in pool[x[0]]]:
            v = tag_value(d, v)
        for d, n in reversed([x for x in P[field_place] if "on_field_execution" in pool[x[0]]]):
            v = tag_value(d, v)
        for d, n in [x for x in P["Tg"] if "on_pre_output_coercion" in pool[x[0]]]:
            v = tag_value(d, v)
        return v
    # list positions with NULL items: the item type's output hooks govern every item, null ones included
    exp_vs = [chain("s", "Out.vs", "Query.obj"), None, chain("t", "Out.vs", "Query.obj")]
    if not isinstance(data, dict) or data.get("vs") != exp_vs:
        P_.append("obj.vs is %r, expected %r" % (data.get("vs") if isinstance(data, dict) else data, exp_vs))
    exp_objs = [{"v": chain("s", "Out.v", "Query.objs")}, None, {"v": chain("t", "Out.v", "Query.objs")}]
    got_objs = (o["response"].get("data") or {}).get("objs")
    if got_objs != exp_objs:
        P_.append("objs is %r, expected %r" % (got_objs, exp_objs))
    # enum positions: obj.e = RED, obj.es = [GREEN, null, RED, RED]: the enum TYPE's hooks meet all 5 values (the null
    # one included), the hooks of the VALUE RED meet the 3 occurrences of RED; the values stay what they were
    if not isinstance(data, dict) or data.get("e") != "RED" or data.get("es") != ["GREEN", None, "RED", "RED"]:
        P_.append("obj.e / obj.es are %r / %r, expected 'RED' / ['GREEN', None, 'RED', 'RED']" % (
            data.get("e") if isinstance(data, dict) else data, data.get("es") if isinstance(data, dict) else data))
    for place, expected, what in (("Tg", 10, "echo, obj.v, the 3 items of obj.vs (one null), objs[0].v, objs[2].v, iobj.v, uobjs[0].v, "
                                   "uobjs[1].v"),
                                  ("Out", 7, "obj, the 3 items of objs (one null), iobj (through the interface) and the 2 items of "
                                   "uobjs (through the union)"),
                                  ("Ifc", 1, "iobj"), ("Un", 2, "the 2 items of uobjs"),
                                  ("En", 5, "obj.e and the 4 items of obj.es (one null)"),
                                  ("En.RED", 3, "the 3 occurrences of the value RED in obj.e / obj.es")):
        for d, n in P[place]:
            if "on_pre_output_coercion" in pool[d]:
                k = log.count((d, "on_pre_output_coercion", n))
                if k != expected:
                    P_.append("on_pre_output_coercion of @%s(n: %d) on %s invoked %d times for %d governed values (%s)" % (
                        d, n, place, k, expected, what))
    return P_


# SDL defaults: the argument omitted (its default is coerced through the literal path) = the same literal written out; and
# executing a request AGAIN on the same engine invokes the same hooks again (nothing is remembered between executions)
DEFAULT_CASES = [
    {"query": "{ dflt }", "variables": {}, "what": "every argument omitted: SDL defaults"},
    {"query": '{ dflt(a: {f: "w", g: ["x", "yz"], sub: {h: "w"}}, b: "x", c: ["w", "yz"]) }', "variables": {},
     "what": "the default literals written out"},
    {"query": "query ($u: Tg, $l: [Tg]) { dflt(b: $u, c: $l) }", "variables": {},
     "what": "declared, unprovided variables: SDL defaults"},
    {"query": "{ x: dflt y: dflt }", "variables": {}, "what": "two aliases, every argument omitted"},
]


def default_checks(obs):
    """obs: the observations of DEFAULT_CASES executed three times in a row on one engine"""
    P_ = []
    n = len(DEFAULT_CASES)
    rounds = [obs[i * n:(i + 1) * n] for i in range(3)]
    first = rounds[0]
    for o, c in zip(first, DEFAULT_CASES):
        if o["response"].get("errors"):
            P_.append("%s: the request failed: %r" % (c["what"], o["response"]["errors"][:1]))
    if P_:
        return P_
    ref_recv, ref_log = first[1]["received"].get("dflt"), sorted(first[1]["log"])
    for o, c in zip(first[:3], DEFAULT_CASES[:3]):
        if o["received"].get("dflt") != ref_recv:
            P_.append("%s: the resolver received %r; with the default literals written out it receives %r" % (
                c["what"], o["received"].get("dflt"), ref_recv))
        if sorted(o["log"]) != ref_log:
            P_.append("%s: hook invocations %r differ from those of the default literals written out %r" % (
                c["what"], sorted(o["log"]), ref_log))
    o = first[3]
    if o["received"].get("x") != ref_recv or o["received"].get("y") != ref_recv or sorted(o["log"]) != sorted(ref_log * 2):
        P_.append("two aliases of a field using its SDL defaults: received %r, hook invocations %r (expected twice %r)" % (
            o["received"], sorted(o["log"]), ref_log))
    for ri, rnd in enumerate(rounds[1:], 2):
        for o, o1, c in zip(rnd, first, DEFAULT_CASES):
            if o["received"] != o1["received"] or sorted(o["log"]) != sorted(o1["log"]) or o["response"] != o1["response"]:
                P_.append("%s, execution #%d on the same engine: received %r, hook invocations %r; the first execution received "
                          "%r with hook invocations %r" % (c["what"], ri, o["received"], sorted(o["log"]), o1["received"],
                                                           sorted(o1["log"])))
    return P_


def main(tier_, replay=None):
    from . import engine_env
    rep = common.Report("C13")
    seed = common.seed()
    b = common.build(["Properties/C13.vo", "Model/RunDirectives.vo", "Model/RunDirectivesOut.vo", "Model/RunValidate.vo"])
    gate = common.grep_gate()
    proofs_ok = b["ok"] and not gate
    engine_env.setup()
    rng = random.Random(seed * 999331 + 13)
    n_schemas, n_cases = (6, 30) if tier_ == "quick" else (40, 80)
    files, meta, viol, total = [], [], [], 0
    distinct_logged = set()
    default_runs = 0
    for si in range(n_schemas):
        pool, P = gen_setup(rng)
        cases = [gen_case(rng, pool) for _ in range(n_cases)]
        obs = asyncio.run(run_schema(pool, P, cases))
        items = list(zip(cases, obs))
        for c, o in items:
            total += 1
            if o["log"]:
                distinct_logged.add((si, c["query"], json.dumps(c["variables"], sort_keys=True, default=repr)))
            if o["response"].get("errors"):
                viol.append((pool, P, c, o, ["the request failed: %r" % (o["response"]["errors"][:1],)]))
                continue
            probs = python_checks(pool, P, c, o)
            if probs:
                viol.append((pool, P, c, o, probs))
        dobs = asyncio.run(run_schema(pool, P, DEFAULT_CASES * 3))
        default_runs += len(dobs)
        for pr in default_checks(dobs)[:3]:
            viol.append((pool, P, {"query": " ; ".join(c["query"] for c in DEFAULT_CASES) + "  (executed three times in a row)",
                                   "variables": {}}, dobs[0], [pr]))
        files.append(("C13_s%d_%d" % (seed, si), cases_file(pool, P, items)))
        meta.append((pool, P, items))
    results = common.run_coq_many(files)
    mism = []
    for (pool, P, items), (ok, so, se) in zip(meta, results):
        if not ok:
            rep.violation({"property": "C13", "what": "case file failed to evaluate", "stderr": se[-1500:]}, no_input=True)
            continue
        for label, why in (("arg_mismatch", "the value a resolver received differs from the model's hook composition"),
                           ("out_mismatch", "the field result differs from the model's hook composition"),
                           ("log_mismatch", "post-input-coercion hooks were not invoked exactly once per governed value"),
                           ("outtree_mismatch", "the data of a field (nested object / list positions, null items included) differs "
                                                "from the model's output hook composition"),
                           ("outlog_mismatch", "on_pre_output_coercion hooks were not invoked exactly once per governed value "
                                               "(null values and null list items included)")):
            for i in common.parse_Z_list(so, label) or []:
                mism.append((pool, P, items[i][0], items[i][1], why))
    for pool, P, c, o, why in (viol + [(p, P, c, o, [w]) for p, P, c, o, w in mism])[:6]:
        rep.violation({"property": "C13", "what": why, "sdl": sdl_of(pool, P), "hooks_implemented": pool, "query": c["query"],
                       "variables": c["variables"], "resolver_received": o["received"], "response": o["response"],
                       "hook_log": o["log"][:60]})
    if not viol and not mism and not rep.violations and not proofs_ok:
        rep.violation({"property": "C13", "what": "proof obligation no longer checks", "file": b.get("failed_file"),
                       "theorem": b.get("failed_lemma"), "gate": gate, "log_tail": b["log"][-1500:]}, no_input=True)
    nob, names = common.count_obligations(C13_FILES)
    assum = common.assumptions("Properties/C13.v") if b["ok"] else {"closed": 0, "axioms": ["build failed"]}
    common.write_evidence("C13", tier_, "proof", {
        "obligations": nob, "discharged": nob if proofs_ok else 0, "checker_cmd": "make Properties/C13.vo",
        "trusted_base": common.TRUSTED_BASE + [
            "Print Assumptions: %d theorems closed; axioms: %s" % (assum["closed"], assum["axioms"] or "none")],
        "theorems": [n for n in names if n.startswith("C13_")],
        "evaluations": total + default_runs, "distinct_nontrivial": len(distinct_logged), "sdl_default_runs": default_runs,
        "rule": "non-trivial = distinct (schema, document, variables) requests during which at least one directive hook "
                "ran; schemas with 0-3 tagging directive instances on scalar, input objects, input fields, arguments, field "
                "definitions, object type, enum and enum value x requests spelling arguments as literals, whole variables "
                "and variables nested in list/object literals, with query-side field directives",
        "traces_validated_against_impl": total, "impl_model_mismatches": len(mism), "property_violations": len(viol),
        "samples": [{"query": c["query"], "variables": c["variables"]} for (_p, _P, items) in meta[:1] for c, _o in items[:3]],
    }, rep.wall(), violations=len(rep.violations),
        assumptions_=["hook implementations are the harness's tagging hooks; the order between enum-value and enum-type output "
                      "hooks is not fixed by the property and not compared"])
    return rep.finish()
