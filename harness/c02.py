"""C02 — field failures are contained: null propagation and error accounting.
Exhaustive single-fault enumeration: every resolver call site of a fault-free run is failed in
turn with every failure kind (then pairs / random subsets in the thorough tier)."""
import asyncio
import itertools

from . import c01
from .c04 import fresh_schema_name

C02_FILES = ["Properties/C02.v", "Proofs/ExecErrors.v", "Proofs/ExecOrigins.v", "Proofs/ExecRefine.v", "Proofs/CollectRefine.v"]
KINDS = ["raise", "raise_coercible", "raise_gql_ext", "exc_value", "null", "garbage", "scalar_for_composite", "bad_typename", "exc_item",
         "bad_type_item", "null_item", "garbage_item", "coerce_null", "rec_parent", "attr_raises", "foreign_enum"]


def expand_factory(tier_):
    per_base = 40 if tier_ == "quick" else 120

    def expand(rng, s, cases, cfg):
        # fault-free baseline runs give the call sites
        base = [dict(c, adversarial=0.0, fail=0.0, faults=[]) for c in cases]
        runs = asyncio.run(c01.run_cases(s, base, fresh_schema_name("c02base"), cfg))
        out = []
        for c, r in zip(base, runs):
            sites = [tuple(x["path"]) for x in r["calls"]]
            if not sites or len(sites) > c01.MAX_CALLS_PER_CASE:
                continue          # nothing to fail / a request too heavy to be multiplied by the failure kinds
            out.append(c)
            singles = [(p, k) for p in sites for k in KINDS]
            rng.shuffle(singles)
            for p, k in singles[:per_base]:
                out.append(dict(c, faults=[(list(p), k)]))
            if tier_ != "quick" and len(sites) >= 2:
                for _ in range(12):
                    ps = rng.sample(sites, rng.randrange(2, min(4, len(sites)) + 1))
                    out.append(dict(c, faults=[(list(p), rng.choice(KINDS)) for p in ps]))
        return out

    return expand


def extensions_kept(c, r):
    """an error raised by user code through the library's error class keeps its user message and its `extensions`
    UNCHANGED; no other entry carries extensions"""
    why = []
    from .execgen import USER_PREFIX
    with_ext = {USER_PREFIX + "/".join(map(str, p)) for p, k in (c.get("faults") or []) if k == "raise_gql_ext"}
    for e in (r["response"].get("errors") or []):
        msg = e.get("message")
        if msg in with_ext:
            if e.get("extensions") != {"code": 7}:
                why.append("the error %r lost or altered its extensions: %r (raised with {'code': 7})" % (msg, e.get("extensions")))
        elif "extensions" in e and isinstance(msg, str) and msg.startswith(USER_PREFIX) and not c.get("fail"):
            why.append("the error %r carries extensions %r although none were raised with it" % (msg, e.get("extensions")))
    return why


def main(tier_, replay=None):
    n = (3, 6) if tier_ == "quick" else (12, 12)
    return c01.run_property(
        "C02", tier_, bits=1 | 2 | 4 | 8 | 64,
        explore_kwargs=dict(adversarial=0.0, fail=0.0, n_override=n, expand=expand_factory(tier_)),
        property_files=C02_FILES, extra_python_check=extensions_kept,
        nontrivial=lambda c, r: bool(c.get("faults")) and bool(r["response"].get("errors")),
        rule="every resolver call site of a fault-free run failed in turn with every failure kind (raise, library "
             "error with extensions, exception returned as value, null, unserialisable object, scalar for "
             "composite, unknown runtime type); thorough adds pairs and random subsets; non-trivial = the "
             "fault produced an error entry")
