"""C15 — concurrent requests on one engine do not influence each other.

Groups of 2-5 requests (the same document with different variables / contexts / operation names,
different documents, failing and succeeding ones) are put in flight together on ONE engine under
the gated scheduler: the driver releases one blocked resolver of one request at a time, so a
schedule is a sequence of (request, response path).  Every response is compared with the response
the same request has when run alone on a fresh engine; afterwards every request is repeated alone
on the shared engine (requests issued afterwards behave as on a fresh engine); the cached
DocumentNode objects are fingerprinted before and after.  Each request's observation under the
interleaving (response, started / finished resolvers) is also compared inside Coq with run_sched
of the async model on that request alone under the projected schedule — the statement of
C15_isolation, checked against the implementation."""
import asyncio
import copy
import json
import random
import re

from . import common, gen, execgen, c01, c08, c16, sched
from .c04 import fresh_schema_name

C15_FILES = ["Properties/C15.v", "Proofs/AsyncProofs.v"]
CFG = c08.CONFIGS[0]
SAMPLES = []


async def run_group(engine, s, cases, chooser, max_steps=1500):
    """all requests in flight together; chooser(pending [(i, path)], step)"""
    loop = asyncio.get_event_loop()
    recs, tasks, ctxs = [], [], []
    before = set(asyncio.all_tasks())
    for c in cases:
        rec = sched.GatedRecorder()
        ctx = {"rec": rec, "oracle": execgen.Oracle(s, c["oracle_seed"], c.get("adversarial", 0.0), c.get("fail", 0.0),
                                                    faults={tuple(p): k for p, k in (c.get("faults") or [])}),
               "tag": c.get("tag")}
        recs.append(rec)
        ctxs.append(ctx)
        tasks.append(loop.create_task(engine.execute(c["query"], operation_name=c.get("opname"),
                                                     variables=copy.deepcopy(c["variables"]), context=ctx,
                                                     initial_value=execgen.realise(c.get("root")))))
    picks, problems = [], []
    for step in range(max_steps):
        if not await sched.quiesce(loop):
            problems.append("event loop never became quiescent")
            break
        if all(t.done() for t in tasks):
            break
        pend = sorted(((i, k) for i, r in enumerate(recs) for k, f in r.gates.items() if not f.done()), key=repr)
        if not pend:
            problems.append("deadlock: some execute has not returned and no resolver is pending")
            break
        p = chooser(pend, step)
        picks.append(p)
        recs[p[0]].gates[p[1]].set_result(None)
    else:
        problems.append("no termination within %d releases" % max_steps)
    runs = []
    for i, (t, rec) in enumerate(zip(tasks, recs)):
        resp, raised = None, None
        if t.done() and not t.cancelled():
            try:
                resp = t.result()
            except Exception as e:  # pylint: disable=broad-except
                raised = repr(e)
        else:
            t.cancel()
        starts = [k for kind, k in rec.log if kind == "start"]
        finishes = [k for kind, k in rec.log if kind == "finish"]
        probs = []
        if len(set(starts)) != len(starts):
            probs.append("a resolver was started twice")
        if ctxs[i].get("tag") != cases[i].get("tag") or set(ctxs[i]) != {"rec", "oracle", "tag"}:
            probs.append("the request's context object was modified")
        runs.append({"response": resp if resp is not None else {"data": None}, "raised": raised,
                     "picks": [k for (j, k) in picks if j == i], "log": list(rec.log), "calls": list(rec.calls),
                     "tr_calls": list(rec.tr_calls), "starts": starts, "finishes": finishes, "problems": probs,
                     "serialisable": True, "ctx_ok": True})
    await sched.quiesce(loop)
    alive = [t for t in asyncio.all_tasks() if t not in before and t is not asyncio.current_task() and not t.done()]
    for t in alive:
        t.cancel()
    if alive:
        problems.append("%d asyncio task(s) alive after all requests returned" % len(alive))
        await sched.quiesce(loop)
    return runs, picks, problems


def group_strategy(name, rng, n):
    if name == "round-robin":
        def ch(pend, step):
            for d in range(n):
                c = [p for p in pend if p[0] == (step + d) % n]
                if c:
                    return c[0]
            return pend[0]
        return ch
    if name == "last-issued-first":
        return lambda pend, step: max(pend, key=lambda p: (p[0], repr(p[1])))
    if name == "first-issued-first":
        return lambda pend, step: min(pend, key=lambda p: (p[0], repr(p[1])))
    if name == "deepest":
        return lambda pend, step: max(pend, key=lambda p: (len(p[1]), -p[0], repr(p[1])))
    return lambda pend, step: rng.choice(pend)


def canon_errors(resp):
    out = []
    for e in (resp or {}).get("errors") or []:
        msg = re.sub(r"0x[0-9a-fA-F]+", "0x", str(e.get("message")))      # object addresses inside engine-authored texts
        out.append(json.dumps([e.get("path"), msg, e.get("locations"), e.get("extensions")], sort_keys=True, default=repr))
    return sorted(out)


def same_response(a, b):
    return re.sub(r"0x[0-9a-fA-F]+", "0x", json.dumps(a.get("data"), default=repr)) == \
        re.sub(r"0x[0-9a-fA-F]+", "0x", json.dumps(b.get("data"), default=repr)) and \
        canon_errors(a) == canon_errors(b)


def variants(rng, c):
    """the same text with other variable values / another operation name / another context tag"""
    out = []
    if c["variables"]:
        v = dict(c["variables"])
        for k in v:
            if isinstance(v[k], bool):
                v[k] = not v[k] if rng.random() < 0.7 else v[k]
        out.append(dict(c, variables=v, tag="flip"))
    out.append(dict(c, oracle_seed=rng.randrange(1 << 30), tag="other-data"))
    return out


HAND_SDL_QUERIES = [
    ("query ($a: Boolean!, $b: Boolean!) { items { v @skip(if: $a) w ...F } ping @include(if: $b) } "
     "fragment F on Item { sub @include(if: $a) { v w @skip(if: $b) } }",
     [{"a": True, "b": True}, {"a": False, "b": True}, {"a": True, "b": False}, {"a": False, "b": False}]),
    ("query ($a: Boolean!) { one { ... on Item @include(if: $a) { v } w sub { ...G } } } fragment G on Item { v @skip(if: $a) w }",
     [{"a": True}, {"a": False}]),
    ("query A { items { v } } query B { one { w } ping }", [{}]),
]


def hand_groups(rng):
    groups = []
    for q, varsets in HAND_SDL_QUERIES[:2]:
        cases = [{"query": q, "variables": vs, "opname": None, "kind": "query", "oracle_seed": 7 + i % 2, "root": None,
                  "adversarial": 0.0, "fail": 0.0, "tag": "t%d" % i} for i, vs in enumerate(varsets)]
        groups.append(cases)
        groups.append(list(reversed(cases)))
    q = HAND_SDL_QUERIES[2][0]
    groups.append([{"query": q, "variables": {}, "opname": n, "kind": "query", "oracle_seed": 11, "root": None,
                    "adversarial": 0.0, "fail": 0.0, "tag": n} for n in ("A", "B", "A", None)])
    # failing and succeeding requests of one document together
    q2 = "{ items { v w } strict { v } ping }"
    groups.append([
        {"query": q2, "variables": {}, "opname": None, "kind": "query", "oracle_seed": 5, "root": None, "adversarial": 0.0,
         "fail": 0.0, "tag": "ok"},
        {"query": q2, "variables": {}, "opname": None, "kind": "query", "oracle_seed": 5, "root": None, "adversarial": 0.0,
         "fail": 0.0, "tag": "bad", "faults": [(["strict", "v"], "raise_gql_ext")]},
        {"query": q2, "variables": {}, "opname": None, "kind": "query", "oracle_seed": 5, "root": None, "adversarial": 0.0,
         "fail": 0.0, "tag": "bad2", "faults": [(["items"], "raise")]},
        {"query": "{ nope }", "variables": {}, "opname": None, "kind": "query", "oracle_seed": 5, "root": None,
         "adversarial": 0.0, "fail": 0.0, "tag": "invalid"},
        {"query": "{ items { v ", "variables": {}, "opname": None, "kind": "query", "oracle_seed": 5, "root": None,
         "adversarial": 0.0, "fail": 0.0, "tag": "syntax"},
    ])
    return groups


def gen_groups(rng, s, n_groups):
    groups = []
    base = c08.small_cases(rng, s, n_groups * 2, fail=0.15)
    for g in range(n_groups):
        if not base:
            break
        c = dict(rng.choice(base), tag="base")
        grp = [c] + variants(rng, c)
        if rng.random() < 0.6:
            grp.append(dict(rng.choice(base), tag="other-doc"))
        rng.shuffle(grp)
        groups.append(grp[:5])
    return groups


INTROSPECTION_SDL = """
directive @hide on FIELD_DEFINITION | ARGUMENT_DEFINITION | ENUM_VALUE | INPUT_FIELD_DEFINITION
enum Level { LOW HIGH @hide }
input Opts { limit: Int secretKey: String @hide }
type Thing { open: Int secret: Int @hide search(q: String, internalScore: Int @hide, o: Opts): Int level: Level }
type Query { thing: Thing }
"""
INTROSPECTION_REQUESTS = [
    '{ __type(name: "Thing") { fields(includeDeprecated: true) { name args { name } } } }',
    '{ __type(name: "Thing") { fields { name } } }',
    '{ __type(name: "Level") { enumValues(includeDeprecated: true) { name } } }',
    '{ __type(name: "Opts") { inputFields { name } } }',
    '{ __schema { types { name fields(includeDeprecated: true) { name args { name } } } } }',
]


NO_INTROSPECTION_SDL = INTROSPECTION_SDL + "schema @nonIntrospectable { query: Query }\n"
NO_INTROSPECTION_REQUESTS = [
    # the refusal of each request carries ITS OWN response key and source position
    "{ __schema { types { name } } }",
    "{ meta: __schema { queryType { name } } }",
    "{\n  thing { open }\n  t: __type(name: \"Query\") { name }\n}",
    "query Q { a: thing { open }\n\n      s2: __schema { types { name } } }",
    "{ thing { open level } }",
    "{ __type(name: \"Thing\") { name } }",
]
# what each refusal must point at, independently of anything else the process has done: (response key, line, column)
NO_INTROSPECTION_EXPECT = [("__schema", 1, 3), ("meta", 1, 3), ("t", 3, 3), ("s2", 3, 7), None, ("__type", 1, 3)]


async def introspection_context_scenario(rng, sdl=None, requests=None, roles=("guest", "admin")):
    """a directive whose on_introspection outcome depends on the request's context: what one request's context hides
    must stay visible to the requests of another context, whatever ran before or runs at the same time"""
    from tartiflette import create_engine, Directive, Resolver
    problems = []

    def register(name):
        @Directive("hide", schema_name=name)
        class Hide:                                   # pylint: disable=unused-variable
            async def on_introspection(self, directive_args, next_directive, introspected_element, ctx, info):
                await asyncio.sleep(0)
                if ctx.get("role") == "admin":
                    return await next_directive(introspected_element, ctx, info)
                return None

        @Resolver("Query.thing", schema_name=name)
        async def thing(p, a, c, i):                  # pylint: disable=unused-variable
            return {"open": 1, "secret": 2, "search": 3, "level": "LOW"}

    async def fresh():
        name = fresh_schema_name("c15intro")
        register(name)
        return await create_engine(sdl or INTROSPECTION_SDL, schema_name=name)

    reqs = [(q, role) for q in (requests or INTROSPECTION_REQUESTS) for role in roles]
    solo = {}
    for q, role in reqs:
        solo[(q, role)] = await (await fresh()).execute(q, context={"role": role})
    if requests is NO_INTROSPECTION_REQUESTS:
        for (q, role), exp in zip(reqs, NO_INTROSPECTION_EXPECT):
            errs = solo[(q, role)].get("errors") or []
            want = [] if exp is None else [(exp[0], exp[1], exp[2])]
            got = [((e.get("path") or [None])[0], (e.get("locations") or [{}])[0].get("line"),
                    (e.get("locations") or [{}])[0].get("column")) for e in errs]
            if got != want:
                problems.append("%s on a fresh engine: errors point at %r, the request's own field is at %r (response %s)" % (
                    q, got, want, json.dumps(solo[(q, role)])[:300]))
    if requests is None and all(json.dumps(solo[(q, "guest")], sort_keys=True) == json.dumps(solo[(q, "admin")], sort_keys=True)
                                for q in INTROSPECTION_REQUESTS):
        problems.append("the context-dependent directive hides nothing (scenario is vacuous)")
    shared = await fresh()
    order = list(reqs)
    for rnd in range(3):
        rng.shuffle(order)
        for q, role in order:                                   # one after the other
            r = await shared.execute(q, context={"role": role})
            if json.dumps(r, sort_keys=True) != json.dumps(solo[(q, role)], sort_keys=True):
                problems.append("sequential round %d: %s as %s answered %s, alone on a fresh engine %s" % (
                    rnd, q, role, json.dumps(r)[:300], json.dumps(solo[(q, role)])[:300]))
        rs = await asyncio.gather(*[shared.execute(q, context={"role": role}) for q, role in order])     # all in flight
        for (q, role), r in zip(order, rs):
            if json.dumps(r, sort_keys=True) != json.dumps(solo[(q, role)], sort_keys=True):
                problems.append("concurrent round %d: %s as %s answered %s, alone on a fresh engine %s" % (
                    rnd, q, role, json.dumps(r)[:300], json.dumps(solo[(q, role)])[:300]))

        async def late(q, role, k):                                                                     # overlapping
            for _ in range(k):
                await asyncio.sleep(0)
            return await shared.execute(q, context={"role": role})
        rs = await asyncio.gather(*[late(q, role, 3 * n) for n, (q, role) in enumerate(order)])
        for (q, role), r in zip(order, rs):
            if json.dumps(r, sort_keys=True) != json.dumps(solo[(q, role)], sort_keys=True):
                problems.append("overlapping round %d: %s as %s answered %s, alone on a fresh engine %s" % (
                    rnd, q, role, json.dumps(r)[:300], json.dumps(solo[(q, role)])[:300]))
    return problems, len(reqs) * 9


MUTATING_SDL = """
input Paging { sort: [String] = ["id"] size: Int = 10 }
type Query {
  search(term: String, scopes: [String] = ["public"], paging: Paging = {size: 5}, flags: [[Int]] = [[1], []]): String
  plain(n: Int = 3, tags: [String] = ["a"]): String
}
"""
MUTATING_REQUESTS = [
    ("{ search(term: \"a\") }", {}), ("{ search }", {}), ("{ plain search(scopes: [\"own\"]) }", {}),
    ("query ($s: [String]) { search(scopes: $s) plain }", {}), ("query ($s: [String]) { search(scopes: $s) }", {"s": ["v"]}),
    ("{ a: search(paging: {}) b: plain(n: 1) }", {}), ("query ($p: Paging) { search(paging: $p) }", {}),
]


async def mutating_resolver_scenario(rng):
    """resolvers that MODIFY the argument values they receive (append to a list, set a key of an input object), tagged with
    the request's context -- legal user code, every call gets its own values (seed C15-h): argument DEFAULTS of list /
    input-object type, nested input-field defaults included, must be fresh per request"""
    from tartiflette import create_engine, Resolver
    problems = []

    def register(name):
        async def body(p, a, c, i):
            await asyncio.sleep(0)
            seen = json.dumps(a, sort_keys=True)
            for v in list(a.values()):
                if isinstance(v, list):
                    v.append("tenant:%s" % c["who"])
                    for x in v:
                        if isinstance(x, list):
                            x.append(c["n"])
                if isinstance(v, dict):
                    v["touched_by"] = c["who"]
                    if isinstance(v.get("sort"), list):
                        v["sort"].append(c["who"])
            return seen
        Resolver("Query.search", schema_name=name)(body)
        Resolver("Query.plain", schema_name=name)(body)

    async def fresh():
        name = fresh_schema_name("c15mut")
        register(name)
        return await create_engine(MUTATING_SDL, schema_name=name)

    reqs = [(q, v, who) for (q, v) in MUTATING_REQUESTS for who in ("acme", "globex")]
    solo = {}
    for k, (q, v, who) in enumerate(reqs):
        solo[k] = await (await fresh()).execute(q, variables=dict(v), context={"who": who, "n": k})
    shared = await fresh()
    order = list(range(len(reqs)))
    for rnd in range(2):
        rng.shuffle(order)
        for k in order:
            q, v, who = reqs[k]
            r = await shared.execute(q, variables=dict(v), context={"who": who, "n": k})
            if json.dumps(r, sort_keys=True) != json.dumps(solo[k], sort_keys=True):
                problems.append("sequential round %d: %s %r as %s answered %s, alone on a fresh engine %s" % (
                    rnd, q, v, who, json.dumps(r)[:400], json.dumps(solo[k])[:400]))
        rs = await asyncio.gather(*[shared.execute(reqs[k][0], variables=dict(reqs[k][1]), context={"who": reqs[k][2], "n": k})
                                    for k in order])
        for k, r in zip(order, rs):
            if json.dumps(r, sort_keys=True) != json.dumps(solo[k], sort_keys=True):
                problems.append("concurrent round %d: %s %r as %s answered %s, alone on a fresh engine %s" % (
                    rnd, reqs[k][0], reqs[k][1], reqs[k][2], json.dumps(r)[:400], json.dumps(solo[k])[:400]))
    return problems, len(reqs) * 5


async def family_histories(rng, rounds):
    """Requests issued one after the other on ONE engine behave as on a fresh engine: the invalid / valid document family
    of the C16 check (cycles then valid nestings over the same fragment names, one operation text over different
    fragments, ...) played in several orders; the reference of each request is the answer of a fresh engine in a FRESH
    INTERPRETER, so residue kept anywhere in the process (rule objects, module-level memos) shows as well."""
    from . import c16_worker
    fs = c16_worker.fixed_schema()
    fam = c16.isolated_family()
    refs = c16.isolated_references(fam)
    problems, n = [], 0
    for rnd in range(rounds):
        order = list(range(len(fam)))
        if rnd == 1:
            order.reverse()
        elif rnd > 1:
            rng.shuffle(order)
        rec, oref = execgen.Recorder(), [None, {"ctx": 1}]
        import tartiflette
        orig = tartiflette.create_engine
        if rnd % 2 == 1:
            # an engine that keeps no parsed document alive: nothing remembered about a freed document may be applied to
            # the next one
            async def patched(*a, **k):
                k["query_cache_decorator"] = None
                return await orig(*a, **k)
            tartiflette.create_engine = patched
        try:
            eng = await execgen.build_engine(fs, fresh_schema_name("c15fam"), oref, rec)
        finally:
            tartiflette.create_engine = orig
        for pos, i in enumerate(order + order[:8] + order + order[:8]):
            c = fam[i]
            oref[0] = execgen.Oracle(fs, c["oracle_seed"], 0.05, 0.08)
            try:
                resp = await eng.execute(c["query"], operation_name=c.get("opname"), variables=c["variables"], context=oref[1])
            except Exception as e:  # pylint: disable=broad-except
                resp = {"raised": repr(e)}
            n += 1
            if "worker_failed" in refs[i]:
                problems.append({"what": "reference worker failed", "detail": refs[i]["worker_failed"]})
            elif c16.canon(resp) != c16.canon(refs[i]):
                problems.append({"what": "request #%d of the history answered differently from a fresh engine in a fresh interpreter" % pos,
                                 "query": c["query"], "variables": c["variables"], "answered": resp, "fresh": refs[i],
                                 "query_cache": "disabled" if rnd % 2 == 1 else "default",
                                 "history": [fam[j]["query"] for j in (order + order[:8] + order + order[:8])[:pos]][-12:]})
    return problems, n


async def explore(s, groups, rng, strategies):
    shared = await sched.build_gated_engine(s, fresh_schema_name("c15"), None, None, CFG)
    out = []
    for grp in groups:
        # each request alone on a FRESH engine (never saw any other request)
        solo = []
        for c in grp:
            fresh = await sched.build_gated_engine(s, fresh_schema_name("c15solo"), None, None, CFG)
            solo.append(await sched.run_scheduled(fresh, s, c, sched.strategy("first", rng)))
        docs_before = {}
        for c in grp:
            try:
                d, _e = shared._cached_parse_and_validate_query(c["query"], shared._schema)
                docs_before[c["query"]] = (d, c16.fingerprint(d))
            except Exception:  # pylint: disable=broad-except
                pass
        for st in strategies:
            runs, picks, problems = await run_group(shared, s, grp, group_strategy(st, rng, len(grp)))
            after = []
            for c in grp:
                after.append(await sched.run_scheduled(shared, s, c, sched.strategy("last", rng)))
            fp_changed = [q for q, (d, fp) in docs_before.items() if c16.fingerprint(d) != fp]
            out.append({"group": grp, "strategy": st, "runs": runs, "picks": picks, "problems": problems,
                        "solo": solo, "after": after, "fp_changed": fp_changed})
    return out


def main(tier_, replay=None):
    from . import engine_env
    rep = common.Report("C15")
    seed = common.seed()
    b = common.build(["Properties/C15.vo", "Model/RunExec.vo", "Model/StdScalars.vo"])
    gate = common.grep_gate()
    proofs_ok = b["ok"] and not gate
    engine_env.setup()
    rng = random.Random(seed * 69069 + 15)
    n_schemas, n_groups, strategies = (2, 4, ["round-robin", "last-issued-first", "random"]) if tier_ == "quick" else \
        (8, 10, ["round-robin", "last-issued-first", "first-issued-first", "deepest", "random", "random", "random"])
    viol, mism, total_groups, total_requests, interleavings = [], [], 0, 0, set()
    files, meta = [], []
    for si in range(n_schemas + 1):
        if si == 0:
            s = execgen.add_error_path_types(c08.handwritten_schema())
            groups = hand_groups(rng)
        else:
            s = execgen.add_error_path_types(execgen.gen_exec_schema(rng, n_objects=rng.randrange(2, 4)))
            groups = gen_groups(rng, s, n_groups)
        # requests that fail in the engine's error paths (suggestion lists, ...), each several times per group
        ep = execgen.error_path_cases()
        for _ in range(2 if tier_ == "quick" else 4):
            pick = rng.sample(ep, 2)
            grp = [dict(pick[0]), dict(pick[1]), dict(pick[0]), dict(ep[-1]), dict(pick[0])]
            groups.append(grp)
        results = asyncio.run(explore(s, groups, rng, strategies))
        SAMPLES.extend(results[:1])
        items = []
        for res in results:
            total_groups += 1
            grp = res["group"]
            interleavings.add((si, tuple(c["query"] for c in grp), tuple(map(repr, res["picks"]))))
            why = list(res["problems"])
            if res["fp_changed"]:
                why.append("the cached DocumentNode of %r was modified by executing requests" % res["fp_changed"][0][:80])
            for i, c in enumerate(grp):
                total_requests += 1
                r, so, af = res["runs"][i], res["solo"][i], res["after"][i]
                if r["raised"] or r["problems"]:
                    why.append("request %d: %s" % (i, r["raised"] or r["problems"]))
                if not same_response(r["response"], so["response"]):
                    why.append("request %d (%s) answered %s in flight with the others but %s alone on a fresh engine" % (
                        i, c.get("tag"), json.dumps(r["response"], default=repr)[:400], json.dumps(so["response"], default=repr)[:400]))
                if not same_response(af["response"], so["response"]):
                    why.append("request %d (%s) repeated alone afterwards on the shared engine answered %s, on a fresh engine %s" % (
                        i, c.get("tag"), json.dumps(af["response"], default=repr)[:400], json.dumps(so["response"], default=repr)[:400]))
                try:
                    ast = gen.parse_query(c["query"])
                except Exception:  # pylint: disable=broad-except
                    ast = None
                refused = r["response"].get("data") is None and not r["calls"]     # no execution: nothing to schedule
                if ast is not None and not refused:
                    items.append((c, ast, r, CFG))
            if why:
                viol.append((s, res, why))
        step = 40
        for j in range(0, len(items), step):
            files.append(("C15_s%d_%d_%d" % (seed, si, j), c08.sched_cases_file(s, items[j:j + step])))
            meta.append((s, items[j:j + step]))
    results = common.run_coq_many(files)
    for (s, items), (ok, so, se) in zip(meta, results):
        if not ok:
            rep.violation({"property": "C15", "what": "case file failed to evaluate", "stderr": se[-1500:]}, no_input=True)
            continue
        for i in (common.parse_Z_list(so, "sched_mismatch") or []):
            mism.append((s,) + items[i])
    intro_problems, intro_n = asyncio.run(introspection_context_scenario(rng))
    total_requests += intro_n
    # a schema with introspection switched off: every refusal is about its own request (key, position)
    p2, n2 = asyncio.run(introspection_context_scenario(rng, NO_INTROSPECTION_SDL, NO_INTROSPECTION_REQUESTS, roles=("guest",)))
    intro_problems += ["non-introspectable schema: " + x for x in p2]
    total_requests += n2
    mut_problems, nm = asyncio.run(mutating_resolver_scenario(random.Random(seed * 331 + 15)))
    total_requests += nm
    fam_problems, nf = asyncio.run(family_histories(rng, 2 if tier_ == "quick" else 5))
    total_requests += nf
    for pr in fam_problems[:3]:
        rep.violation(dict(pr, property="C15", kind="a request issued after other requests does not behave as on a fresh engine"))
    for pr in intro_problems[:3]:
        rep.violation({"property": "C15", "kind": "the context of one request changes what another request is answered "
                       "(introspection directive depending on the context)", "sdl": INTROSPECTION_SDL, "problem": pr})
    for pr in mut_problems[:3]:
        rep.violation({"property": "C15", "kind": "a resolver modifying the argument values IT received changes what other requests "
                       "are answered (argument defaults must be fresh per request)", "sdl": MUTATING_SDL, "problem": pr})
    viol_extra = len(intro_problems) + len(fam_problems) + len(mut_problems)
    for s, res, why in viol[:5]:
        rep.violation({"property": "C15", "kind": why[:6], "sdl": gen.schema_sdl(s),
                       "requests": [{"query": c["query"], "variables": c["variables"], "operation_name": c.get("opname"),
                                     "oracle_seed": c["oracle_seed"], "faults": c.get("faults"), "tag": c.get("tag")}
                                    for c in res["group"]],
                       "interleaving (request index, released response path)": [[i, list(p)] for i, p in res["picks"]],
                       "strategy": res["strategy"],
                       "responses_in_flight": [repr(r["response"])[:800] for r in res["runs"]],
                       "responses_alone_fresh_engine": [repr(r["response"])[:800] for r in res["solo"]]})
    if not viol and not viol_extra:
        if not proofs_ok:
            rep.violation({"property": "C15", "what": "proof obligation no longer checks", "file": b.get("failed_file"),
                           "theorem": b.get("failed_lemma"), "gate": gate, "log_tail": b["log"][-1500:]}, no_input=True)
        elif mism:
            s, c, _a, r, cfg = mism[0]
            rep.violation({"property": "C15", "what": "correspondence broken: a request in flight with others behaves differently "
                           "from run_sched of the model on that request alone under the projected schedule", "n": len(mism),
                           "sdl": gen.schema_sdl(s), "query": c["query"], "variables": c["variables"],
                           "schedule": [list(p) for p in r["picks"]], "response": repr(r["response"])[:2000]}, no_input=True)
    nob, names = common.count_obligations(C15_FILES)
    assum = common.assumptions("Properties/C15.v") if b["ok"] else {"closed": 0, "axioms": ["build failed"]}
    common.write_evidence("C15", tier_, "proof", {
        "obligations": nob, "discharged": nob if proofs_ok else 0,
        "checker_cmd": "make Properties/C15.vo", "trusted_base": common.TRUSTED_BASE + [
            "Print Assumptions: %d theorems closed; axioms: %s" % (assum["closed"], assum["axioms"] or "none")],
        "theorems": [n for n in names if n.startswith("C15_")],
        "evaluations": total_requests, "distinct_nontrivial": len(interleavings),
        "rule": "groups of 2-5 requests in flight on one engine (same text with other variables / operation names / data, "
                "other documents, failing, invalid and syntactically broken requests) x interleaving strategies "
                "(round-robin, last-issued-first, first-issued-first, deepest, random); non-trivial = distinct (group, "
                "interleaving); each response compared with the same request alone on a fresh engine and repeated "
                "afterwards on the shared engine; cached documents fingerprinted",
        "traces_validated_against_impl": sum(len(it) for _s, it in meta), "groups": total_groups,
        "impl_model_mismatches": len(mism), "property_violations": len(viol),
        "samples": [{"queries": [c["query"][:120] for c in res["group"]], "variables": [c["variables"] for c in res["group"]],
                     "interleaving": [[i, list(p)] for i, p in res["picks"]][:12]} for res in SAMPLES[:2]],
    }, rep.wall(), violations=len(rep.violations),
        assumptions_=["asyncio runtime outside the model; absence of other shared mutable state is shown by these runs, "
                      "not proved"])
    return rep.finish()
