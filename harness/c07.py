"""C07 — documents breaking a supported validation rule are refused, nothing runs.

A catalogue of violation-injecting rewrites (harness/valgen.py `mutants`: one or more per rule, at
operation level, in nested selections, inside fragments, in directive arguments, in nested input
values, in variable defaults) is applied at the applicable nodes of valid generated documents.  For
every rewritten document the specification model (SpecValidate, evaluated inside Coq) says which
rules it breaks; when it breaks at least one, the real engine must answer `data: null` with errors
and must not have invoked any resolver, type resolver or directive hook.  The implementation
model of the validation walk must report the engine's error set on every document."""
import asyncio
import json
import random

from . import common, gen, valgen, valcheck

C07_FILES = ["Properties/C07.v", "Properties/C07Findings.v", "Proofs/ValidateProofs.v", "Proofs/ValidateRules.v", "Proofs/ValidateValues.v", "Proofs/ValidateSites.v", "Proofs/ValidateWalk.v", "Proofs/ValidateTree.v", "Proofs/SingleRoot.v", "Proofs/SingleRootSpreads.v", "Proofs/ValidateSpreads.v", "Proofs/ValidateScopes.v", "Proofs/ValidatePure.v", "Proofs/ValidateVars.v", "Proofs/FieldLookup.v", "Proofs/Wiring.v"]

# recorded findings: a failing document is attributed to a finding only when the specification model
# says it breaks exactly that rule AND the finding's region predicate (evaluated in Coq) holds
KF_NESTED = "C07-nested-variable-usage"
KF_IFACE = "C07-interface-typename-arguments"


def witness_schema():
    from collections import OrderedDict
    from .gen import N, L, NN
    types = OrderedDict()
    types["Color"] = {"kind": "ENUM", "values": ["RED", "GREEN"]}
    types["In1"] = {"kind": "INPUT", "fields": [{"name": "x", "type": N("Int"), "default": None},
                                                {"name": "y", "type": NN(N("Boolean")), "default": None},
                                                {"name": "e", "type": N("Color"), "default": None}]}
    types["In0"] = {"kind": "INPUT", "fields": [{"name": "a", "type": N("Int"), "default": None},
                                                {"name": "c", "type": N("In1"), "default": None},
                                                {"name": "r", "type": NN(N("Int")), "default": ("int", 3)},
                                                {"name": "self", "type": N("In0"), "default": None},
                                                {"name": "l", "type": L(N("In1")), "default": None}]}
    types["Named"] = {"kind": "INTERFACE", "fields": [{"name": "name", "type": N("String"), "args": []}]}
    types["Dog"] = {"kind": "OBJECT", "interfaces": ["Named"], "fields": [
        {"name": "name", "type": N("String"), "args": [{"name": "lang", "type": N("String"), "default": None}]},
        {"name": "bark", "type": N("Int"), "args": []}]}
    types["Cat"] = {"kind": "OBJECT", "interfaces": ["Named"], "fields": [
        {"name": "name", "type": N("String"), "args": []}, {"name": "meow", "type": N("Int"), "args": []}]}
    types["Rock"] = {"kind": "OBJECT", "interfaces": [], "fields": [{"name": "weight", "type": N("Int"), "args": []}]}
    types["Pet"] = {"kind": "UNION", "members": ["Dog", "Cat"]}
    types["Query"] = {"kind": "OBJECT", "interfaces": [], "fields": [
        {"name": "named", "type": N("Named"), "args": []}, {"name": "pet", "type": N("Pet"), "args": []},
        {"name": "dog", "type": N("Dog"), "args": []}, {"name": "rock", "type": N("Rock"), "args": []},
        {"name": "echo", "type": N("Int"), "args": [{"name": "i", "type": N("In0"), "default": None},
                                                     {"name": "l", "type": L(N("Int")), "default": None},
                                                     {"name": "c", "type": N("Color"), "default": None}]}]}
    types["Subscription"] = {"kind": "OBJECT", "interfaces": [], "fields": [
        {"name": "a", "type": N("Int"), "args": []}, {"name": "b", "type": N("Int"), "args": []}]}
    s = {"types": types, "query": "Query", "mutation": None, "subscription": "Subscription",
         "directives": [{"name": "tag", "args": [{"name": "i", "type": N("In1"), "default": None}], "locations": list(valgen.EXEC_LOCS)}]}
    s["resolvers"] = {("Query", f["name"]) for f in types["Query"]["fields"]}
    s["type_resolvers"], s["field_type_resolvers"] = set(), set()
    return s


WITNESSES = [
    # recorded findings
    (KF_NESTED, "all-variable-usages-are-allowed", "query ($s: String) { echo(i: {a: $s}) }", {"s": "abc"}),
    (KF_NESTED, "all-variable-usages-are-allowed", "query ($s: [Boolean]) { echo(l: [$s]) }", {"s": [True]}),
    (KF_NESTED, "all-variable-usages-are-allowed", "query ($s: Int) { dog @tag(i: {y: $s}) { name } }", {"s": 1}),
    (KF_IFACE, "argument-names", "{ named { __typename(x: 1) } }", {}),
    # an argument only an implementation declares, used where the parent type is the interface
    (None, "argument-names", '{ named { name(lang: "fr") } }', {}),
    (None, "argument-names", '{ dog { ... on Named { name(lang: "fr") } } }', {}),
    (None, "argument-names", '{ named { ...F } } fragment F on Named { name(lang: null) }', {}),
    # repaired defects (fix: commits): must be refused now
    (None, "fragment-spread-is-possible", "{ dog { ... on Cat { meow } } }", {}),
    (None, "fragment-spread-is-possible", "{ pet { ... on Dog { ... on Cat { meow } } } }", {}),
    (None, "fragment-spread-is-possible", "{ named { ... on Rock { weight } } }", {}),
    (None, "field-selections-on-objects-interfaces-and-unions-types", "{ __bogus dog { name } }", {}),
    (None, "field-selections-on-objects-interfaces-and-unions-types", "{ dog { name __nope } }", {}),
    (None, "values-of-correct-type", "{ echo(c: \"RED\") }", {}),
    (None, "values-of-correct-type", "{ echo(i: {c: {y: true, e: \"GREEN\"}}) }", {}),
    (None, "single-root-field", "subscription A { a } subscription B { a b }", {}),
    (None, "single-root-field", "subscription { a ... on Subscription { b } }", {}),
    (None, "single-root-field", "subscription { ... on Subscription { a } ... { t: b } }", {}),
    (None, "single-root-field", "subscription { ...F } fragment F on Subscription { x: a ... on Subscription { y: a } }", {}),
    (None, "single-root-field", "subscription { a ...G } fragment G on Subscription { b }", {}),
    (None, "fragment-spreads-must-not-form-cycles", "{ dog { ...A } } fragment A on Dog { name ...B } fragment B on Dog { bark dogAgain: name ...A }", {}),
]


def mutant_items(rng, s, n_docs, per_rule):
    items = []
    for k in range(n_docs + n_docs // 2):
        if k >= n_docs:
            doc = valgen.sharing_document(rng, s)
        else:
            doc = valgen.VDocGen(rng, s, max_depth=rng.choice([2, 3, 3])).document()
        for rule, where, d2 in valgen.mutants(rng, s, doc, per_rule):
            named = [o["name"] for o in d2["ops"] if o["name"]]
            opn = named[0] if (len(d2["ops"]) > 1 and named) else None
            items.append({"text": valgen.doc_text(d2), "variables": valgen.variables_for(rng, s, d2, opn), "opname": opn,
                          "rule": rule, "where": where})
    return items


def classify(it, o):
    """None = fine; ("kf", id) = recorded finding; ("viol", why)"""
    ran = o["calls"] or o["tr_calls"] or o["hooks"]
    if o["refused"] and not ran:
        return None
    violated = valcheck.rules_of_mask(o["mask"])
    region = o.get("region", 0)
    if violated == ["all-variable-usages-are-allowed"] and region & 1:
        return ("kf", KF_NESTED)
    if violated == ["argument-names"] and region & 2:
        return ("kf", KF_IFACE)
    why = []
    if not o["refused"]:
        why.append("the request was not refused (data is not null or errors is empty)")
    if ran:
        why.append("user code ran: %d resolver call(s), %d type resolver call(s), %d directive hook call(s)" % (
            o["calls"], o["tr_calls"], o["hooks"]))
    return ("viol", why)


def main(tier_, replay=None):
    from . import engine_env
    rep = common.Report("C07")
    if replay:
        return valcheck.replay("C07", replay)
    seed = common.seed()
    b = common.build(["Properties/C07.vo", "Properties/C07Findings.vo", "Model/RunValidate.vo", "Model/StdScalars.vo"])
    gate = common.grep_gate()
    proofs_ok = b["ok"] and not gate
    engine_env.setup()
    rng = random.Random(seed * 104729 + 7)
    n_schemas, n_docs, per_rule = (3, 10, 3) if tier_ == "quick" else (10, 16, 5)
    batches = []
    ws = witness_schema()
    witems = [{"text": q, "variables": v, "opname": None, "rule": rule, "where": "witness", "kf": kf} for kf, rule, q, v in WITNESSES]
    batches.append((ws, list(zip(witems, asyncio.run(valcheck.run_docs(ws, witems))))))
    for _si in range(n_schemas):
        s = valgen.gen_val_schema(rng)
        items = mutant_items(rng, s, n_docs, per_rule)
        obs = asyncio.run(valcheck.run_docs(s, items))
        batches.append((s, list(zip(items, obs))))
    problems = valcheck.evaluate("C07_s%d" % seed, batches)
    for fname, err in problems[:2]:
        rep.violation({"property": "C07", "what": "case file failed to evaluate", "file": fname, "stderr": err}, no_input=True)
    per_rule_counts, ineffective, total, outside_model = {}, 0, 0, 0
    viol, mism, known = [], [], {}
    for s, pairs in batches:
        for it, o in pairs:
            total += 1
            if o.get("mask") is None:
                # not expressible in the model (non-executable definition / not parsed by the stand-in): engine side only
                outside_model += 1
                if it["rule"] == "executable-definitions" and not (o["refused"] and not (o["calls"] or o["tr_calls"] or o["hooks"])):
                    viol.append((s, it, o, ["a document with a non-executable definition was not refused"]))
                continue
            if not o["agree"]:
                mism.append((s, it, o))
            if o["mask"] == 0:
                ineffective += 1
                continue
            for r in valcheck.rules_of_mask(o["mask"]):
                per_rule_counts[r] = per_rule_counts.get(r, 0) + 1
            c = classify(it, o)
            if c is None:
                continue
            if c[0] == "kf":
                known.setdefault(c[1], (s, it, o))
            else:
                viol.append((s, it, o, c[1]))
    listed = {f["id"]: f for f in common.known_findings("C07")}
    for kid, (s, it, o) in known.items():
        if kid in listed:
            rep.known_finding("%s: %s -- e.g. %s" % (kid, listed[kid]["what"], it["text"][:160].replace("\n", " ")))
        else:
            viol.append((s, it, o, ["matches the region of finding %s, which known_findings.json does not list" % kid]))
    for s, it, o, why in viol[:6]:
        rep.violation({"property": "C07", "what": why, "rules_broken_according_to_the_specification_model": valcheck.rules_of_mask(o["mask"]) if o.get("mask") else [it["rule"]],
                       "rewrite": "%s: %s" % (it["rule"], it["where"]), "sdl": valgen.full_sdl(s), "query": it["text"],
                       "variables": it["variables"], "operation_name": it["opname"], "response": o["response"]})
    if not viol and not problems:
        if not proofs_ok:
            rep.violation({"property": "C07", "what": "proof obligation no longer checks", "file": b.get("failed_file"),
                           "theorem": b.get("failed_lemma"), "gate": gate, "log_tail": b["log"][-1500:]}, no_input=True)
        elif mism:
            s, it, o = mism[0]
            rep.violation({"property": "C07", "what": "correspondence broken: the implementation model of the validation walk and "
                           "the engine report different error sets", "n": len(mism), "sdl": valgen.full_sdl(s), "query": it["text"],
                           "engine_errors": o["response"].get("errors"), "rewrite": "%s: %s" % (it["rule"], it["where"])}, no_input=True)
    nob, names = common.count_obligations(C07_FILES)
    assum = common.assumptions("Properties/C07.v") if b["ok"] else {"closed": 0, "axioms": ["build failed"]}
    if b["ok"]:
        a2 = common.assumptions("Properties/C07Findings.v")
        assum = {"closed": assum["closed"] + a2["closed"], "axioms": assum["axioms"] + a2["axioms"]}
    common.write_evidence("C07", tier_, "proof", {
        "obligations": nob, "discharged": nob if proofs_ok else 0, "checker_cmd": "make Properties/C07.vo",
        "trusted_base": common.TRUSTED_BASE + [
            "Print Assumptions: %d theorems closed; axioms: %s" % (assum["closed"], assum["axioms"] or "none")],
        "theorems": [n for n in names if n.startswith("C07_")],
        "evaluations": total, "distinct_nontrivial": total - ineffective - outside_model,
        "rule": "violation-injecting rewrites at the applicable nodes of valid generated documents (+ hand-written witnesses of "
                "repaired and recorded defects); non-trivial = the specification model says the rewritten document breaks at "
                "least one supported rule",
        "traces_validated_against_impl": total - outside_model, "rewrites_without_effect": ineffective,
        "outside_model_engine_side_only": outside_model, "documents_breaking_rule": per_rule_counts,
        "impl_model_mismatches": len(mism), "property_violations": len(viol), "known_findings_reproduced": sorted(known),
        "samples": [{"rewrite": "%s: %s" % (it["rule"], it["where"]), "query": it["text"][:240]}
                    for _s, pairs in batches[1:2] for it, _o in pairs[:3]],
    }, rep.wall(), violations=len(rep.violations),
        assumptions_=["parser stand-in decides which texts parse; schema-level execution hooks are not counted as user code "
                      "(the property exempts them)"])
    return rep.finish()
