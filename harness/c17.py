"""C17 — engines registered under different schema names are independent.

Sets of 2-4 schema/implementation bundles with overlapping type, field, scalar, directive and
subscription names are registered and cooked in one process in every interleaving of
('reg', i) / ('cook', i) steps (exhaustive for 2 bundles, sampled for 3-4); each co-resident
engine's responses are compared with the same bundle built alone in a fresh process, and the
registry entry of each name with the model's projection."""
import itertools
import json
import os
import random
import subprocess
import sys
from concurrent.futures import ThreadPoolExecutor

from . import common

C17_FILES = ["Properties/C17.v", "Proofs/CacheRegistry.v"]
WORKER = os.path.join(os.path.dirname(os.path.abspath(__file__)), "c17_worker.py")


def run_worker(steps):
    env = dict(os.environ, PYTHONHASHSEED="0")
    r = subprocess.run([common.PY, WORKER, json.dumps(steps)], capture_output=True, text=True, env=env, timeout=300)
    for line in r.stdout.splitlines():
        if line.startswith("RESULT "):
            return json.loads(line[7:])
    return {"errors": [["worker", -1, r.stderr[-800:]]], "responses": {}, "registry": {}}


def interleavings(bundles):
    """all sequences of reg/cook steps with reg(i) before cook(i)"""
    steps = [("reg", i) for i in bundles] + [("cook", i) for i in bundles]
    out = []
    for perm in itertools.permutations(steps):
        ok = all(perm.index(("reg", i)) < perm.index(("cook", i)) for i in bundles)
        if ok:
            out.append([list(s) for s in perm])
    return out


def main(tier_, replay=None):
    rep = common.Report("C17")
    seed = common.seed()
    b = common.build(["Properties/C17.vo"])
    gate = common.grep_gate()
    proofs_ok = b["ok"] and not gate
    rng = random.Random(seed * 13 + 17)
    all_b = [0, 1, 2, 3, 4, 5, 6]
    scenarios = []
    for pair in itertools.combinations(all_b, 2):
        ivs = interleavings(pair)
        scenarios += ivs if tier_ != "quick" else rng.sample(ivs, 3)
    n3, n4 = (6, 3) if tier_ == "quick" else (60, 30)
    for _ in range(n3):
        t = rng.sample(all_b, 3)
        scenarios.append(rng.choice(interleavings(t)))
    for _ in range(n4):
        steps = [("reg", i) for i in all_b] + [("cook", i) for i in all_b]
        while True:
            rng.shuffle(steps)
            if all(steps.index(("reg", i)) < steps.index(("cook", i)) for i in all_b):
                break
        scenarios.append([list(s) for s in steps])
    with ThreadPoolExecutor(max_workers=8) as ex:
        alone = dict(zip(all_b, ex.map(lambda i: run_worker([["reg", i], ["cook", i]]), all_b)))
        results = list(ex.map(run_worker, scenarios))
    viol, reg_mm = [], []
    for i, a in alone.items():
        if a["errors"]:
            rep.violation({"property": "C17", "what": "bundle %d does not build alone" % i, "errors": a["errors"]},
                          no_input=True)
    compared = 0
    for steps, res in zip(scenarios, results):
        if res["errors"]:
            viol.append((steps, "error while registering/cooking: %r" % res["errors"][:2], None, None))
            continue
        for i_s, rounds in res["responses"].items():
            i = int(i_s)
            for rnd, rs in enumerate(rounds):
                compared += 1
                exp = alone[i]["responses"][i_s][rnd]
                if json.dumps(rs, sort_keys=True) != json.dumps(exp, sort_keys=True):
                    k = next(j for j, (x, y) in enumerate(zip(rs, exp)) if x != y)
                    viol.append((steps, "engine for bundle %d (round %d) differs from the same bundle built alone on "
                                 "request #%d" % (i, rnd, k), exp[k], rs[k]))
                    break
            if res["registry"].get(i_s) != alone[i]["registry"].get(i_s):
                reg_mm.append((steps, i, alone[i]["registry"].get(i_s), res["registry"].get(i_s)))
    for steps, why, exp, got in viol[:5]:
        rep.violation({"property": "C17", "kind": why, "steps": steps, "built_alone": exp, "built_together": got,
                       "replay": "%s %s '%s'" % (common.PY, WORKER, json.dumps(steps))})
    if not viol:
        if not proofs_ok:
            rep.violation({"property": "C17", "what": "proof obligation no longer checks", "file": b.get("failed_file"),
                           "theorem": b.get("failed_lemma"), "gate": gate, "log_tail": b["log"][-1500:]}, no_input=True)
        elif reg_mm:
            steps, i, exp, got = reg_mm[0]
            rep.violation({"property": "C17", "what": "correspondence broken: the registry entry of a schema name is not "
                           "the projection of the history on that name", "steps": steps, "bundle": i,
                           "alone": exp, "together": got}, no_input=True)
    nob, names = common.count_obligations(C17_FILES)
    assum = common.assumptions("Properties/C17.v") if b["ok"] else {"closed": 0, "axioms": ["build failed"]}
    common.write_evidence("C17", tier_, "proof", {
        "obligations": nob, "discharged": nob if proofs_ok else 0,
        "checker_cmd": "make Properties/C17.vo", "trusted_base": common.TRUSTED_BASE + [
            "Print Assumptions: %d theorems closed; axioms: %s" % (assum["closed"], assum["axioms"] or "none")],
        "theorems": [n for n in names if n.startswith("C17_")],
        "evaluations": len(scenarios), "distinct_nontrivial": len({json.dumps(s) for s in scenarios}),
        "rule": "interleavings of registration and cooking of 2-4 bundles with overlapping names, each in a fresh "
                "process; every engine x 2 rounds x 18 requests (incl. same-named scalars / enums at wrapped output positions) (same names with other definitions per bundle: mandatory vs optional arguments, other enum values; incl. introspection, variables of a custom scalar and of an input object with a directive, and a subscription) compared with "
                "the bundle built alone in a fresh process; non-trivial = distinct interleavings",
        "traces_validated_against_impl": compared, "registry_projection_mismatches": len(reg_mm),
        "property_violations": len(viol), "samples": scenarios[:3],
    }, rep.wall(), violations=len(rep.violations),
        assumptions_=["import caching of user modules and import-time side effects are outside the model"])
    return rep.finish()
