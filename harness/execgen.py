"""Generators, engine driver and Coq printers for the execution-side correspondence checks
(C01 C02 C03 and, with other drivers, C08 C09 C14 C15 C16 C18)."""
import asyncio
import json
import random
import zlib
from collections import OrderedDict

from . import coqterm, gen
from .coqterm import coq_list, coq_string, coq_pyval, coq_option, coq_bool, coq_Z, Opaque
from .gen import N, L, NN, named_of, type_sdl

USER_PREFIX = "user:"


# ------------------------------------------------------------------ schema
def gen_exec_schema(rng, with_mutation=False, with_subscription=False, n_objects=None):
    types = OrderedDict()
    enums = []
    for i in range(rng.randrange(0, 3)):
        name = "E%d" % i
        types[name] = {"kind": "ENUM", "values": rng.sample(["RED", "GREEN", "BLUE", "A", "B"], rng.randrange(1, 4))}
        enums.append(name)
    customs = []
    if rng.random() < 0.4:
        types["Any"] = {"kind": "SCALAR"}
        customs.append("Any")
    if rng.random() < 0.3:
        types["Odd"] = {"kind": "SCALAR"}
        customs.append("Odd")
    leafs = list(gen.BUILTIN_SCALARS) + enums + customs
    n_obj = n_objects or rng.randrange(2, 6)
    objects = ["T%d" % i for i in range(n_obj)]
    interfaces = ["I%d" % i for i in range(rng.randrange(0, 3))]
    unions = ["U%d" % i for i in range(rng.randrange(0, 3))]
    composite = objects + interfaces + unions

    def rand_out_type(allow_composite=True):
        base = rng.choice(composite) if (allow_composite and rng.random() < 0.45) else rng.choice(leafs)
        return gen.wrap_random(rng, N(base), maxdepth=3)

    def rand_args():
        args = []
        if rng.random() < 0.35:
            for j in range(rng.randrange(1, 3)):
                t = gen.wrap_random(rng, N(rng.choice(list(gen.BUILTIN_SCALARS) + enums)), maxdepth=1)
                a = {"name": "a%d" % j, "type": t, "default": None}
                if t[0] != "nonnull" or rng.random() < 0.5:
                    if rng.random() < 0.5:
                        a["default"] = gen.gen_literal(rng, {"types": types}, t, good=True, for_sdl=True)
                        if a["default"] == ("null",) and t[0] == "nonnull":
                            a["default"] = None
                args.append(a)
        return args

    iface_fields = {}
    for i in interfaces:
        fs = [{"name": "%s_f%d" % (i.lower(), j), "type": rand_out_type(), "args": rand_args()}
              for j in range(rng.randrange(1, 3))]
        iface_fields[i] = fs
        types[i] = {"kind": "INTERFACE", "fields": fs}
    for o in objects:
        impl = [i for i in interfaces if rng.random() < 0.5]
        fs = []
        for i in impl:
            fs += [dict(f) for f in iface_fields[i]]
        for j in range(rng.randrange(1, 5)):
            fs.append({"name": "f%d" % j, "type": rand_out_type(), "args": rand_args()})
        types[o] = {"kind": "OBJECT", "interfaces": impl, "fields": fs}
    for i in interfaces:   # every interface needs an implementer
        if not any(i in types[o]["interfaces"] for o in objects):
            o = rng.choice(objects)
            types[o]["interfaces"].append(i)
            types[o]["fields"] = [dict(f) for f in iface_fields[i]] + types[o]["fields"]
    for u in unions:
        types[u] = {"kind": "UNION", "members": rng.sample(objects, rng.randrange(1, min(3, len(objects)) + 1))}

    def root_fields(prefix):
        fs = []
        for k, c in enumerate(composite):
            fs.append({"name": "%s%s" % (prefix, c.lower()), "type": gen.wrap_random(rng, N(c), maxdepth=2),
                       "args": rand_args()})
        for j in range(rng.randrange(1, 4)):
            fs.append({"name": "%ss%d" % (prefix, j), "type": rand_out_type(False), "args": rand_args()})
        return fs

    types["Query"] = {"kind": "OBJECT", "interfaces": [], "fields": root_fields("q")}
    s = {"types": types, "query": "Query", "mutation": None, "subscription": None}
    if with_mutation:
        types["Mutation"] = {"kind": "OBJECT", "interfaces": [], "fields": root_fields("m")}
        s["mutation"] = "Mutation"
    if with_subscription:
        types["Subscription"] = {"kind": "OBJECT", "interfaces": [], "fields": root_fields("s")}
        s["subscription"] = "Subscription"
    # which fields get a registered resolver, which abstract positions a custom type resolver
    s["resolvers"] = set()
    for tn, d in types.items():
        if d["kind"] == "OBJECT":
            for f in d["fields"]:
                if tn in ("Query", "Mutation", "Subscription") or rng.random() < 0.55:
                    s["resolvers"].add((tn, f["name"]))
    s["type_resolvers"] = {a for a in interfaces + unions if rng.random() < 0.35}          # @TypeResolver
    s["field_type_resolvers"] = set()
    for (tn, fn) in s["resolvers"]:
        f = [x for x in types[tn]["fields"] if x["name"] == fn][0]
        if named_of(f["type"]) in interfaces + unions and rng.random() < 0.3:
            s["field_type_resolvers"].add((tn, fn))
    # the same field name returning the same abstract type on two parent types, resolved by DIFFERENT kinds of
    # type resolver (field-level on one, the type's own / the default one on the other)
    if (interfaces + unions) and len(objects) >= 2 and rng.random() < 0.6:
        a = rng.choice(interfaces + unions)
        parents = rng.sample(objects, 2) if rng.random() < 0.7 else [rng.choice(objects), "Query"]
        for k, pn in enumerate(parents):
            if any(f["name"] == "sh" for f in types[pn]["fields"]):
                continue
            types[pn]["fields"].append({"name": "sh", "type": gen.wrap_random(rng, N(a), maxdepth=2), "args": []})
            s["resolvers"].add((pn, "sh"))
            if k == 0 or rng.random() < 0.3:
                s["field_type_resolvers"].add((pn, "sh"))
    return s


def add_error_path_types(s):
    """Types whose misuse exercises the engine's suggestion machinery ("did you mean ..."): an input object and an
    enum with several similar names, reachable from Query.qfilt.  Used by the history / concurrency checks."""
    t = s["types"]
    if "Filt" in t or "Query" not in t:
        return s
    t["Colr"] = {"kind": "ENUM", "values": ["GREEN", "GREET", "GREENS", "GREY", "RED"]}
    t["Filt"] = {"kind": "INPUT", "fields": [
        {"name": "hasFriend", "type": N("Boolean"), "default": None},
        {"name": "hasFriends", "type": N("Boolean"), "default": None},
        {"name": "hasFriendly", "type": N("Boolean"), "default": None},
        {"name": "hasChildren", "type": N("Boolean"), "default": None},
        {"name": "colr", "type": N("Colr"), "default": None}]}
    t["Query"]["fields"].append({"name": "qfilt", "type": N("Int"), "args": [
        {"name": "filt", "type": N("Filt"), "default": None}, {"name": "colr", "type": N("Colr"), "default": None}]})
    t["Query"]["fields"].append({"name": "qfilter", "type": N("Int"), "args": []})
    t["Query"]["fields"].append({"name": "qfilth", "type": N("Int"), "args": []})
    s["resolvers"] |= {("Query", "qfilt"), ("Query", "qfilter"), ("Query", "qfilth")}
    return s


ERROR_PATH_REQUESTS = [
    ("query ($f: Filt) { qfilt(filt: $f) }", {"f": {"hasFriendz": True}}),          # unknown input key, >= 3 close names
    ("query ($f: Filt) { qfilt(filt: $f) }", {"f": {"hasFriendz": True, "hasChild": False}}),
    ("query ($c: Colr) { qfilt(colr: $c) }", {"c": "GREE"}),                          # unknown enum value
    ("query ($f: Filt) { qfilt(filt: $f) }", {"f": {"colr": "GREE"}}),
    ("{ qfilt(filt: {hasFriendz: true}) }", {}),                                    # the same mistakes as literals
    ("{ qfilt(colr: GREE) }", {}),
    ("{ qfilte }", {}),                                                             # unknown field / argument
    ("{ qfilt(fil: null) }", {}),
    ("query ($f: Filtt) { qfilt(filt: $f) }", {}),                                  # unknown type
    ("query ($f: Filt) { qfilt(filt: $f) }", {"f": {"hasFriend": True}}),           # and a valid use
]


def error_path_cases(rng=None):
    return [{"query": q, "variables": dict(v), "opname": None, "kind": "query", "oracle_seed": 3, "root": None,
             "adversarial": 0.0, "fail": 0.0, "tag": "error-path-%d" % i} for i, (q, v) in enumerate(ERROR_PATH_REQUESTS)]


def mixed_field_setting(tname, fname, seed):
    """the per-field (parent_concurrently, list_concurrently) a `mixed` configuration gives to a registered resolver"""
    h = zlib.crc32(("%s.%s/%d" % (tname, fname, seed)).encode())
    return [True, False, None][h % 3], [True, False, None][(h // 3) % 3]


def cfg_coq(cfg, s=None):
    """Coq term of a configuration; a `mixed` one carries the per-field table of the schema's registered resolvers"""
    if "mixed" not in cfg or s is None:
        return "(uniform_cfg %s %s)" % (coq_bool(cfg["parent"]), coq_bool(cfg["list"]))
    prow, lrow = [], []
    for tname, fname in sorted(s["resolvers"]):
        pc, lc = mixed_field_setting(tname, fname, cfg["mixed"])
        if pc is not None:
            prow.append("(%s, %s, %s)" % (coq_string(tname), coq_string(fname), coq_bool(pc)))
        if lc is not None:
            lrow.append("(%s, %s, %s)" % (coq_string(tname), coq_string(fname), coq_bool(lc)))
    look = ("fun t f => match find (fun x => String.eqb (fst (fst x)) t && String.eqb (snd (fst x)) f)%%bool %s with "
            "Some x => Some (snd x) | None => None end")
    return "{| parent_concurrently := %s; list_concurrently := %s; field_parent := %s; field_list := %s |}" % (
        coq_bool(cfg["parent"]), coq_bool(cfg["list"]), look % coq_list(prow), look % coq_list(lrow))


def hand_abstract_schema():
    """Hand-written schema with the abstract-type shapes the properties single out: an interface with two
    implementers sharing a composite field, a union, the same field name + abstract type on several parents with
    DIFFERENT kinds of type resolver, non-null items and fields."""
    types = OrderedDict()
    types["Odd"] = {"kind": "SCALAR"}
    types["Shade"] = {"kind": "ENUM", "values": ["LIGHT", "DARK"]}
    types["Tone"] = {"kind": "ENUM", "values": ["WARM", "COLD", "DARK"]}
    types["Info"] = {"kind": "OBJECT", "interfaces": [], "fields": [
        {"name": "x", "type": N("Int"), "args": []}, {"name": "y", "type": N("Int"), "args": []},
        {"name": "deep", "type": N("Info"), "args": []}, {"name": "must", "type": NN(N("Int")), "args": []},
        {"name": "odd", "type": NN(N("Odd")), "args": []}, {"name": "odds", "type": L(NN(N("Odd"))), "args": []},
        {"name": "oddMaybe", "type": N("Odd"), "args": []}, {"name": "more", "type": L(N("Info")), "args": []}]}
    named = [{"name": "name", "type": N("String"), "args": []}, {"name": "info", "type": N("Info"), "args": []},
             {"name": "sh", "type": L(N("Named")), "args": []}]
    types["Named"] = {"kind": "INTERFACE", "fields": [dict(f) for f in named]}
    types["A"] = {"kind": "OBJECT", "interfaces": ["Named"], "fields": [dict(f) for f in named] + [
        {"name": "a", "type": N("Int"), "args": []}]}
    types["B"] = {"kind": "OBJECT", "interfaces": ["Named"], "fields": [dict(f) for f in named] + [
        {"name": "b", "type": N("Int"), "args": []}, {"name": "strict", "type": NN(N("Info")), "args": []}]}
    types["AB"] = {"kind": "UNION", "members": ["A", "B"]}
    types["Query"] = {"kind": "OBJECT", "interfaces": [], "fields": [
        {"name": "items", "type": L(N("Named")), "args": []}, {"name": "one", "type": N("Named"), "args": []},
        {"name": "ab", "type": L(NN(N("AB"))), "args": []}, {"name": "sh", "type": L(N("Named")), "args": []},
        {"name": "plain", "type": N("Info"), "args": []}, {"name": "strictItems", "type": L(NN(N("Named"))), "args": []},
        {"name": "oddRoot", "type": NN(N("Odd")), "args": []},
        {"name": "shade", "type": N("Shade"), "args": []}, {"name": "tone", "type": N("Tone"), "args": []},
        {"name": "shades", "type": L(NN(N("Shade"))), "args": []},
        # nullable lists directly inside lists, a non-null further down: a failing item nulls the INNER list only
        {"name": "grid", "type": L(L(NN(N("Int")))), "args": []},
        {"name": "cube", "type": L(L(L(NN(N("Int"))))), "args": []},
        {"name": "infoGrid", "type": L(L(NN(N("Info")))), "args": []},
        {"name": "oddGrid", "type": NN(L(L(NN(N("Odd"))))), "args": []},
        {"name": "namedGrid", "type": L(L(NN(N("Named")))), "args": []},
        # the whole resolver-output universe at once, per built-in scalar
        {"name": "sweepInt", "type": L(N("Int")), "args": []}, {"name": "sweepFloat", "type": L(N("Float")), "args": []},
        {"name": "sweepString", "type": L(N("String")), "args": []}, {"name": "sweepBoolean", "type": L(N("Boolean")), "args": []},
        {"name": "sweepID", "type": L(N("ID")), "args": []},
        # arguments that are list / input-object LITERALS with variables below the top level (seeds C01-h, C16-h)
        {"name": "pick", "type": L(N("Int")), "args": [{"name": "ids", "type": L(N("Int")), "default": None},
                                                       {"name": "tag", "type": N("String"), "default": ("str", "t")}]},
        {"name": "span", "type": N("Int"), "args": [{"name": "r", "type": N("Span"), "default": None},
                                                    {"name": "rs", "type": L(N("Span")), "default": None}]}]}
    types["Span"] = {"kind": "INPUT", "fields": [{"name": "lo", "type": N("Int"), "default": None},
                                                 {"name": "hi", "type": N("Int"), "default": ("int", 9)},
                                                 {"name": "steps", "type": L(N("Int")), "default": None}]}
    s = {"types": types, "query": "Query", "mutation": None, "subscription": None}
    s["resolvers"] = {("Query", f["name"]) for f in types["Query"]["fields"]} | {("A", "sh"), ("B", "sh"), ("B", "info"),
                                                                               ("Info", "deep"), ("Info", "odd"), ("Info", "odds"),
                                                                               ("Info", "oddMaybe"), ("Info", "more")}
    s["type_resolvers"] = {"AB"}
    s["field_type_resolvers"] = {("A", "sh"), ("Query", "sh")}
    return s


HAND_ABSTRACT_QUERIES = [
    # a field selected unconditionally AND below a type condition with another sub-selection (heterogeneous list)
    ("{ items { info { x } ... on B { info { y } } name } }", {}),
    ("{ items { ... on A { info { x } } ... on B { info { y deep { x } } } info { deep { y } } } }", {}),
    ("{ strictItems { info { must } ... on A { info { x } a } ... on B { strict { must } info { y } } } }", {}),
    # @include written before @skip, on fields, aliases and a spread
    ("query ($t: Boolean!, $f: Boolean!) { items { name @include(if: $t) @skip(if: $t) n2: name @skip(if: $f) @include(if: $t) "
     "...F @include(if: $t) @skip(if: $t) ... @include(if: $t) @skip(if: $f) { info { y } } } } fragment F on Named { info { x } }",
     {"t": True, "f": False}),
    # the same field name + abstract type on several parents, different kinds of type resolver
    ("{ items { sh { __typename name } } sh { __typename name ... on A { a } } one { sh { __typename ... on B { b } } } }", {}),
    ("{ ab { __typename ... on A { a sh { __typename } } ... on B { b strict { x must } } } }", {}),
    ("{ one { ...G ...G name } } fragment G on Named { name info { x ...H } } fragment H on Info { y }", {}),
    ("{ p: plain { x } p: plain { y } plain { k: x k2: x deep { must } } }", {}),
    # a custom scalar whose result coercion can yield null for a non-null value (99): at T!, in [T!], at a nullable place
    ("{ plain { x odd } items { info { odds oddMaybe } } one { name info { odd y } } }", {}),
    ("{ plain { deep { odds odd } oddMaybe } }", {}),
    ("{ sweepInt sweepFloat }", {}), ("{ sweepString sweepBoolean sweepID }", {}),
    # a list field selected again inside its own sub-selection
    ("{ plain { more { x more { y more { x } } } } items { sh { sh { name sh { __typename } } } } }", {}),
    # nested lists: [[T!]], [[[T!]]], [[Obj!]], [[Odd!]]!, [[Iface!]]
    ("{ grid cube plain { x } }", {}),
    ("{ infoGrid { x must odd } oddGrid namedGrid { name ... on A { a } } }", {}),
]
# ONE document text requested several times in a row on one engine with OTHER variable values: the variables sit below
# the top level of a list / input-object literal, no argument of the field is directly a variable
HAND_REPEATED_DOCUMENTS = [
    ("query ($x: Int) { pick(ids: [1, $x]) }", [{"x": 10}, {"x": 20}, {}, {"x": None}, {"x": 10}]),
    ("query ($h: Int) { span(r: {lo: 1, hi: $h}) }", [{"h": 3}, {"h": 11}, {}, {"h": None}]),
    ("query ($h: Int, $s: Int) { span(rs: [{lo: $s, hi: 2}, {lo: 1, steps: [1, $h]}]) pick(ids: [$h, 2], tag: \"k\") }",
     [{"h": 3, "s": 0}, {"h": 4, "s": 1}, {"s": 5}]),
]
# the last two alone, for checks that must not null the whole data
HAND_ROOT_ODD = ("{ oddRoot plain { x } }", {})


# parents of fields WITHOUT resolver in other shapes than dict / plain attribute object: a subscript-only record
# (not a Mapping, no attributes), an attribute object one of whose attributes raises when read
HAND_PARENT_SHAPES = [
    ("{ items { name info { x y } ... on A { a } ... on B { b } } }", [(["items"], "rec_parent")]),
    ("{ items { name info { x y } ... on A { a } ... on B { b } } }", [(["items"], "attr_raises")]),
    ("{ one { name info { x must } } plain { x y must } }", [(["one"], "rec_parent"), (["plain"], "rec_parent")]),
    ("{ one { name info { x must } } plain { x y must } }", [(["one"], "attr_raises"), (["plain"], "attr_raises")]),
    ("{ strictItems { name ... on A { a } } ab { ... on A { a name } ... on B { b name } } }",
     [(["strictItems"], "attr_raises"), (["ab"], "rec_parent")]),
    ("{ infoGrid { x y must } namedGrid { name } }", [(["infoGrid"], "rec_parent"), (["namedGrid"], "attr_raises")]),
    # a value of ANOTHER enum at an enum position (sibling enum, introspection enum): not a value of this one
    ("{ shade tone shades }", [(["shade"], "foreign_enum")]),
    ("{ shade tone shades }", [(["tone"], "foreign_enum"), (["shades"], "foreign_enum")]),
    ("{ a: shade b: tone }", [(["a"], "foreign_enum"), (["b"], "foreign_enum")]),
    # an OBJECT that merely carries a `.name` equal to a declared value (enum.Enum member, namedtuple): not a value (seed C03-h)
    ("{ shade tone shades }", [(["shade"], "named_enum_object")]),
    ("{ shade tone shades }", [(["tone"], "named_enum_object"), (["shades"], "named_enum_object")]),
]


def hand_abstract_cases(rng, n_seeds=3):
    out = []
    for q, v in HAND_ABSTRACT_QUERIES:
        for _ in range(n_seeds):
            out.append({"query": q, "variables": dict(v), "opname": None, "kind": "query",
                        "oracle_seed": rng.randrange(1 << 30), "root": None, "adversarial": 0.0, "fail": 0.0})
    r2 = random.Random(20260929)          # own generator: the stream of the cases above is not touched
    for q, faults in HAND_PARENT_SHAPES:
        for _ in range(n_seeds):
            out.append({"query": q, "variables": {}, "opname": None, "kind": "query", "oracle_seed": r2.randrange(1 << 30),
                        "root": None, "adversarial": 0.0, "fail": 0.0, "faults": [(list(p), k) for p, k in faults]})
    for q, series in HAND_REPEATED_DOCUMENTS:
        for v in series:
            out.append({"query": q, "variables": dict(v), "opname": None, "kind": "query", "oracle_seed": r2.randrange(1 << 30),
                        "root": None, "adversarial": 0.0, "fail": 0.0})
    return out


def possible_types(s, name):
    d = s["types"][name]
    if d["kind"] == "UNION":
        return list(d["members"])
    if d["kind"] == "INTERFACE":
        return [o for o, od in s["types"].items() if od["kind"] == "OBJECT" and name in od.get("interfaces", [])]
    if d["kind"] == "OBJECT":
        return [name]
    return []


def fields_of(s, name):
    d = s["types"][name]
    return d.get("fields", []) if d["kind"] in ("OBJECT", "INTERFACE") else []


# ------------------------------------------------------------------ documents
class DocGen:
    def __init__(self, rng, s, max_depth=4):
        self.rng, self.s, self.max_depth = rng, s, max_depth
        self.fragments = []       # (name, type_cond, body_text)
        self.vars = OrderedDict() # name -> (type, json value or ABSENT)
        self.ABSENT = object()

    def bool_var(self, value=None):
        name = "b%d" % len(self.vars)
        v = self.rng.random() < 0.5 if value is None else value
        self.vars[name] = (NN(N("Boolean")), v)
        return name, v

    def directives(self):
        r = self.rng.random()
        if r > 0.22:
            return ""
        out = []
        names = ["skip", "include"]
        self.rng.shuffle(names)
        for d in names[:1 if self.rng.random() < 0.8 else 2]:
            if self.rng.random() < 0.5:
                out.append("@%s(if: %s)" % (d, self.rng.choice(["true", "false"])))
            else:
                n, _v = self.bool_var()
                out.append("@%s(if: $%s)" % (d, n))
        return " " + " ".join(out)

    def args_text(self, f):
        if not f.get("args"):
            return ""
        parts = []
        for a in f["args"]:
            required = a["type"][0] == "nonnull" and a.get("default") is None
            if not required and self.rng.random() < 0.4:
                continue
            if required is False and a["type"][0] == "nonnull" and self.rng.random() < 0.25:
                # nullable variable holding null at a non-null position that declares a default: legal document,
                # the field fails at execution time (once per instance of the field)
                vn = "v%d" % len(self.vars)
                self.vars[vn] = (a["type"][1], None)
                parts.append("%s: $%s" % (a["name"], vn))
                continue
            if self.rng.random() < 0.3:
                vn = "v%d" % len(self.vars)
                t = a["type"]
                j = gen.gen_json(self.rng, self.s, t, good=True)
                if self.rng.random() < 0.15 and t[0] != "nonnull":
                    j = self.ABSENT
                self.vars[vn] = (t, j)
                parts.append("%s: $%s" % (a["name"], vn))
            else:
                lit = gen.gen_literal(self.rng, self.s, a["type"], good=True)
                parts.append("%s: %s" % (a["name"], gen.lit_sdl(lit)))
        return "(" + ", ".join(parts) + ")" if parts else ""

    def compatible(self, parent, cond):
        return bool(set(possible_types(self.s, parent)) & set(possible_types(self.s, cond)))

    def selection_set(self, tname, depth, frag_limit):
        """frag_limit: only fragments with index < frag_limit may be spread (keeps the graph a DAG)"""
        rng, s = self.rng, self.s
        d = s["types"][tname]
        sels = []
        flds = fields_of(s, tname)
        n = rng.randrange(1, 5)
        chosen_fields = []
        for _ in range(n):
            r = rng.random()
            if r < 0.55 and flds:
                f = rng.choice(flds)
                sh = [x for x in flds if x["name"] == "sh"]
                if sh and rng.random() < 0.3:
                    f = sh[0]
                chosen_fields.append(f)
                sels.append(self.field(f, depth))
            elif r < 0.65:
                sels.append("__typename" + ("" if rng.random() < 0.8 else " @include(if: true)"))
            elif r < 0.82:
                conds = [c for c, cd in s["types"].items()
                         if cd["kind"] in ("OBJECT", "INTERFACE", "UNION") and c not in ("Query", "Mutation", "Subscription")
                         and self.compatible(tname, c)]
                if tname in ("Query", "Mutation", "Subscription"):
                    conds = [tname]
                if rng.random() < 0.25:
                    sels.append("...%s { %s }" % (self.directives(), self.selection_set(tname, depth + 1, frag_limit)))
                elif conds:
                    c = rng.choice(conds)
                    sels.append("... on %s%s { %s }" % (c, self.directives(), self.selection_set(c, depth + 1, frag_limit)))
            else:
                cands = [i for i, (fname, cond, _b) in enumerate(self.fragments[:frag_limit])
                         if self.compatible(tname, cond)]
                if cands and rng.random() < 0.7:
                    i = rng.choice(cands)
                    sels.append("...%s%s" % (self.fragments[i][0], self.directives()))
                    if rng.random() < 0.25:
                        sels.append("...%s" % self.fragments[i][0])       # same fragment spread twice
        # a field of an interface selected unconditionally AND again below a type condition, with another
        # sub-selection: the merged node list of the response key then depends on the runtime type of each object
        if d["kind"] == "INTERFACE" and flds and rng.random() < 0.5:
            noarg = [f for f in flds if not f.get("args")]
            impls = possible_types(s, tname)
            if noarg and impls:
                comp = [f for f in noarg if s["types"].get(named_of(f["type"]), {"kind": "SCALAR"})["kind"]
                        in ("OBJECT", "INTERFACE", "UNION")]
                f = rng.choice(comp or noarg)
                sels.insert(rng.randrange(len(sels) + 1), self.field(f, depth, alias=False))
                for o in rng.sample(impls, min(len(impls), rng.choice([1, 1, 2]))):
                    sels.insert(rng.randrange(len(sels) + 1), "... on %s { %s }" % (o, self.field(f, depth + 1, alias=False)))
        # repeated response key with a (possibly different) sub-selection: must stay mergeable
        if chosen_fields and rng.random() < 0.35:
            f = rng.choice(chosen_fields)
            if not f.get("args"):
                sels.insert(rng.randrange(len(sels) + 1), self.field(f, depth, alias=False))
        if not sels:
            sels.append("__typename")
        return " ".join(sels)

    def field(self, f, depth, alias=None):
        rng, s = self.rng, self.s
        t = named_of(f["type"])
        kind = s["types"].get(t, {"kind": "SCALAR"})["kind"]
        if alias is None:
            alias = rng.random() < 0.2
        at = self.args_text(f)
        if at:      # the response key determines the arguments: same key => same arguments (mergeable)
            key = "k_%s_%d: " % (f["name"], zlib.crc32(at.encode()) % 100000)
        else:
            key = "al_%s: " % f["name"] if alias else ""
        head = key + f["name"] + at + self.directives()
        if kind in ("OBJECT", "INTERFACE", "UNION"):
            if depth >= self.max_depth:
                return head + " { __typename }"
            return head + " { %s }" % self.selection_set(t, depth + 1, len(self.fragments))
        return head

    def make_fragments(self, n):
        comps = [c for c, cd in self.s["types"].items() if cd["kind"] in ("OBJECT", "INTERFACE", "UNION")
                 and c not in ("Mutation", "Subscription")]
        for i in range(n):
            cond = self.rng.choice(comps)
            body = self.selection_set(cond, 2, i)        # may spread only earlier fragments
            self.fragments.append(("F%d" % i, cond, body))

    def document(self, kind="query", n_ops=1):
        self.make_fragments(self.rng.randrange(0, 4))
        root = {"query": "Query", "mutation": "Mutation", "subscription": "Subscription"}[kind]
        ops = []
        for k in range(n_ops):
            self_vars_before = len(self.vars)
            body = self.selection_set(root, 0, len(self.fragments))
            ops.append((k, body))
        # all variables are declared on every operation that exists (unused ones would be
        # refused by validation, so with several operations each gets the full body of op 0)
        import re
        frag_texts = {n: "fragment %s on %s { %s }" % (n, c, b) for n, c, b in self.fragments}

        def reach(text):
            used, frontier = set(), [n for n in frag_texts if re.search(r"\.\.\.%s\b" % n, text)]
            while frontier:
                n = frontier.pop()
                if n in used:
                    continue
                used.add(n)
                frontier += [m for m in frag_texts if re.search(r"\.\.\.%s\b" % m, frag_texts[n])]
            return used

        texts, all_used = [], set()
        for k, body in ops:
            used = reach(body)
            all_used |= used
            reachable_text = body + " " + " ".join(frag_texts[n] for n in used)
            # exactly the variables this operation uses (directly or through fragments)
            names = [n for n in self.vars if re.search(r"\$%s\b" % n, reachable_text)]
            decl = ", ".join("$%s: %s" % (n, type_sdl(self.vars[n][0])) for n in names)
            decl = "(%s)" % decl if decl else ""
            name = "Op%d" % k if (n_ops > 1 or self.rng.random() < 0.3) else ""
            texts.append("%s %s%s { %s }" % (kind, name, decl, body))
        order = [n for n, _c, _b in self.fragments if n in all_used]
        self.rng.shuffle(order)                       # fragments defined before / after use
        pieces = texts + [frag_texts[n] for n in order]
        variables = {n: v for n, (_t, v) in self.vars.items() if v is not self.ABSENT}
        opname = "Op%d" % self.rng.randrange(n_ops) if n_ops > 1 else None
        return " ".join(pieces), variables, opname


def frag_uses_word(text, name):
    return ("..." + name) in text


# ------------------------------------------------------------------ resolver data (oracle)
def _raiser(exc):
    def get(self):
        raise exc
    return property(get)


class Obj:
    """an attribute-style parent object; `raising`: attributes whose ACCESS raises the given exception (a property
    getter that fails) -- for the engine the same as an attribute holding that exception object"""

    def __init__(self, cls, attrs, raising=None):
        self.__dict__.update(attrs)
        self._cls = cls
        self._raising = dict(raising or {})
        self.__class__ = type(cls, (Obj,), {k: _raiser(e) for k, e in self._raising.items()})

    def _attrs(self):
        out = {k: v for k, v in self.__dict__.items() if k not in ("_cls", "_raising")}
        out.update(self._raising)
        return out


class Rec(Obj):
    """a subscript-only parent object (sqlite3.Row style): NOT a Mapping, and its data are not attributes"""

    def __init__(self, cls, attrs):            # pylint: disable=super-init-not-called
        self.__dict__["_data"] = dict(attrs)
        self.__dict__["_cls"] = cls
        self.__dict__["_raising"] = {}
        self.__class__ = type(cls, (Rec,), {})

    def __getitem__(self, key):
        return self._data[key]

    def _attrs(self):
        return dict(self._data)


def read_tr(result):
    """the `__tr` marker the harness's custom type resolvers answer with"""
    if isinstance(result, dict):
        return result.get("__tr")
    if isinstance(result, Rec):
        return result._data.get("__tr", "Nope")
    return getattr(result, "__tr", "Nope")


def reshape_objects(v, kind, msg):
    """the value v with its object values turned into subscript-only records (kind rec_parent) or into attribute
    objects one attribute of which raises on access (kind attr_raises)"""
    if isinstance(v, list):
        return [reshape_objects(x, kind, msg) for x in v]
    if isinstance(v, Obj):
        v = OrderedDict(v._attrs())
    if isinstance(v, dict) and "_typename" in v:
        attrs = OrderedDict((k, reshape_objects(x, kind, msg)) for k, x in v.items())
        cls = attrs["_typename"] if isinstance(attrs["_typename"], str) and attrs["_typename"].isidentifier() else "Thing"
        if kind == "rec_parent":
            return Rec(cls, attrs)
        names = [k for k in attrs if k not in ("_typename", "__tr", "id")]
        raising = {names[0]: TypeError(msg)} if names else {}
        for k in raising:
            attrs.pop(k)
        return Obj(cls, attrs, raising)
    return v


class UserGraphQLError(Exception):
    pass


class PlainCoercible(Exception):
    """The documented way to customise an error's output: an exception that is NOT derived from the library's error
    class and only exposes `coerce_value` (no `path` / `locations` attributes)."""

    def coerce_value(self, *_args, path=None, locations=None, **_kwargs):
        locs = []
        try:
            for location in locations:
                locs.append(location.collect_value())
        except (AttributeError, TypeError):
            pass
        return {"message": str(self), "path": path, "locations": locs}


def make_user_error_class():
    from tartiflette.types.exceptions.tartiflette import TartifletteError

    class DemoError(TartifletteError):
        pass

    return DemoError


def leaf_universe(name):
    """EVERY value of the resolver-output universe for one built-in scalar (well-typed and adversarial), as one list:
    a field of type [T] returning it shows, in one request, what result coercion does with each of them."""
    nan, inf = float("nan"), float("inf")
    common_ = [None, True, False, 0, 1, -1, 7, 42, 2**31 - 1, -(2**31), 2**31, -(2**31) - 1, 10**30, 10**400,
               0.0, -0.0, 1.0, 3.0, 2.5, -2.25, 0.1, 1e9, 1e10, 2147483647.0, -2147483648.0, 2147483648.0, 1e300, nan, inf, -inf,
               "", "abc", "12", "3.0", "2.5", "nan", "inf", "-Infinity", "1e999", " 7 ", " NaN ", "2147483648", "-2147483649",
               "true", "\u00e9", "a b", [1], [], {"a": 1}, Opaque("bytes"), Opaque("tuple"), Opaque("set"), Opaque("object")]
    return list(common_)


class Oracle:
    """Deterministic pseudo-random, type-directed resolver data."""

    def __init__(self, s, seed, adversarial=0.08, fail=0.08, faults=None):
        self.s, self.seed, self.adv, self.fail = s, seed, adversarial, fail
        self.opaques = {}
        self.faults = {tuple(k): v for k, v in (faults or {}).items()}

    def rng_for(self, *key):
        return random.Random(zlib.crc32(repr((self.seed,) + key).encode()))

    def value(self, rng, t, depth, top=True):
        k = t[0]
        if k == "nonnull":
            if rng.random() < self.adv:
                return None
            return self.value(rng, t[1], depth, top)
        if rng.random() < 0.08:
            return None
        if not top and rng.random() < self.adv * 0.4:
            return ValueError(USER_PREFIX + "item-%d" % rng.randrange(100))      # an exception object as a list element
        if k == "list":
            if rng.random() < self.adv:
                return rng.choice([1, "x", {"a": 1}, Opaque("tuple"), 0, "", False, Opaque("set"), {}])
            n = rng.randrange(0, 3 if depth > 1 else 4)
            items = [self.value(rng, t[1], depth + 1, False) for _ in range(n)]
            # lists of an abstract type: more often than not at least two items of DIFFERENT runtime types
            it = t[1][1] if t[1][0] == "nonnull" else t[1]
            if it[0] == "named" and self.s["types"].get(it[1], {}).get("kind") in ("INTERFACE", "UNION"):
                poss = possible_types(self.s, it[1])
                if len(poss) >= 2 and depth <= 2 and rng.random() < 0.7:
                    while len(items) < 2:
                        items.append(self.object(rng, rng.choice(poss), depth + 1))
                    names = [x.get("_typename") if isinstance(x, dict) else getattr(x, "_typename", None) for x in items]
                    if len({n_ for n_ in names if n_ in poss}) < 2:
                        first = next((n_ for n_ in names if n_ in poss), poss[0])
                        other = rng.choice([p_ for p_ in poss if p_ != first])
                        items[rng.randrange(len(items))] = self.object(rng, first, depth + 1)
                        items.append(self.object(rng, other, depth + 1))
            return items
        name = t[1]
        d = self.s["types"].get(name, {"kind": "SCALAR"})
        kind = d["kind"]
        if kind == "SCALAR":
            return self.scalar(rng, name)
        if kind == "ENUM":
            if rng.random() < self.adv:
                # values of OTHER enums (of this schema and of the introspection schema) are not values of this one
                foreign = [v for o, od in self.s["types"].items() if od["kind"] == "ENUM" and o != name
                           for v in od["values"] if v not in d["values"]]
                foreign += [v for v in ("OBJECT", "SCALAR", "NON_NULL", "QUERY", "FIELD_DEFINITION") if v not in d["values"]]
                return rng.choice(["NOPE", 1, True, ["RED"], d["values"][0].lower()] + foreign[:6])
            return rng.choice(d["values"])
        if kind == "OBJECT":
            return self.object(rng, name, depth)
        # abstract
        poss = possible_types(self.s, name)
        if rng.random() < self.adv:
            bad = rng.choice(["Nope", 5, None, "Query", "missing"] + [o for o in self.s["types"]
                                                                      if self.s["types"][o]["kind"] == "OBJECT" and o not in poss][:1])
            o = self.object(rng, rng.choice(poss), depth)
            if isinstance(o, dict):
                if bad == "missing":
                    o.pop("_typename", None)
                else:
                    o["_typename"] = bad
                o["__tr"] = bad if bad != "missing" else "Nope"
            return o
        return self.object(rng, rng.choice(poss), depth)

    def object(self, rng, tname, depth):
        attrs = OrderedDict()
        attrs["_typename"] = tname
        attrs["__tr"] = tname
        if rng.random() < 0.1:          # the custom type resolvers and the default one disagree about this value
            others = [o for o, od in self.s["types"].items() if od["kind"] == "OBJECT" and o != tname
                      and o not in ("Query", "Mutation", "Subscription")]
            if others:
                attrs["__tr"] = rng.choice(others)
        attrs["id"] = rng.randrange(1000)
        for f in fields_of(self.s, tname):
            if (tname, f["name"]) in self.s["resolvers"]:
                continue
            if depth >= 5:
                continue
            if rng.random() < 0.12:
                continue              # key absent: default resolver yields None
            attrs[f["name"]] = self.value(rng, f["type"], depth + 1, False)
        if rng.random() < 0.2:
            r2 = random.Random(len(attrs) * 31 + attrs["id"])       # own generator: the oracle's stream is not touched
            shape = r2.choice(["obj", "obj", "rec", "rec", "raises"])
            if shape == "rec":
                return Rec(tname, attrs)
            if shape == "raises":
                return reshape_objects(dict(attrs), "attr_raises", USER_PREFIX + "attr-%d" % attrs["id"])
            return Obj(tname, {k: v for k, v in attrs.items() if k != "__tr" or True})
        return dict(attrs)

    def scalar(self, rng, name):
        adv = rng.random() < self.adv
        if name == "Int":
            if adv:
                return rng.choice([2**31, -(2**31) - 1, 2.5, "12", "abc", True, [1], {"a": 1}, 3.0, 10**30,
                                   float("nan"), float("inf"), Opaque("bytes"), "", "3.0", "nan", "inf", "1e999", " 7 ",
                                   "2147483648", "-2147483649"])
            return rng.choice([0, 1, -1, 42, 2**31 - 1, -(2**31), 7])
        if name == "Float":
            if adv:
                return rng.choice([float("nan"), float("inf"), "1.5", "abc", True, [1.5], 10**400, Opaque("tuple"), 3, "",
                                   "nan", "inf", "-Infinity", "1e999", " NaN ", "-1e400", "12.5e1", " 2.5 "])
            return rng.choice([0.0, 1.5, -2.25, 3.0, 1e10, 0.1])
        if name == "String":
            if adv:
                return rng.choice([1, 1.5, True, False, [1], {"a": 1}, Opaque("bytes"), Opaque("object")])
            return rng.choice(["", "abc", "é", "a b", "12"])
        if name == "Boolean":
            if adv:
                return rng.choice([0, 1, 2, "true", "", 0.0, float("nan"), [], Opaque("set"), 1.5])
            return rng.choice([True, False])
        if name == "ID":
            if adv:
                return rng.choice([1.5, True, [1], {"a": 1}, Opaque("tuple"), float("inf")])
            return rng.choice(["a", "12", 0, 7, -3, 3.0])
        if name == "Odd":
            if adv:
                return rng.choice([2, "1", 1.0, True])
            return rng.choice([1, 3, -5, 99])
        if name == "Any":
            return rng.choice([1, "x", 1.5, True, [1, "a"], {"k": 1}])
        return None

    def resolve(self, tname, fname, ftype, path, args=None):
        """('ret', value) | ('raise', msg, is_graphql, ext)"""
        rng = self.rng_for("r", tuple(path), tname, fname, repr(sorted((args or {}).items(), key=repr)))
        kind = self.faults.get(tuple(path))
        if fname.startswith("sweep") and not kind:
            return ("ret", leaf_universe(named_of(ftype)))
        if kind:
            msg = USER_PREFIX + "/".join(map(str, path))
            if kind == "raise":
                return ("raise", msg, False, False)
            if kind == "raise_coercible":
                return ("raise", msg, False, False, "coercible")
            if kind == "raise_gql":
                return ("raise", msg, True, False)
            if kind == "raise_gql_ext":
                return ("raise", msg, True, True)
            if kind == "exc_value":
                return ("ret", ValueError(msg))
            if kind == "null":
                return ("ret", None)
            if kind == "garbage":
                return ("ret", Opaque("object"))
            if kind == "scalar_for_composite":
                return ("ret", 7)
            if kind == "bad_typename":
                return ("ret", {"_typename": "Nope", "__tr": "Nope"})
            if kind == "named_enum_object":
                own = self.s["types"].get(named_of(ftype), {})
                v = Opaque("named:%s" % (own.get("values") or ["RED"])[0])
                t = ftype
                while t[0] in ("nonnull", "list"):
                    if t[0] == "list":
                        v = [v]
                    t = t[1]
                return ("ret", v)
            if kind == "foreign_enum":
                # a value of ANOTHER enum: a sibling enum of this schema when the site is an enum position, else (and at the
                # hand sites `tone` / `b`) a value of the introspection enum __TypeKind
                own = self.s["types"].get(named_of(ftype), {})
                sib = [v for o, od in self.s["types"].items() if od["kind"] == "ENUM" and o != named_of(ftype)
                       for v in od["values"] if v not in own.get("values", [])]
                v = sib[0] if sib and own.get("kind") == "ENUM" and str(path[-1]) not in ("tone", "b") else "OBJECT"
                t = ftype
                depth = 0
                while t[0] in ("nonnull", "list"):
                    depth += t[0] == "list"
                    t = t[1]
                for _ in range(depth):
                    v = [v]
                return ("ret", v)
            if kind in ("rec_parent", "attr_raises"):
                return ("ret", reshape_objects(Oracle(self.s, self.seed, 0.0, 0.0).value(rng, ftype, 0), kind, msg))
            if kind == "coerce_null":
                # 99 is the value the custom scalar Odd serialises as null: a null produced DURING result coercion
                # (for other types just another value, possibly an unserialisable one)
                v = Oracle(self.s, self.seed, 0.0, 0.0).value(rng, ftype, 0)

                def plant(x, t):
                    while t[0] == "nonnull":
                        t = t[1]
                    if t[0] == "list" and isinstance(x, list) and x:
                        i = rng.randrange(len(x))
                        return x[:i] + [plant(x[i], t[1])] + x[i + 1:]
                    return 99
                return ("ret", plant(v, ftype))
            if kind in ("exc_item", "bad_type_item", "null_item", "garbage_item"):
                # the value the resolver would return, with an offending object as one list element
                v = Oracle(self.s, self.seed, 0.0, 0.0).value(rng, ftype, 0)
                if kind == "exc_item":
                    exc = ValueError(msg)
                elif kind == "bad_type_item":
                    foreign = [o for o, od in self.s["types"].items() if od["kind"] == "OBJECT"
                               and o not in ("Query", "Mutation", "Subscription")
                               and o not in possible_types(self.s, named_of(ftype))] \
                        if named_of(ftype) in self.s["types"] else []
                    tn = rng.choice(foreign) if foreign and rng.random() < 0.6 else "Nope"
                    exc = {"_typename": tn, "__tr": tn}
                elif kind == "null_item":
                    exc = None
                else:
                    exc = Opaque("object")

                def plant(x, t):
                    while t[0] == "nonnull":
                        t = t[1]
                    if t[0] == "list" and isinstance(x, list):
                        if x and t[1][0] in ("list",) or (x and t[1][0] == "nonnull" and t[1][1][0] == "list"):
                            i = rng.randrange(len(x))
                            r = plant(x[i], t[1])
                            if r is not None:
                                return x[:i] + [r] + x[i + 1:]
                        i = rng.randrange(len(x) + 1)
                        return x[:i] + [exc] + x[i:]
                    return None
                planted = plant(v, ftype)
                return ("ret", planted if planted is not None else exc)
        r = rng.random()
        if r < self.fail:
            kind = rng.choice(["raise", "raise_gql", "raise_gql_ext", "value", "raise_coercible"])
            msg = USER_PREFIX + "/".join(map(str, path))
            if kind == "value":
                return ("ret", ValueError(msg))
            if kind == "raise_coercible":
                return ("raise", msg, False, False, "coercible")
            return ("raise", msg, kind != "raise", kind == "raise_gql_ext")
        return ("ret", self.value(rng, ftype, 0))


REAL_OPAQUES = {}


class NamedThing:
    """an object with a `.name` / `.value` like an enum.Enum member -- not a string, not an enum value"""
    def __init__(self, name):
        self.name, self.value = name, name

    def __repr__(self):
        return "<NamedThing %s>" % self.name


def realise(v):
    """model-side value -> real Python value handed to the engine"""
    if isinstance(v, Opaque):
        if v.tag not in REAL_OPAQUES and v.tag.startswith("named:"):
            REAL_OPAQUES[v.tag] = NamedThing(v.tag[6:])
        if v.tag not in REAL_OPAQUES:
            REAL_OPAQUES[v.tag] = {"bytes": b"12", "tuple": (1, 2), "set": frozenset([1]),
                                   "object": object(), "generator": (x for x in [1])}.get(v.tag, object())
        return REAL_OPAQUES[v.tag]
    if isinstance(v, list):
        return [realise(x) for x in v]
    if isinstance(v, dict):
        return {k: realise(x) for k, x in v.items()}
    if isinstance(v, Rec):
        for k, x in list(v._data.items()):
            v._data[k] = realise(x)
        return v
    if isinstance(v, Obj):
        for k, x in list(v.__dict__.items()):
            if k not in ("_cls", "_raising"):
                v.__dict__[k] = realise(x)
        return v
    return v


def model_value(v):
    """real value (as seen by the engine / returned by a resolver) -> Coq pyval text"""
    if isinstance(v, Obj):
        return "(PObj %s %s)" % (coq_string(v._cls), coq_list(
            ["(%s, %s)" % (coq_string(k), model_value(x)) for k, x in v._attrs().items()]))
    if isinstance(v, list):
        return "(PList %s)" % coq_list([model_value(x) for x in v])
    if isinstance(v, dict):
        return "(PDict %s)" % coq_list(["(%s, %s)" % (coq_string(k), model_value(x)) for k, x in v.items()])
    if isinstance(v, BaseException):
        return "(PExc (UserErr %s))" % coq_string(str(v))
    for tag, real in REAL_OPAQUES.items():
        if v is real:
            return "(POpaque %s)" % coq_string(tag)
    return coq_pyval(v)


# ------------------------------------------------------------------ engine driver
class Recorder:
    def __init__(self):
        self.calls = []      # dicts
        self.tr_calls = []

    def clear(self):
        self.calls.clear()
        self.tr_calls.clear()


async def build_engine(s, schema_name, oracle_ref, rec, cfg=None, sdl=None):
    """oracle_ref: one-element list holding the current Oracle (swapped per request)."""
    from tartiflette import create_engine, Resolver, TypeResolver, Scalar
    cfg = cfg or {"parent": True, "list": True, "args": "gather"}
    DemoError = make_user_error_class()

    def mk(tname, f):
        fname, ftype = f["name"], f["type"]
        kw = dict(schema_name=schema_name, parent_concurrently=cfg["parent"], list_concurrently=cfg["list"])
        if "mixed" in cfg:
            # per-field settings: the siblings of one selection set MIX concurrent, sequential and "engine default"
            kw["parent_concurrently"], kw["list_concurrently"] = mixed_field_setting(tname, fname, cfg["mixed"])
        if cfg.get("args") == "sync":
            from tartiflette.resolver.default import sync_arguments_coercer
            kw["arguments_coercer"] = sync_arguments_coercer
        if (tname, fname) in s["field_type_resolvers"]:
            def ftr(result, ctx, info, abstract_type):
                path = info.path.as_list()
                out = read_tr(result)
                rec.tr_calls.append({"path": path, "abstract": abstract_type.name, "value": result, "ret": out})
                return out
            kw["type_resolver"] = ftr

        @Resolver("%s.%s" % (tname, fname), **kw)
        async def r(parent, args, ctx, info):
            path = info.path.as_list()
            out = oracle_ref[0].resolve(tname, fname, ftype, path, args)
            entry = {"path": path, "ptype": tname, "field": fname, "source": parent, "args": dict(args),
                     "ctx_ok": ctx is oracle_ref[1] if len(oracle_ref) > 1 else True}
            if out[0] == "ret":
                v = realise(out[1])
                entry["ret"] = ("ret", v)
                rec.calls.append(entry)
                return v
            entry["ret"] = out
            rec.calls.append(entry)
            if out[2]:
                raise DemoError(out[1], extensions={"code": 7} if out[3] else None)
            if len(out) > 4:
                raise PlainCoercible(out[1])
            raise RuntimeError(out[1])
        return r

    for tname, fname in sorted(s["resolvers"]):
        f = [x for x in s["types"][tname]["fields"] if x["name"] == fname][0]
        mk(tname, f)
    for a in sorted(s["type_resolvers"]):
        def mktr(a):
            @TypeResolver(a, schema_name=schema_name)
            def tr(result, ctx, info, abstract_type):
                path = info.path.as_list()
                out = read_tr(result)
                rec.tr_calls.append({"path": path, "abstract": abstract_type.name, "value": result, "ret": out})
                return out
        mktr(a)
    if "Any" in s["types"]:
        @Scalar("Any", schema_name=schema_name)
        class AnyScalar:
            def coerce_output(self, v):
                return v

            def coerce_input(self, v):
                return v

            def parse_literal(self, ast):
                from tartiflette.constants import UNDEFINED_VALUE
                return ast.value if hasattr(ast, "value") and not isinstance(ast.value, (list,)) and type(ast).__name__ in (
                    "IntValueNode", "FloatValueNode", "StringValueNode", "BooleanValueNode", "EnumValueNode") else UNDEFINED_VALUE
    if "Odd" in s["types"]:
        @Scalar("Odd", schema_name=schema_name)
        class OddScalar:
            def coerce_output(self, v):
                if isinstance(v, int) and not isinstance(v, bool) and v == 99:
                    return None              # a null produced DURING result coercion (99 is this scalar's "no value")
                if isinstance(v, int) and not isinstance(v, bool) and v % 2 == 1:
                    return v
                raise ValueError("not odd")

            def coerce_input(self, v):
                if isinstance(v, int) and not isinstance(v, bool) and v % 2 == 1:
                    return v
                raise ValueError("not odd")

            def parse_literal(self, ast):
                from tartiflette.constants import UNDEFINED_VALUE
                if type(ast).__name__ == "IntValueNode":
                    v = int(ast.value)
                    if v % 2 == 1:
                        return v
                return UNDEFINED_VALUE
    return await create_engine(sdl or gen.schema_sdl(s), schema_name=schema_name,
                               coerce_parent_concurrently=cfg["parent"], coerce_list_concurrently=cfg["list"],
                               custom_default_arguments_coercer=None)


# ------------------------------------------------------------------ Coq printing
def path_coq(path):
    if path is None:
        return "None"
    if not isinstance(path, (list, tuple)):
        # not a response path at all (the envelope checks report it): keep the case files printable
        return "(Some [KName %s])" % coq_string("<malformed path %s>" % type(path).__name__)
    return "(Some %s)" % plain_path_coq(path)


def plain_path_coq(path):
    return coq_list([("(KName %s)" % coq_string(p)) if isinstance(p, str) else ("(KIdx %d)" % p) if isinstance(p, int)
                     else "(KName %s)" % coq_string("<malformed key %s>" % type(p).__name__) for p in path])


def uret_coq(ret):
    if ret[0] == "ret":
        return "(URet %s)" % model_value(ret[1])
    return "(URaise %s %s %s)" % (coq_string(ret[1]), coq_bool(ret[2]), coq_bool(ret[3]))


def error_coq(e):
    msg = e.get("message")
    if isinstance(msg, str) and msg.startswith(USER_PREFIX):
        m = "(MUser %s)" % coq_string(msg)
    else:
        m = '(MEngine "")'
    locs = coq_list(["(%d, %d)%%Z" % (l["line"], l["column"]) for l in (e.get("locations") or [])])
    return "{| g_path := %s; g_locs := %s; g_msg := %s; g_ext := %s |}" % (
        path_coq(e.get("path")), locs, m, coq_bool("extensions" in e))


def observation_coq(resp, rec):
    data = resp.get("data")
    calls = coq_list(
        ["(CResolver %s %s %s %s %s)" % (plain_path_coq(c["path"]), coq_string(c["ptype"]), coq_string(c["field"]),
                                         model_value(c["source"]),
                                         coq_list(["(%s, %s)" % (coq_string(k), model_value(v)) for k, v in c["args"].items()]))
         for c in rec.calls] +
        ["(CTypeResolver %s %s %s)" % (plain_path_coq(c["path"]), coq_string(c["abstract"]), model_value(c["value"]))
         for c in rec.tr_calls])
    return "{| r_data := %s; r_errors := %s; r_log := %s |}" % (
        model_value(data), coq_list([error_coq(e) for e in resp.get("errors") or []]), calls)


def usercode_coq(s, rec):
    rtab = coq_list(["(%s, %s, %s, %s)" % (plain_path_coq(c["path"]), coq_string(c["ptype"]), coq_string(c["field"]),
                                          uret_coq(c["ret"])) for c in rec.calls])
    ttab = coq_list(["(%s, %s, (URet %s))" % (coq_string(c["abstract"]), model_value(c["value"]), model_value(c["ret"]))
                     for c in rec.tr_calls])
    return "(table_usercode %s %s %s %s %s)" % (
        coq_list(["(%s, %s)" % (coq_string(a), coq_string(b)) for a, b in sorted(s["resolvers"])]),
        coq_list([coq_string(a) for a in sorted(s["type_resolvers"])]),
        coq_list(["(%s, %s)" % (coq_string(a), coq_string(b)) for a, b in sorted(s["field_type_resolvers"])]),
        rtab, ttab)
