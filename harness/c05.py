"""C05 — field arguments reach resolvers spec-coerced; literal = variable.

Each generated request spells ONE value for one probe field in every available way (literal,
variable, variable nested in a list/object literal, variable default, schema default / omitted,
null literal, null variable) as aliased root fields.  Observed: the argument dictionary each
resolver call received (or the field error).  Checked inside Coq against the impl model of
coerce_arguments / the literal coercers; spellings of the same value must agree pairwise.
"""
import asyncio
import json
import random
from collections import OrderedDict

from . import common, coqterm, gen
from .c04 import fresh_schema_name
from .coqterm import coq_list, coq_string, coq_pyval, coq_option, coq_float

PROPERTY_FILES = ["Properties/C05.v", "Proofs/LiteralFacts.v", "Proofs/ArgsRefine.v", "Proofs/LiteralRefine.v", "Properties/C05Typing.v", "Proofs/InputTyping.v", "Proofs/BuiltinLeaves.v"]


def json_of_lit(x):
    k = x[0]
    if k in ("int", "float", "str", "bool", "enum"):
        return x[1]
    if k == "null":
        return None
    if k == "list":
        return [json_of_lit(i) for i in x[1]]
    if k == "obj":
        return OrderedDict((n, json_of_lit(v)) for n, v in x[1])
    raise ValueError(x)


def elem_type(s, t, lit):
    """type of the position of a list item / object field inside literal lit of type t."""
    while t[0] == "nonnull":
        t = t[1]
    return t


def nest_variable(rng, s, t, lit, vname):
    """Replace one sub-literal of a list/object literal by a variable.  Returns
    (new literal, variable type, variable json value) or None."""
    tt = t
    while tt[0] == "nonnull":
        tt = tt[1]
    if lit[0] == "list" and tt[0] == "list" and lit[1]:
        i = rng.randrange(len(lit[1]))
        sub = lit[1][i]
        items = list(lit[1])
        items[i] = ("var", vname)
        return ("list", items), tt[1], json_of_lit(sub)
    if lit[0] == "obj" and tt[0] == "named" and lit[1]:
        d = s["types"][tt[1]]
        i = rng.randrange(len(lit[1]))
        n, sub = lit[1][i]
        ft = [f["type"] for f in d["fields"] if f["name"] == n][0]
        fields = list(lit[1])
        fields[i] = (n, ("var", vname))
        return ("obj", fields), ft, json_of_lit(sub)
    return None


def gen_case(rng, s):
    f = rng.choice(s["types"]["Query"]["fields"])
    arg = f["args"][0]
    t = arg["type"]
    nonnull = t[0] == "nonnull"
    use_default_value = arg.get("default") is not None and rng.random() < 0.5
    lit = arg["default"] if use_default_value else gen.gen_literal(rng, s, t, good=True)
    r2 = random.Random(rng.random())
    tl_ = t[1] if nonnull else t
    if not use_default_value and tl_[0] == "list" and tl_[1][0] != "list" and not (tl_[1][0] == "nonnull" and tl_[1][1][0] == "list") \
            and r2.random() < 0.6:
        lit = ("list", [gen.gen_literal(r2, s, tl_[1], good=True, nullable=False)])
    if nonnull and lit == ("null",):
        lit = gen.gen_literal(rng, s, t[1], good=True, nullable=False)
    decls, variables, sels, group = [], OrderedDict(), [], []
    fn = f["name"]
    sels.append("lit: %s(x: %s)" % (fn, gen.lit_sdl(lit)))
    group.append("lit")
    decls.append("$a: %s" % gen.type_sdl(t))
    variables["a"] = json_of_lit(lit)
    sels.append("var: %s(x: $a)" % fn)
    group.append("var")
    if lit != ("null",):
        decls.append("$b: %s = %s" % (gen.type_sdl(t), gen.lit_sdl(lit)))
        sels.append("vdef: %s(x: $b)" % fn)
        group.append("vdef")
    nested = nest_variable(rng, s, t, lit, "w")
    if nested:
        nlit, wt, wj = nested
        # a nullable sub-value flowing into a non-null position is not a legal usage
        if not (wj is None and wt[0] == "nonnull"):
            decls.append("$w: %s" % gen.type_sdl(wt))
            variables["w"] = wj
            sels.append("nested: %s(x: %s)" % (fn, gen.lit_sdl(nlit)))
            group.append("nested")
    # a list position given ONE value without brackets (`x: v` stands for `x: [v]`), the value possibly holding a variable
    tl = t[1] if nonnull else t
    if tl[0] == "list" and lit[0] == "list" and len(lit[1]) == 1 and lit[1][0] != ("null",) and lit[1][0][0] != "list":
        item = lit[1][0]
        sels.append("single: %s(x: %s)" % (fn, gen.lit_sdl(item)))
        group.append("single")
        sn = nest_variable(rng, s, tl[1], item, "sv") if item[0] == "obj" else None
        if sn and not (sn[2] is None and sn[1][0] == "nonnull"):
            decls.append("$sv: %s" % gen.type_sdl(sn[1]))
            variables["sv"] = sn[2]
            sels.append("singlenested: %s(x: %s)" % (fn, gen.lit_sdl(sn[0])))
            group.append("singlenested")
    if use_default_value:
        sels.append("sdef: %s" % fn)
        group.append("sdef")
    elif not nonnull or arg.get("default") is not None:
        sels.append("omitted: %s" % fn)
    if nonnull and arg.get("default") is not None:
        # a nullable variable is allowed at a non-null position that declares a default; a null runtime value
        # (explicit, or through the variable's own default) must fail the field, not fall back to the default
        decls.append("$z: %s" % gen.type_sdl(t[1]))
        variables["z"] = None
        sels.append("nznull: %s(x: $z)" % fn)
        decls.append("$y: %s = null" % gen.type_sdl(t[1]))
        sels.append("nydefnull: %s(x: $y)" % fn)
        decls.append("$q: %s" % gen.type_sdl(t[1]))       # declared, never provided: the default applies
        sels.append("nqabsent: %s(x: $q)" % fn)
    if not nonnull:
        sels.append("nul: %s(x: null)" % fn)
        decls.append("$n: %s" % gen.type_sdl(t))
        variables["n"] = None
        sels.append("nvar: %s(x: $n)" % fn)
        decls.append("$u: %s" % gen.type_sdl(t))      # declared, never provided
        sels.append("uvar: %s(x: $u)" % fn)
    q = "query (%s) { %s }" % (", ".join(decls), " ".join(sels))
    # the same document again with OTHER runtime values (same text: the second execution goes through the parse cache)
    alt = dict(variables)
    a2 = gen.gen_literal(rng, s, t, good=True)
    if nonnull and a2 == ("null",):
        a2 = gen.gen_literal(rng, s, t[1], good=True, nullable=False)
    alt["a"] = json_of_lit(a2)
    if "w" in alt:
        w2 = gen.gen_literal(rng, s, nested[1], good=True)
        if nested[1][0] == "nonnull" and w2 == ("null",):
            w2 = gen.gen_literal(rng, s, nested[1][1], good=True, nullable=False)
        alt["w"] = json_of_lit(w2)
    return {"query": q, "variables": dict(variables), "group": group, "field": fn, "decls": decls, "sels": sels,
            "alt_variables": alt}


BAD_VALUES = {"Int": 3, "Float": 2.5, "String": "three", "Boolean": True, "ID": "id9"}
ILL_SHAPES = ["direct", "fragment", "nested_fragment", "shared_good_first", "shared_bad_first", "shared_nested"]


def gen_illtyped(rng, s):
    """A document using a variable DIRECTLY as an argument value at a position whose named type differs from the
    variable's (rule 5.8.5 forbids it whatever the runtime value): nothing may be delivered to the resolver."""
    f = rng.choice(s["types"]["Query"]["fields"])
    t = f["args"][0]["type"]
    bad = rng.choice([b for b in BAD_VALUES if b != gen.named_of(t)])
    badt = bad + ("!" if rng.random() < 0.5 else "")
    shape = rng.choice(ILL_SHAPES)
    use = "probe: %s(x: $v)" % f["name"]
    good = "query Good($v: %s) { ...F }" % gen.type_sdl(t)
    badop = "query Bad($v: %s) { ...F }" % badt
    if shape == "direct":
        q = "query Bad($v: %s) { %s }" % (badt, use)
    elif shape == "fragment":
        q = "%s fragment F on Query { %s }" % (badop, use)
    elif shape == "nested_fragment":
        q = "%s fragment F on Query { ...G } fragment G on Query { %s }" % (badop, use)
    elif shape == "shared_good_first":
        q = "%s %s fragment F on Query { %s }" % (good, badop, use)
    elif shape == "shared_bad_first":
        q = "%s %s fragment F on Query { %s }" % (badop, good, use)
    else:
        q = "%s %s fragment F on Query { ...G } fragment G on Query { %s }" % (good, badop, use)
    return {"query": q, "variables": {"v": BAD_VALUES[bad]}, "op": "Bad", "group": [], "field": f["name"],
            "illtyped": shape, "declared": gen.type_sdl(t), "variable_type": badt}


async def run_schema(s, cases, schema_name):
    from tartiflette import create_engine, Resolver
    record = {}

    def mk(fname):
        @Resolver("Query." + fname, schema_name=schema_name)
        async def r(parent, args, ctx, info):
            record[info.path.as_list()[0]] = args
            return 1
        return r

    for f in s["types"]["Query"]["fields"]:
        mk(f["name"])
    engine = await create_engine(gen.schema_sdl(s), schema_name=schema_name)
    out = []
    for c in cases:
        record.clear()
        try:
            resp = await engine.execute(c["query"], variables=c["variables"], operation_name=c.get("op"))
        except Exception as e:  # pylint: disable=broad-except
            resp = {"raised": repr(e)}
        out.append({"response": resp, "args": dict(record)})
    return out


def directive_query(c):
    """the request of case c with every argument moved from the probe field to a FIELD directive on `ping`"""
    fn = c["field"]
    out = []
    for sel in c["sels"]:
        alias, rest = sel.split(": ", 1)
        assert rest.startswith(fn)
        out.append("%s: ping @p_%s%s" % (alias, fn, rest[len(fn):]))
    return "query (%s) { %s }" % (", ".join(c["decls"]), " ".join(out))


async def run_directive_positions(s, cases, schema_name):
    """DIRECTIVE positions: for every probe field `f(x: T = d)` a directive `@p_f(x: T = d) on FIELD` whose
    on_field_execution hook records the argument dictionary it receives.  Each case is executed as written
    (arguments at the field) and with the arguments moved to the directive, twice: with its variables and again --
    same text, so through the parse cache -- with other runtime values.  Returns per case and per run the two
    observations per alias."""
    from tartiflette import create_engine, Resolver, Directive
    frecord, drecord = {}, {}

    def mk(fname):
        @Resolver("Query." + fname, schema_name=schema_name)
        async def r(parent, args, ctx, info):
            frecord[info.path.as_list()[0]] = args
            return 1

        @Directive("p_" + fname, schema_name=schema_name)
        class P:
            async def on_field_execution(self, directive_args, next_resolver, parent_result, args, ctx, info):
                drecord[info.path.as_list()[0]] = directive_args
                return await next_resolver(parent_result, args, ctx, info)
        return r, P

    dirs = []
    for f in s["types"]["Query"]["fields"]:
        mk(f["name"])
        a = f["args"][0]
        dirs.append("directive @p_%s(x: %s%s) on FIELD" % (
            f["name"], gen.type_sdl(a["type"]), " = " + gen.lit_sdl(a["default"]) if a.get("default") is not None else ""))

    @Resolver("Query.ping", schema_name=schema_name)
    async def ping(parent, args, ctx, info):
        return 1

    sdl = gen.schema_sdl(s) + "\n".join(dirs) + "\nextend type Query { ping: Int }\n"
    engine = await create_engine(sdl, schema_name=schema_name)

    def view(resp, rec, aliases):
        if not isinstance(resp, dict) or "raised" in resp or resp.get("data") is None:
            return {"refused": repr(resp)[:300]}
        failed = {(e.get("path") or ["?"])[0] for e in resp.get("errors") or []}
        return {a: ("called " + canon(rec[a])) if a in rec else ("failed" if a in failed else "nocall") for a in aliases}

    out = []
    for c in cases:
        aliases = [sel.split(": ", 1)[0] for sel in c["sels"]]
        dq = directive_query(c)
        runs = []
        for variables in (c["variables"], c["alt_variables"]):
            frecord.clear(); drecord.clear()
            try:
                fr = await engine.execute(c["query"], variables=variables)
            except Exception as e:  # pylint: disable=broad-except
                fr = {"raised": repr(e)}
            try:
                dr = await engine.execute(dq, variables=variables)
            except Exception as e:  # pylint: disable=broad-except
                dr = {"raised": repr(e)}
            runs.append({"variables": variables, "field": view(fr, frecord, aliases), "directive": view(dr, drecord, aliases),
                         "directive_response": dr})
        out.append({"directive_query": dq, "runs": runs})
    return out


def canon(v):
    """type-exact canonical text of a delivered value"""
    if isinstance(v, bool) or v is None:
        return repr(v)
    if isinstance(v, int):
        return "i%d" % v
    if isinstance(v, float):
        return "f" + v.hex()
    if isinstance(v, str):
        return "s" + json.dumps(v)
    if isinstance(v, list):
        return "[" + ",".join(canon(i) for i in v) + "]"
    if isinstance(v, dict):
        return "{" + ",".join("%s:%s" % (json.dumps(k), canon(x)) for k, x in v.items()) + "}"
    return "?" + repr(v)


def field_observations(ast, run):
    """alias -> Coq term of the per-field observation, python description"""
    resp = run["response"]
    op = [d for d in ast["definitions"] if d["kind"] == "OperationDefinition"][0]
    out = OrderedDict()
    if "raised" in resp or (resp.get("data") is None):
        return None
    errs_by_alias = {}
    for e in resp.get("errors") or []:
        p = e.get("path") or ["?"]
        errs_by_alias.setdefault(p[0], []).append(
            [(l["line"], l["column"]) for l in (e.get("locations") or [])])
    for sel in op["selectionSet"]["selections"]:
        alias = sel["alias"]["value"] if sel.get("alias") else sel["name"]["value"]
        if alias in run["args"]:
            a = run["args"][alias]
            out[alias] = ("(ACalled %s)" % coq_list(
                ["(%s, %s)" % (coq_string(k), coq_pyval(v)) for k, v in a.items()]),
                {"called": canon(a)})
        elif alias in errs_by_alias:
            locs = [l for ls in errs_by_alias[alias] for l in ls]
            out[alias] = ("(AFailed %s)" % coq_list(["(%d, %d)%%Z" % l for l in locs]),
                          {"failed": locs})
        else:
            out[alias] = ("ANoCall", {"nocall": True})
    return out


def cases_file(s, cases, asts, runs):
    lex = set()
    for a in asts:
        lex |= gen.all_lexemes(a)
    ftab = {}
    for l in lex:
        try:
            ftab[l] = float(l)
        except ValueError:
            ftab[l] = None
    L = [coqterm.HEADER,
         "From TV Require Import Model.Schema Model.ImplInput Model.SpecInput Model.ScalarLawsB "
         "Model.StdScalars Model.RunInput Model.RunArgs.\n",
         "Definition ftab : list (string * option spec_float) := %s.\n" % coq_list(
             ["(%s, %s)" % (coq_string(k), coq_option(None if v is None else coq_float(v)))
              for k, v in ftab.items()]),
         "Definition O := table_oracle ftab [].\n",
         "Definition sch : schema := %s.\n" % gen.schema_coq(s)]
    items = []
    index = []
    for ci, (c, ast, run) in enumerate(zip(cases, asts, runs)):
        obs = field_observations(ast, run)
        if obs is None:
            continue
        raw = coq_list(["(%s, %s)" % (coq_string(k), coq_pyval(v)) for k, v in c["variables"].items()])
        items.append("(%s, %s, %s)" % (gen.document_coq(ast), raw,
                                       coq_list(["(%s, %s)" % (coq_string(k), v[0]) for k, v in obs.items()])))
        index.append(ci)
    L.append("Definition cases : list (document * vars * list (string * aobs)) := %s.\n" % coq_list(items))
    L.append('Eval vm_compute in ("impl_mismatch", idx_where (fun c => match c with (doc, raw, obs) => '
             "negb (args_agree sch doc raw obs) end) cases 0).\n")
    return "".join(L), index


def main(tier_, replay=None):
    from . import engine_env
    rep = common.Report("C05")
    seed = common.seed()
    b = common.build(["Properties/C05.vo", "Properties/C05Typing.vo", "Model/RunArgs.vo", "Model/StdScalars.vo"])
    gate = common.grep_gate()
    proofs_ok = b["ok"] and not gate
    engine_env.setup()
    rng = random.Random(seed * 104729 + 5)
    n_schemas, n_cases = (4, 100) if tier_ == "quick" else (20, 400)
    files, meta = [], []
    total = spell_pairs = spellings = 0
    distinct_requests = set()
    directive_runs, directive_disagreements = 0, []
    disagreements = []
    refused_requests = 0
    ill_total, ill_shapes = 0, {}
    for si in range(n_schemas):
        s = gen.gen_input_schema(rng)
        cases = [gen_case(rng, s) for _ in range(n_cases)]
        ill = [gen_illtyped(rng, s) for _ in range(max(12, n_cases // 5))]
        ill_runs = asyncio.run(run_schema(s, ill, fresh_schema_name("c05ill")))
        for c, r in zip(ill, ill_runs):
            ill_total += 1
            ill_shapes[c["illtyped"]] = ill_shapes.get(c["illtyped"], 0) + 1
            if r["args"] or r["response"].get("data") is not None or not r["response"].get("errors"):
                disagreements.append((s, c, r, "a %s variable used directly at a position of type %s (%s): the document "
                                      "must be refused, nothing may reach the resolver" % (
                                          c["variable_type"], c["declared"], c["illtyped"])))
        asts = [gen.parse_query(c["query"]) for c in cases]
        runs = asyncio.run(run_schema(s, cases, fresh_schema_name("c05")))
        # DIRECTIVE positions deliver what FIELD positions deliver: same request, arguments moved to a directive; then the
        # same two texts again with other runtime values
        druns = asyncio.run(run_directive_positions(s, cases, fresh_schema_name("c05d")))
        for c, d in zip(cases, druns):
            for ri, run in enumerate(d["runs"]):
                directive_runs += 1
                if "refused" in run["field"] or "refused" in run["directive"]:
                    if ("refused" in run["field"]) != ("refused" in run["directive"]):
                        directive_disagreements.append((s, c, d, run, "one of the two requests was refused as a whole"))
                    continue
                bad = [a for a in run["field"] if run["field"][a] != run["directive"].get(a)]
                if bad:
                    directive_disagreements.append((s, c, d, run, "%s execution (%s): the directive hook and the resolver disagree "
                                                    "at %s" % ("first" if ri == 0 else "second", "the case's variables" if ri == 0 else
                                                               "same texts, other runtime values", bad)))
        # spellings of the same value must agree
        for c, a, r in zip(cases, asts, runs):
            total += 1
            obs = field_observations(a, r)
            if obs is None:
                refused_requests += 1
                disagreements.append((s, c, r, "request refused although every spelling is valid"))
                continue
            spellings += len(obs)
            pairs_before = spell_pairs
            vals = {k: json.dumps(obs[k][1], sort_keys=True) for k in c["group"] if k in obs}
            spell_pairs += max(0, len(vals) - 1)
            if len(set(vals.values())) > 1:
                disagreements.append((s, c, r, "spellings disagree: %s" % vals))
            # null spellings
            if "nul" in obs and "nvar" in obs:
                spell_pairs += 1
                if obs["nul"][1] != obs["nvar"][1]:
                    disagreements.append((s, c, r, "null literal vs null variable: %s / %s" % (obs["nul"][1], obs["nvar"][1])))
            if "omitted" in obs and "uvar" in obs:
                spell_pairs += 1
                if obs["omitted"][1] != obs["uvar"][1]:
                    disagreements.append((s, c, r, "omitted vs unprovided variable: %s / %s" % (obs["omitted"][1], obs["uvar"][1])))
            if "nqabsent" in obs and "omitted" in obs or spell_pairs > pairs_before:
                distinct_requests.add((c["query"], json.dumps(c["variables"], sort_keys=True)))
            # a null runtime value for a non-null argument fails that field (it never falls back to the schema default);
            # a declared but unprovided variable leaves the argument to its default
            for k in ("nznull", "nydefnull"):
                if k in obs and "failed" not in obs[k][1]:
                    disagreements.append((s, c, r, "null through a nullable variable at a non-null argument (%s) did not fail the "
                                                   "field: %s" % (k, obs[k][1])))
            if "nqabsent" in obs and "omitted" in obs:
                spell_pairs += 1
                if obs["nqabsent"][1] != obs["omitted"][1]:
                    disagreements.append((s, c, r, "unprovided variable at a defaulted non-null argument vs omitted argument: %s / %s" % (
                        obs["nqabsent"][1], obs["omitted"][1])))
            if "nul" in obs and "omitted" in obs and obs["nul"][1] == obs["omitted"][1] and \
                    [f for f in s["types"]["Query"]["fields"] if f["name"] == c["field"]][0]["args"][0].get("default") is None:
                disagreements.append((s, c, r, "explicit null not distinguished from absent"))
        for j in range(0, len(cases), 100):
            text, index = cases_file(s, cases[j:j + 100], asts[j:j + 100], runs[j:j + 100])
            files.append(("C05_s%d_%d_%d" % (seed, si, j), text))
            meta.append((s, cases[j:j + 100], asts[j:j + 100], runs[j:j + 100], index))
    results = common.run_coq_many(files)
    impl_mm = []
    for (s, cases, asts, runs, index), (ok, so, se) in zip(meta, results):
        if not ok:
            rep.violation({"property": "C05", "what": "case file failed to evaluate", "stderr": se[-1500:]},
                          no_input=True)
            continue
        for i in common.parse_Z_list(so, "impl_mismatch") or []:
            ci = index[i]
            impl_mm.append((s, cases[ci], runs[ci]))
    for s, c, r, why in disagreements[:5]:
        rep.violation({"property": "C05", "kind": why, "sdl": gen.schema_sdl(s), "query": c["query"],
                       "variables": c["variables"], "args_received": {k: canon(v) for k, v in r["args"].items()},
                       "response": r["response"]})
    for s, c, d, run, why in directive_disagreements[:5]:
        rep.violation({"property": "C05", "kind": "directive position: " + why, "sdl": gen.schema_sdl(s),
                       "field_query": c["query"], "directive_query": d["directive_query"], "variables": run["variables"],
                       "first_execution_variables": c["variables"],
                       "resolver_received": run["field"], "directive_hook_received": run["directive"],
                       "directive_response": repr(run["directive_response"])[:1500]})
    from . import nestedvars
    nv_problems, _nv_n = nestedvars.run(rep, "C05")
    if not disagreements and not directive_disagreements and not nv_problems:
        if not proofs_ok:
            rep.violation({"property": "C05", "what": "proof obligation no longer checks",
                           "file": b.get("failed_file"), "theorem": b.get("failed_lemma"), "gate": gate,
                           "log_tail": b["log"][-1500:]}, no_input=True)
        elif impl_mm:
            s, c, r = impl_mm[0]
            rep.violation({"property": "C05", "what": "correspondence broken: impl model of coerce_arguments and "
                           "engine disagree; all spellings agree on the explored cases",
                           "sdl": gen.schema_sdl(s), "query": c["query"], "variables": c["variables"],
                           "args_received": {k: canon(v) for k, v in r["args"].items()},
                           "response": r["response"], "n": len(impl_mm)}, no_input=True)
    nob, names = common.count_obligations(PROPERTY_FILES)
    assum = common.assumptions("Properties/C05.v") if b["ok"] else {"closed": 0, "axioms": ["build failed"]}
    if b["ok"]:
        a2 = common.assumptions("Properties/C05Typing.v")
        assum = {"closed": assum["closed"] + a2["closed"], "axioms": assum["axioms"] + a2["axioms"]}
    common.write_evidence("C05", tier_, "proof", {
        "obligations": nob, "discharged": nob if proofs_ok else 0,
        "checker_cmd": "make Properties/C05.vo (coqc 8.16.1) after regenerating Gen/ from /repo",
        "trusted_base": common.TRUSTED_BASE + [
            "Print Assumptions: %d theorems closed; axioms: %s" % (assum["closed"], assum["axioms"] or "none")],
        "theorems": [n for n in names if n.startswith("C05_")],
        "evaluations": total + ill_total, "distinct_nontrivial": len(distinct_requests),
        "spellings_executed": spellings, "spelling_pairs_compared": spell_pairs,
        "directive_position_runs": directive_runs, "directive_position_disagreements": len(directive_disagreements),
        "rule": "evaluations = requests run through the engine and the models plus ill-typed documents; non-trivial = "
                "distinct requests (query text + variables) in which at least two spellings of one value were compared; "
                "one value per request spelled as literal / variable / nested variable / variable default / "
                "schema default / null / omitted; plus documents using a "
                "variable of another named type directly at the argument (in the operation, through fragments, "
                "through a fragment shared with a well-typed operation): must be refused, resolver never called",
        "traces_validated_against_impl": total - refused_requests,
        "impl_model_mismatches": len(impl_mm), "spelling_disagreements": len(disagreements),
        "illtyped_variable_documents": ill_total, "illtyped_shapes": ill_shapes,
        "samples": [{"query": c["query"], "variables": c["variables"]} for c in meta[0][1][:4]] if meta else [],
    }, rep.wall(), violations=len(rep.violations),
        assumptions_=["directive positions are tied to field positions on the engine (same request with the arguments moved to a "
                      "FIELD directive, executed twice with different runtime values); the Coq model covers the field position"])
    return rep.finish()
