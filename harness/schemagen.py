"""SDL-level schema models for the build checks (C12, C11): a valid schema model (from
valgen.gen_val_schema) is rewritten into an SDL document with `extend` definitions, type-system
directives and a schema definition; a catalogue of SDL-level violation rewrites; printers to SDL
text and to the Coq `sdl` term of Model/SchemaBuild.v.

model : dict(types=[tdecl], dirdefs=[ddecl], exts=[ext], schema={kind: type} or {}, schema_dirs=[names],
             scalar_impls=[names], text_mutation=None | fn)
tdecl : dict(name, kind, dirs=[names], values | fields | members | interfaces+fields)
ext   : dict(target, kind, dirs, values | fields | members | interfaces+fields) | dict(schema_ops={..}, dirs)
"""
import copy
from collections import OrderedDict

from . import gen, valgen
from .gen import N, L, NN, named_of, type_sdl, lit_sdl, coq_string, coq_list, coq_bool

TS_LOCS = ["SCHEMA", "SCALAR", "OBJECT", "INTERFACE", "UNION", "ENUM", "INPUT_OBJECT"]


def base_model(rng):
    s = valgen.gen_val_schema(rng)
    types = []
    for name, d in s["types"].items():
        t = {"name": name, "kind": d["kind"], "dirs": []}
        if d["kind"] == "ENUM":
            t["values"] = list(d["values"])
        elif d["kind"] == "INPUT":
            t["fields"] = copy.deepcopy(d["fields"])
        elif d["kind"] in ("OBJECT", "INTERFACE"):
            t["fields"] = copy.deepcopy(d["fields"])
            if d["kind"] == "OBJECT":
                t["interfaces"] = list(d.get("interfaces", []))
        elif d["kind"] == "UNION":
            t["members"] = list(d["members"])
        types.append(t)
    dirdefs = [dict(copy.deepcopy(d), awaitable=True) for d in s.get("directives", [])]
    dirdefs.append({"name": "tsd", "args": [{"name": "w", "type": N("Int"), "default": None}], "locations": list(TS_LOCS),
                    "awaitable": True})
    dirdefs.append({"name": "tsd2", "args": [], "locations": list(TS_LOCS), "awaitable": True})
    dirdefs.append({"name": "tsd3", "args": [], "locations": list(TS_LOCS), "awaitable": True})
    schema = {"query": s["query"]}
    if s.get("mutation"):
        schema["mutation"] = s["mutation"]
    if s.get("subscription"):
        schema["subscription"] = s["subscription"]
    m = {"types": types, "dirdefs": dirdefs, "exts": [], "schema": schema, "schema_dirs": [],
         "scalar_impls": [t["name"] for t in types if t["kind"] == "SCALAR"], "text_mutation": None}
    # a few type-system directives
    for t in types:
        if rng.random() < 0.25:
            t["dirs"].append("tsd")
    # an interface that no object type implements (legal): its fields and arguments must still be checked
    if rng.random() < 0.7 and not any(t["name"] == "ILone" for t in types):
        types.append({"name": "ILone", "kind": "INTERFACE", "dirs": [], "fields": [
            {"name": "lone0", "type": N("String"), "args": [{"name": "a0", "type": NN(N("Int")), "default": None},
                                                          {"name": "a1", "type": L(N("String")), "default": None}]},
            {"name": "lone1", "type": L(N("ILone")), "args": []}]})
    covariant_implementations(rng, m)
    split_into_extensions(rng, m)
    if rng.random() < 0.4 and set(schema) == {"query"} and schema["query"] == "Query":
        m["schema"] = {}                    # default root names, no schema definition
    return m, s


def covariant_implementations(rng, m):
    """valid by IsValidImplementationFieldType: the object's field is non-null where the interface's is nullable, or names
    an object type that implements the interface / belongs to the union the interface field names (behind wrappers)"""
    byname = {t["name"]: t for t in m["types"]}

    def narrow(t):
        if t[0] == "nonnull":
            return NN(narrow(t[1]))
        if t[0] == "list":
            return L(narrow(t[1]))
        d = byname.get(t[1])
        if d and d["kind"] == "INTERFACE":
            impl = [o["name"] for o in m["types"] if o["kind"] == "OBJECT" and t[1] in o.get("interfaces", [])]
            if impl and rng.random() < 0.7:
                return N(rng.choice(impl))
        if d and d["kind"] == "UNION" and d["members"] and rng.random() < 0.7:
            return N(rng.choice(d["members"]))
        return t

    for o in m["types"]:
        if o["kind"] != "OBJECT":
            continue
        inherited = iface_field_names(m, o)
        for f in o["fields"]:
            if f["name"] in inherited and rng.random() < 0.4:
                t = narrow(f["type"])
                if t[0] != "nonnull" and rng.random() < 0.5:
                    t = NN(t)
                f["type"] = t


def iface_field_names(m, t):
    out = set()
    for i in t.get("interfaces", []):
        for it in m["types"]:
            if it["name"] == i and it["kind"] == "INTERFACE":
                out |= {f["name"] for f in it["fields"]}
    return out


def split_into_extensions(rng, m):
    """moves part of some definitions into valid `extend` definitions"""
    for t in m["types"]:
        if rng.random() > 0.35:
            continue
        k = t["kind"]
        dirs = ["tsd2"] if (rng.random() < 0.4 and "tsd2" not in t["dirs"]) else []
        if k == "ENUM" and len(t["values"]) >= 2:
            v = t["values"].pop()
            m["exts"].append({"target": t["name"], "kind": k, "dirs": dirs, "values": [v]})
        elif k == "UNION" and len(t["members"]) >= 2:
            v = t["members"].pop()
            m["exts"].append({"target": t["name"], "kind": k, "dirs": dirs, "members": [v]})
        elif k == "INPUT" and len(t["fields"]) >= 2:
            f = t["fields"].pop()
            m["exts"].append({"target": t["name"], "kind": k, "dirs": dirs, "fields": [f]})
        elif k == "OBJECT":
            own = [f for f in t["fields"] if f["name"] not in iface_field_names(m, t)]
            if len(t["fields"]) >= 2 and own:
                f = own[-1]
                t["fields"].remove(f)
                m["exts"].append({"target": t["name"], "kind": k, "dirs": dirs, "fields": [f], "interfaces": []})
        elif k == "SCALAR" and dirs:
            m["exts"].append({"target": t["name"], "kind": k, "dirs": dirs})
    rng.shuffle(m["exts"])
    # directive-ONLY extensions (they add nothing but a directive), one per kind, in FRONT of every other extension: what
    # comes after them must still be merged and validated
    front, seen = [], set()
    for t in m["types"]:
        k = t["kind"]
        if k in seen or t["name"] in gen.BUILTIN_SCALARS:
            continue
        seen.add(k)
        e = {"target": t["name"], "kind": k, "dirs": ["tsd3"]}
        if k == "ENUM":
            e["values"] = []
        elif k == "UNION":
            e["members"] = []
        elif k in ("INPUT", "INTERFACE"):
            e["fields"] = []
        elif k == "OBJECT":
            e["fields"], e["interfaces"] = [], []
        front.append(e)
    m["exts"][:0] = front
    # an object that gains an interface through an extension WITHOUT a field block (it already has the required fields),
    # alone and together with a directive
    r2 = __import__("random").Random(len(m["types"]) * 101 + len(m["exts"]))      # own generator
    n_moved = 0
    for t in m["types"]:
        if t["kind"] == "OBJECT" and t.get("interfaces") and n_moved < 2 and r2.random() < 0.7:
            i = t["interfaces"].pop()
            m["exts"].append({"target": t["name"], "kind": "OBJECT", "dirs": ["tsd2"] if n_moved == 1 and "tsd2" not in t["dirs"]
                              and not any(e.get("target") == t["name"] and "tsd2" in e["dirs"] for e in m["exts"]) else [],
                              "fields": [], "interfaces": [i]})
            n_moved += 1


# ------------------------------------------------------------------ printing
def dirs_sdl(dirs):
    return "".join(" @%s" % d for d in dirs)


def fields_sdl(fields):
    fl = []
    for f in fields:
        args = ""
        if f.get("args"):
            args = "(" + ", ".join("%s: %s%s" % (a["name"], type_sdl(a["type"]),
                                                 " = " + lit_sdl(a["default"]) if a.get("default") is not None else "")
                                   for a in f["args"]) + ")"
        fl.append("  %s%s: %s%s" % (f["name"], args, type_sdl(f["type"]), dirs_sdl(f.get("dirs", []))))
    return "{\n" + "\n".join(fl) + "\n}"


def inputs_sdl(fields):
    return "{\n" + "\n".join("  %s: %s%s%s" % (f["name"], type_sdl(f["type"]),
                                               " = " + lit_sdl(f["default"]) if f.get("default") is not None else "",
                                               dirs_sdl(f.get("dirs", [])))
                             for f in fields) + "\n}"


def body_sdl(t, ext=False):
    k = t["kind"]
    name = t.get("target") if ext else t["name"]
    d = dirs_sdl(t["dirs"])
    pre = "extend " if ext else ""
    if k == "SCALAR":
        return "%sscalar %s%s" % (pre, name, d)
    if k == "ENUM":
        vd = t.get("value_dirs") or {}
        return "%senum %s%s%s" % (pre, name, d, " { %s }" % " ".join(v + dirs_sdl(vd.get(v, [])) for v in t["values"])
                                  if t.get("values") else "")
    if k == "INPUT":
        return "%sinput %s%s%s" % (pre, name, d, " " + inputs_sdl(t["fields"]) if t.get("fields") else "")
    if k == "UNION":
        return "%sunion %s%s%s" % (pre, name, d, " = " + " | ".join(t["members"]) if t.get("members") else "")
    if k == "INTERFACE":
        return "%sinterface %s%s%s" % (pre, name, d, " " + fields_sdl(t["fields"]) if t.get("fields") else "")
    impl = (" implements " + " & ".join(t["interfaces"])) if t.get("interfaces") else ""
    return "%stype %s%s%s%s" % (pre, name, impl, d, " " + fields_sdl(t["fields"]) if t.get("fields") else "")


def model_sdl(m, pieces=False):
    out = []
    for t in m["types"]:
        if t["kind"] == "SCALAR" and t["name"] in gen.BUILTIN_SCALARS and not t.get("explicit"):
            continue
        out.append(body_sdl(t))
    for d in m["dirdefs"]:
        args = ""
        if d["args"]:
            args = "(" + ", ".join("%s: %s%s" % (a["name"], type_sdl(a["type"]),
                                                 " = " + lit_sdl(a["default"]) if a.get("default") is not None else "")
                                   for a in d["args"]) + ")"
        out.append("directive @%s%s on %s" % (d["name"], args, " | ".join(d["locations"])))
    if m["schema"]:
        out.append("schema%s { %s }" % (dirs_sdl(m["schema_dirs"]), " ".join("%s: %s" % kv for kv in m["schema"].items())))
    for e in m["exts"]:
        if "schema_ops" in e:
            ops = " { %s }" % " ".join("%s: %s" % kv for kv in e["schema_ops"].items()) if e["schema_ops"] else ""
            out.append("extend schema%s%s" % (dirs_sdl(e["dirs"]), ops))
        else:
            out.append(body_sdl(e, ext=True))
    if pieces:
        return out
    text = "\n".join(out) + "\n"
    if m.get("text_mutation"):
        text = m["text_mutation"](text)
    return text


# ------------------------------------------------------------------ Coq term
def typedef_coq(t):
    k = t["kind"]
    if k == "SCALAR":
        return "DScalar"
    if k == "ENUM":
        return "(DEnum %s)" % coq_list([coq_string(v) for v in t.get("values", [])])
    if k == "INPUT":
        return "(DInput %s)" % coq_list([gen.input_def_coq(f) for f in t.get("fields", [])])
    if k == "OBJECT":
        return "(DObject %s %s)" % (coq_list([coq_string(i) for i in t.get("interfaces", [])]),
                                   coq_list([gen.field_def_coq(f) for f in t.get("fields", [])]))
    if k == "INTERFACE":
        return "(DInterface %s)" % coq_list([gen.field_def_coq(f) for f in t.get("fields", [])])
    return "(DUnion %s)" % coq_list([coq_string(x) for x in t.get("members", [])])


def model_coq(m):
    types = coq_list(["{| td_name := %s; td_def := %s; td_dirs := %s |}" % (
        coq_string(t["name"]), typedef_coq(t), coq_list([coq_string(d) for d in t["dirs"]]))
        for t in m["types"] if not (t["kind"] == "SCALAR" and t["name"] in gen.BUILTIN_SCALARS and not t.get("explicit"))])
    dirdefs = coq_list(["{| dd_def := {| dd_name := %s; dd_args := %s; dd_locs := %s |}; dd_hooks_awaitable := %s |}" % (
        coq_string(d["name"]), coq_list([gen.input_def_coq(a) for a in d["args"]]),
        coq_list([coq_string(l) for l in d["locations"]]), coq_bool(d.get("awaitable", True))) for d in m["dirdefs"]])
    exts = []
    for e in m["exts"]:
        if "schema_ops" in e:
            exts.append("(XSchema %s %s)" % (coq_list(["(%s, %s)" % (coq_string(k), coq_string(v)) for k, v in e["schema_ops"].items()]),
                                            coq_list([coq_string(d) for d in e["dirs"]])))
        else:
            exts.append("(XType %s %s %s)" % (coq_string(e["target"]), typedef_coq(e), coq_list([coq_string(d) for d in e["dirs"]])))
    md = []
    for holder in list(m["types"]) + [e for e in m["exts"] if "target" in e]:
        tn = holder.get("target") or holder["name"]
        for f in holder.get("fields", []) or []:
            if f.get("dirs"):
                md.append("(%s, %s, %s)" % (coq_string(tn), coq_string(f["name"]),
                                            coq_list([coq_string(d.split("(")[0]) for d in f["dirs"]])))
        for v, ds in (holder.get("value_dirs") or {}).items():
            if ds:
                md.append("(%s, %s, %s)" % (coq_string(tn), coq_string(v), coq_list([coq_string(d.split("(")[0]) for d in ds])))
    return ("{| s_types := %s; s_dirdefs := %s; s_exts := %s; s_schema := %s; s_schema_dirs := %s; s_scalar_impls := %s; "
            "s_member_dirs := %s |}") % (
        types, dirdefs, coq_list(exts),
        coq_list(["(%s, %s)" % (coq_string(k), coq_string(v)) for k, v in m["schema"].items()]),
        coq_list([coq_string(d) for d in m["schema_dirs"]]),
        coq_list([coq_string(x) for x in m["scalar_impls"]]), coq_list(md))


# ------------------------------------------------------------------ violation catalogue
def find_type(m, name):
    for t in m["types"]:
        if t["name"] == name:
            return t
    return None


def out_field_sites(m):
    """(holder dict with 'fields', field index, description) over objects, interfaces and their extensions"""
    out = []
    for t in m["types"]:
        if t["kind"] in ("OBJECT", "INTERFACE"):
            for i, _f in enumerate(t["fields"]):
                out.append((t, i, "%s %s" % (t["kind"].lower(), t["name"])))
    for e in m["exts"]:
        if e.get("kind") in ("OBJECT", "INTERFACE"):
            for i, _f in enumerate(e.get("fields", [])):
                out.append((e, i, "extension of %s" % e["target"]))
    return out


def rewrap(t, name):
    if t[0] == "named":
        return N(name)
    return (t[0], rewrap(t[1], name))


def mutants(rng, m0, limit=4):
    """list of (rule, where, mutated model)"""
    out = []

    def add(rule, where, fn):
        m = copy.deepcopy(m0)
        m["text_mutation"] = None
        try:
            ok = fn(m)
        except (IndexError, KeyError, ValueError):
            ok = False
        if ok is not False:
            out.append((rule, where, m))

    sites = out_field_sites(m0)
    idx = list(range(len(sites)))
    rng.shuffle(idx)
    objs = [t["name"] for t in m0["types"] if t["kind"] == "OBJECT"]
    inputs = [t["name"] for t in m0["types"] if t["kind"] == "INPUT"]
    enums = [t["name"] for t in m0["types"] if t["kind"] == "ENUM"]
    unions = [t["name"] for t in m0["types"] if t["kind"] == "UNION"]
    ifaces = [t["name"] for t in m0["types"] if t["kind"] == "INTERFACE"]

    # R1 undefined types
    for n in idx[:limit]:
        add("undefined-type", "type of field %d in %s -> undefined (wrappers kept)" % (sites[n][1], sites[n][2]),
            lambda m, n=n: out_field_sites(m)[n][0]["fields"][out_field_sites(m)[n][1]].update(
                type=rewrap(out_field_sites(m)[n][0]["fields"][out_field_sites(m)[n][1]]["type"], "ZZNope")))
    with_args = [n for n in idx if sites[n][0]["fields"][sites[n][1]].get("args")]
    for n in with_args[:limit]:
        add("undefined-type", "type of an argument of field %d in %s -> undefined" % (sites[n][1], sites[n][2]),
            lambda m, n=n: out_field_sites(m)[n][0]["fields"][out_field_sites(m)[n][1]]["args"][0].update(
                type=rewrap(out_field_sites(m)[n][0]["fields"][out_field_sites(m)[n][1]]["args"][0]["type"], "ZZNope"), default=None))
        add("non-input-type", "type of an argument of field %d in %s -> object type" % (sites[n][1], sites[n][2]),
            lambda m, n=n: out_field_sites(m)[n][0]["fields"][out_field_sites(m)[n][1]]["args"][0].update(
                type=rewrap(out_field_sites(m)[n][0]["fields"][out_field_sites(m)[n][1]]["args"][0]["type"], rng.choice(objs + unions + ifaces)),
                default=None))
    for name in inputs:
        add("undefined-type", "type of an input field of %s -> undefined" % name,
            lambda m, name=name: find_type(m, name)["fields"][0].update(type=L(NN(N("ZZNope"))), default=None))
        add("non-input-type", "type of an input field of %s -> object type" % name,
            lambda m, name=name: find_type(m, name)["fields"][-1].update(type=NN(N(rng.choice(objs))), default=None))
    for e_i, e in enumerate(m0["exts"]):
        if e.get("kind") == "INPUT":
            add("non-input-type", "input field added by an extension of %s -> interface/union/object type" % e["target"],
                lambda m, e_i=e_i: m["exts"][e_i]["fields"][0].update(type=N(rng.choice(objs + unions + ifaces)), default=None))
    add("non-input-type", "directive argument of an object type",
        lambda m: m["dirdefs"][0]["args"].append({"name": "zz", "type": N(rng.choice(objs)), "default": None}))

    if any(t["name"] == "ILone" for t in m0["types"]):
        def lone_arg(m, ty):
            find_type(m, "ILone")["fields"][0]["args"][0].update(type=ty, default=None)
        add("undefined-type", "argument of a field of an interface nobody implements -> undefined type",
            lambda m: lone_arg(m, NN(N("ZZNope"))))
        add("non-input-type", "argument of a field of an interface nobody implements -> object/interface type",
            lambda m: lone_arg(m, L(NN(N(rng.choice(objs + ["ILone"]))))))
        add("non-input-type", "extend interface (nobody implements it) adds a field with an object-typed argument",
            lambda m: m["exts"].append({"target": "ILone", "kind": "INTERFACE", "dirs": [], "fields": [
                {"name": "lone2", "type": N("Int"), "args": [{"name": "z", "type": N(rng.choice(objs)), "default": None}]}]}))
        add("undefined-type", "field of an interface nobody implements -> undefined type",
            lambda m: find_type(m, "ILone")["fields"][1].update(type=N("ZZNope")))
    # R3 interfaces
    impls = [(t["name"], i) for t in m0["types"] if t["kind"] == "OBJECT" for i in t.get("interfaces", [])]
    rng.shuffle(impls)
    for oname, iname in impls[:limit]:
        it = find_type(m0, iname)
        if not it or not it["fields"]:
            continue
        f0 = rng.choice(it["fields"])["name"]

        def obj_field(m, oname=oname, f0=f0):
            t = find_type(m, oname)
            for f in t["fields"]:
                if f["name"] == f0:
                    return t, f
            for e in m["exts"]:
                if e.get("target") == oname:
                    for f in e.get("fields", []):
                        if f["name"] == f0:
                            return e, f
            raise KeyError(f0)

        add("interface-not-honoured", "%s drops field %s of interface %s" % (oname, f0, iname),
            lambda m, obj_field=obj_field: obj_field(m)[0]["fields"].remove(obj_field(m)[1]))

        def retype(m, obj_field=obj_field):
            f = obj_field(m)[1]
            base = named_of(f["type"])
            f["type"] = rewrap(f["type"], "Boolean" if base != "Boolean" else "Int")
        add("interface-not-honoured", "%s.%s gets another named type than interface %s" % (oname, f0, iname), retype)

        def unwrap(m, obj_field=obj_field):
            f = obj_field(m)[1]
            if f["type"][0] == "nonnull":
                f["type"] = f["type"][1]
            elif f["type"][0] == "list":
                f["type"] = f["type"][1] if f["type"][1][0] != "nonnull" else f["type"][1][1]
            else:
                f["type"] = L(f["type"])
        add("interface-not-honoured", "%s.%s loses / gains a wrapper w.r.t. interface %s" % (oname, f0, iname), unwrap)

        def swap_wrapper(m, obj_field=obj_field):
            f = obj_field(m)[1]
            t = f["type"]
            if t[0] == "list":
                f["type"] = NN(t[1]) if t[1][0] != "nonnull" else NN(L(t[1][1]))
            elif t[0] == "nonnull":
                f["type"] = L(t[1])
            else:
                return False
        add("interface-not-honoured", "%s.%s: outermost wrapper replaced by the other wrapper kind (list <-> non-null)" % (oname, f0),
            swap_wrapper)

        def second_iface(m, oname=oname, f0=f0, iname=iname):
            it2 = find_type(m, iname)
            f = copy.deepcopy([x for x in it2["fields"] if x["name"] == f0][0])
            base = named_of(f["type"])
            f["type"] = rewrap(f["type"], "Boolean" if base != "Boolean" else "Int")
            m["types"].append({"name": "ZZLater", "kind": "INTERFACE", "dirs": [], "fields": [f]})
            find_type(m, oname)["interfaces"].append("ZZLater")
        add("interface-not-honoured", "%s also implements a later-listed interface declaring %s with another type" % (oname, f0),
            second_iface)

        def extra_arg(m, obj_field=obj_field):
            obj_field(m)[1].setdefault("args", []).append({"name": "zz_extra", "type": NN(N("Int")), "default": None})
        add("interface-not-honoured", "%s.%s gets an extra required argument" % (oname, f0), extra_arg)
        itf = [f for f in it["fields"] if f["name"] == f0][0]
        if itf.get("args"):
            def drop_arg(m, obj_field=obj_field):
                obj_field(m)[1]["args"].pop(0)
            add("interface-not-honoured", "%s.%s drops an argument of the interface field" % (oname, f0), drop_arg)

            def swap_arg_wrapper(m, obj_field=obj_field):
                a = obj_field(m)[1]["args"][0]
                t = a["type"]
                if t[0] == "list":
                    a["type"] = NN(t[1]) if t[1][0] != "nonnull" else NN(L(t[1][1]))
                elif t[0] == "nonnull":
                    a["type"] = L(t[1])
                else:
                    return False
                a["default"] = None
            add("interface-not-honoured", "%s.%s: wrapper kind of an interface argument swapped" % (oname, f0), swap_arg_wrapper)

            def retype_arg(m, obj_field=obj_field):
                a = obj_field(m)[1]["args"][0]
                a["type"] = L(a["type"]) if a["type"][0] != "list" else a["type"][1]
                a["default"] = None
            add("interface-not-honoured", "%s.%s changes the type of an interface argument" % (oname, f0), retype_arg)
    if objs:
        o = rng.choice(objs)
        others = [x for x in objs + unions + enums if x != o]
        add("interface-not-honoured", "%s implements a non-interface" % o,
            lambda m: find_type(m, o)["interfaces"].append(rng.choice(others)))
        add("interface-not-honoured", "%s implements an undefined interface" % o,
            lambda m: find_type(m, o)["interfaces"].append("ZZNoIface"))

    # R4 roots
    add("root-types", "schema names an undefined query type",
        lambda m: m.__setitem__("schema", dict(m["schema"] or {}, query="ZZNoQuery")))
    add("root-types", "schema names an undefined mutation type",
        lambda m: m.__setitem__("schema", dict(m["schema"] or {"query": "Query"}, mutation="ZZNoMutation")))
    add("root-types", "the query type is removed",
        lambda m: m["types"].remove(find_type(m, (m["schema"] or {"query": "Query"})["query"])))
    # R5 / R6 / R7 / R8 / R9
    add("object-without-fields", "an object type without fields is added",
        lambda m: m["types"].append({"name": "ZZEmpty", "kind": "OBJECT", "dirs": [], "fields": [], "interfaces": []}))
    for u in unions[:2]:
        add("union-contains-itself", "union %s lists itself" % u, lambda m, u=u: find_type(m, u)["members"].append(u))
        add("union-contains-itself", "union %s lists itself through an extension" % u,
            lambda m, u=u: m["exts"].append({"target": u, "kind": "UNION", "dirs": [], "members": [u]}))
    for e in enums[:2]:
        add("duplicate-enum-value", "enum %s repeats a value" % e,
            lambda m, e=e: find_type(m, e)["values"].append(find_type(m, e)["values"][0]))
    if m0["types"]:
        t = rng.choice([t for t in m0["types"] if not (t["kind"] == "SCALAR" and t["name"] in gen.BUILTIN_SCALARS)])
        add("duplicate-definition", "type %s is defined twice" % t["name"], lambda m: m["types"].append(copy.deepcopy(find_type(m, t["name"]))))
    add("duplicate-definition", "directive defined twice", lambda m: m["dirdefs"].append(copy.deepcopy(m["dirdefs"][0])))
    add("duplicate-definition", "built-in scalar Int redefined",
        lambda m: m["types"].append({"name": "Int", "kind": "SCALAR", "dirs": [], "explicit": True}))
    add("duplicate-definition", "built-in directive @skip redefined",
        lambda m: m["dirdefs"].append({"name": "skip", "args": [], "locations": ["FIELD"], "awaitable": True}))
    add("scalar-without-implementation", "scalar without implementation",
        lambda m: m["types"].append({"name": "ZZNoImpl", "kind": "SCALAR", "dirs": []}))
    # R10 extensions
    add("invalid-extension", "extension of an unknown type",
        lambda m: m["exts"].append({"target": "ZZUnknown", "kind": "OBJECT", "dirs": [], "interfaces": [],
                                    "fields": [{"name": "a", "type": N("Int"), "args": []}]}))
    if enums and objs:
        add("invalid-extension", "extend enum on an object type",
            lambda m: m["exts"].append({"target": objs[0], "kind": "ENUM", "dirs": [], "values": ["ZZV"]}))
        add("invalid-extension", "extend type on an enum",
            lambda m: m["exts"].append({"target": enums[0], "kind": "OBJECT", "dirs": [], "interfaces": [],
                                        "fields": [{"name": "a", "type": N("Int"), "args": []}]}))
        add("invalid-extension", "extension adds an enum value that exists",
            lambda m: m["exts"].append({"target": enums[0], "kind": "ENUM", "dirs": [], "values": [find_type(m, enums[0])["values"][0]]}))
    # the SAME new member contributed by two separate extensions of one definition, or twice by one extension
    for e in enums[:1]:
        add("invalid-extension", "two extensions of enum %s add the same new value" % e,
            lambda m, e=e: m["exts"].extend([{"target": e, "kind": "ENUM", "dirs": [], "values": ["ZZDUP"]},
                                             {"target": e, "kind": "ENUM", "dirs": [], "values": ["ZZOTHER", "ZZDUP"]}]))
        add("invalid-extension", "one extension of enum %s adds a new value twice" % e,
            lambda m, e=e: m["exts"].append({"target": e, "kind": "ENUM", "dirs": [], "values": ["ZZDUP", "ZZDUP"]}))
    for o in objs[:1]:
        add("invalid-extension", "two extensions of %s add the same new field" % o,
            lambda m, o=o: m["exts"].extend([{"target": o, "kind": "OBJECT", "dirs": [], "interfaces": [],
                                              "fields": [{"name": "zzdup", "type": N("Int"), "args": []}]},
                                             {"target": o, "kind": "OBJECT", "dirs": [], "interfaces": [],
                                              "fields": [{"name": "zzdup", "type": N("Int"), "args": []}]}]))
    for i in inputs[:1]:
        add("invalid-extension", "two extensions of input %s add the same new field" % i,
            lambda m, i=i: m["exts"].extend([{"target": i, "kind": "INPUT", "dirs": [],
                                              "fields": [{"name": "zzdup", "type": N("Int"), "default": None}]},
                                             {"target": i, "kind": "INPUT", "dirs": [],
                                              "fields": [{"name": "zzdup", "type": N("Int"), "default": None}]}]))
    for u in unions[:1]:
        spare = [o for o in objs if o not in find_type(m0, u)["members"]
                 and not any(x["target"] == u and o in x.get("members", []) for x in m0["exts"])]
        if spare:
            add("invalid-extension", "two extensions of union %s add the same new member" % u,
                lambda m, u=u, o=spare[0]: m["exts"].extend([{"target": u, "kind": "UNION", "dirs": [], "members": [o]},
                                                             {"target": u, "kind": "UNION", "dirs": [], "members": [o]}]))
    if objs:
        o = rng.choice(objs)
        add("invalid-extension", "extension adds a field %s already has" % o,
            lambda m: m["exts"].append({"target": o, "kind": "OBJECT", "dirs": [], "interfaces": [],
                                        "fields": [copy.deepcopy(find_type(m, o)["fields"][0])]}))
        withi = [t["name"] for t in m0["types"] if t["kind"] == "OBJECT" and t.get("interfaces")]
        if withi:
            add("invalid-extension", "extension adds an interface already implemented",
                lambda m: m["exts"].append({"target": withi[0], "kind": "OBJECT", "dirs": [],
                                            "interfaces": [find_type(m, withi[0])["interfaces"][0]], "fields": []}))
    if unions:
        add("invalid-extension", "extension adds a union member that exists",
            lambda m: m["exts"].append({"target": unions[0], "kind": "UNION", "dirs": [], "members": [find_type(m, unions[0])["members"][0]]}))
    if inputs:
        add("invalid-extension", "extension adds an input field that exists",
            lambda m: m["exts"].append({"target": inputs[0], "kind": "INPUT", "dirs": [],
                                        "fields": [copy.deepcopy(find_type(m, inputs[0])["fields"][0])]}))
    tagged = [t["name"] for t in m0["types"] if "tsd" in t["dirs"] and t["kind"] in ("OBJECT", "ENUM", "UNION", "INPUT", "INTERFACE")]
    if tagged:
        tn = tagged[0]
        add("invalid-extension", "extension repeats a directive of %s" % tn,
            lambda m: m["exts"].append(dict({"target": tn, "kind": find_type(m, tn)["kind"], "dirs": ["tsd"]},
                                            **({"fields": [], "interfaces": []} if find_type(m, tn)["kind"] == "OBJECT" else
                                               {"fields": []} if find_type(m, tn)["kind"] in ("INPUT", "INTERFACE") else
                                               {"values": []} if find_type(m, tn)["kind"] == "ENUM" else {"members": []}))))
    # root operation types named by a SCHEMA EXTENSION (seed C12-h): an undefined type, at the end and in front of the
    # other extensions, for the operation kinds the schema does not declare yet (and for one it declares: invalid as well)
    for okind in ("mutation", "subscription", "query"):
        for front in (False, True):
            def ext_root(m, okind=okind, front=front):
                e = {"schema_ops": {okind: "ZZNopeRoot"}, "dirs": []}
                if front:
                    m["exts"].insert(0, e)
                else:
                    m["exts"].append(e)
                return True
            add("root-types", "`extend schema { %s: <undefined type> }` %s" % (okind, "first" if front else "last"), ext_root)
    # R11
    add("directive-hook-not-awaitable", "a directive implementation with a synchronous hook",
        lambda m: m["dirdefs"][0].update(awaitable=False))
    for style, what in (("wrapped", "a synchronous functools.wraps wrapper around an async def"),
                        ("callable_object", "a callable object whose __call__ is synchronous"),
                        ("post_bake", "a synchronous on_post_bake"),
                        ("argument_execution", "a synchronous on_argument_execution"),
                        ("lambda", "a lambda"),
                        ("subscription_not_generator", "on_schema_subscription that is a coroutine, not an async generator")):
        add("directive-hook-not-awaitable", "a directive implementation whose hook is " + what,
            lambda m, style=style: m["dirdefs"][rng.randrange(len(m["dirdefs"]))].update(awaitable=False, hook_style=style))
    # R12 syntax
    add("syntax", "unbalanced brace", lambda m: m.__setitem__("text_mutation", lambda t: t.replace("{", "{ {", 1)))
    add("syntax", "garbage token", lambda m: m.__setitem__("text_mutation", lambda t: t + "\n%%% not sdl\n"))
    add("syntax", "empty field list", lambda m: m.__setitem__("text_mutation", lambda t: t + "\ntype ZZBraces { }\n"))
    # productions of the type-system grammar that demand at least one element: an extension that adds nothing, empty
    # value / member / argument / location lists (placed at the end of the document and in front of its first definition)
    def first_of(m, kind, fallback):
        names = [t["name"] for t in m["types"] if t["kind"] == kind]
        return names[0] if names else fallback
    bare = [("extend type %s", "OBJECT"), ("extend interface %s", "INTERFACE"), ("extend union %s", "UNION"),
            ("extend enum %s", "ENUM"), ("extend input %s", "INPUT")]
    for form, kind in bare:
        for front in (False, True):
            def mut(m, form=form, kind=kind, front=front):
                target = first_of(m, kind, None)
                if target is None:
                    return False
                piece = form % target
                m["text_mutation"] = (lambda t: piece + "\n" + t) if front else (lambda t: t + "\n" + piece + "\n")
                return True
            add("syntax", "an extension that adds nothing (%s) %s" % (form % "<existing>", "first" if front else "last"), mut)
    for what, piece in (("bare `extend schema`", "extend schema"), ("bare `extend scalar`", "extend scalar String"),
                        ("enum without values", "enum ZZE { }"), ("input without fields", "input ZZI { }"),
                        ("empty argument list", "type ZZA { f(): Int }"), ("`implements` without a name", "type ZZT implements { f: Int }"),
                        ("directive without locations", "directive @zzd on"), ("empty schema definition", "extend schema { }"),
                        ("empty directive argument list", "type ZZD { f: Int @deprecated() }")):
        add("syntax", what, lambda m, piece=piece: m.__setitem__("text_mutation", lambda t: t + "\n" + piece + "\n"))
    return out
