"""C10 — built-in scalars obey their coercion laws.

Decision procedure (DESIGN.md 2.3):
 1. regenerate Gen/Scalars_gen.v from /repo, build Properties/C10.vo (theorems re-checked
    against what the code says now);
 2. correspondence: the real scalar objects attached to a cooked schema are run on a
    boundary pool (+ random values) in all three directions and compared, inside Coq, with
    the regenerated definitions evaluated over the prelude;
 3. on a broken proof or correspondence: search the pool for an input on which a C10 law
    (decidable form, Model/ScalarLawsB.v) fails on the REAL scalar's observation.
"""
import asyncio
import json
import math
import random
import time

from . import common, coqterm
from .coqterm import AstNode, Opaque, coq_pyval, coq_string, coq_float, coq_option, coq_list

FNS = [(s, d) for s in ("Int", "Float", "String", "Boolean", "ID")
       for d in ("coerce_output", "coerce_input", "parse_literal")]
GEN_NAMES = ["%s_%s" % (s.lower(), d) for s, d in FNS]
PROPERTY_FILES = ["Properties/C10.v", "Properties/C10Temporal.v", "Proofs/ScalarRefine.v", "Proofs/ScalarLaws.v",
                  "Proofs/PreludeFacts.v", "Proofs/TemporalLaws.v"]


def boundary_pool():
    I = [0, 1, -1, 2, 7, 2**31 - 1, 2**31, 2**31 + 1, -(2**31), -(2**31) - 1, -(2**31) + 1,
         2**32, 2**53, 2**53 + 1, 2**53 - 1, -(2**53), -(2**53) - 1, 2**63, 2**64, 10**30,
         10**308, 2**1023, 2**1024 - 2**970, 2**1024, -(2**1024), 10**400, -(10**400),
         (2**53 + 1) * 2**971]
    F = [0.0, -0.0, 1.0, -1.0, 3.0, 2.5, -2.5, 0.5, -0.5, 2147483647.0, 2147483648.0,
         -2147483648.0, -2147483649.0, 2147483647.5, -2147483648.5, float(2**53),
         float(2**53) + 2.0, 1e22, 1e308, 1.7976931348623157e308, 5e-324, -5e-324,
         2.2250738585072014e-308, 2.225073858507201e-308, 0.1, 123456789.5, 1e15 + 0.5,
         4294967296.0, float("nan"), float("inf"), float("-inf")]
    S = ["", " ", "0", "1", "-1", "3.0", "3.5", "-3.0", "1e3", "1e400", "-1e400", "nan", "inf",
         "-inf", "Infinity", "abc", "  12  ", "1_000", "2147483647", "2147483648",
         "-2147483648", "-2147483649", "2147483647.0", "true", "True", "false",
         "٣", "１２", "é", "0x10", "+5", "1.", ".5", "9007199254740993",
         "1e-400", "12abc", "\n7\t", "0.0", "-0", "1e2", "NaN", "1,5", "\"q\""]
    C = [None, True, False, [], [1], [1, "a", None], {}, {"a": 1}, {"value": 2},
         Opaque("bytes"), Opaque("tuple"), Opaque("set"), Opaque("object"),
         Opaque("generator"), Opaque("exception"), Opaque("complex")]
    return I + F + S + C


def random_pool(rng, n):
    out = []
    for _ in range(n):
        k = rng.randrange(8)
        if k == 0:
            out.append(rng.randrange(-2**33, 2**33))
        elif k == 1:
            out.append(rng.choice([2**31, -(2**31), 2**53, 0]) + rng.randrange(-3, 4))
        elif k == 2:
            out.append(rng.choice([-1, 1]) * rng.randrange(0, 2**40) / rng.choice([1, 2, 4, 8, 1024]))
        elif k == 3:
            out.append(float(rng.randrange(-2**33, 2**33)))
        elif k == 4:
            out.append(rng.uniform(-1e6, 1e6))
        elif k == 5:
            z = rng.randrange(-2**33, 2**33)
            out.append(rng.choice([str(z), "%d.0" % z, "%d.5" % z, "%de1" % (z % 1000), " %d" % z]))
        elif k == 6:
            out.append(math.ldexp(rng.choice([1.0, -1.0, 1.5]), rng.randrange(-1074, 1024)))
        else:
            out.append(rng.randrange(-10, 10) * 10 ** rng.randrange(0, 320))
    return out


REAL_OPAQUE = {}


def realise(v):
    """Model-side pool entry -> the real Python value handed to the scalar."""
    if isinstance(v, Opaque):
        if v.tag not in REAL_OPAQUE:
            import decimal
            REAL_OPAQUE[v.tag] = {
                "bytes": b"12", "tuple": (1, 2), "set": frozenset([1]), "object": object(),
                "generator": (x for x in [1]), "exception": ValueError("boom"),
                "complex": complex(1, 2), "decimal": decimal.Decimal(3),
            }[v.tag]
        return REAL_OPAQUE[v.tag]
    return v


def model_of_result(r, inp_model, inp_real):
    """Real result -> model value (python-side description for coq_pyval)."""
    if r is inp_real and isinstance(inp_model, (Opaque, AstNode)):
        return inp_model
    if coqterm.is_undefined(r):
        return r
    if r is None or isinstance(r, (bool, int, float, str, list, dict)):
        return r
    return Opaque("result:" + type(r).__name__)


def literal_pool():
    """(constructor name, value, model AstNode)"""
    P = []
    for s in ["0", "-0", "1", "42", "2147483647", "2147483648", "-2147483648", "-2147483649",
              "123456789012345678901234567890", "9007199254740993", "1" + "0" * 400]:
        P.append(("IntValueNode", s, AstNode("KIntValue", s)))
    for z in [0, 4, -7, 2**31 - 1, 2**31, -(2**31), -(2**31) - 1, 10**400]:
        P.append(("IntValueNode", z, AstNode("KIntValue", z)))          # SDL default shape
    for s in ["1.0", "-1.5", "1e400", "-1e400", "1.5e3", "0.1", "1E5", "-0.0", "4.9e-324",
              "1e-400", "3.0", "2147483648.0", "1.7976931348623157e308", "1.7976931348623159e308"]:
        P.append(("FloatValueNode", s, AstNode("KFloatValue", s)))
    for f in [0.5, -2.0, 3.0, float("inf"), float("-inf"), 1e308]:
        P.append(("FloatValueNode", f, AstNode("KFloatValue", f)))      # SDL default shape
    for s in ["abc", "", "12", "é", "4", "true", "3.0"]:
        P.append(("StringValueNode", s, AstNode("KStringValue", s)))
    for b in [True, False]:
        P.append(("BooleanValueNode", b, AstNode("KBooleanValue", b)))
    P.append(("NullValueNode", None, AstNode("KNullValue", None)))
    P.append(("EnumValueNode", "RED", AstNode("KEnumValue", "RED")))
    P.append(("EnumValueNode", "true", AstNode("KEnumValue", "true")))
    P.append(("ListValueNode", [], AstNode("KListValue", None)))
    P.append(("ObjectValueNode", [], AstNode("KObjectValue", None)))
    P.append(("VariableNode", "v", AstNode("KVariable", None)))
    return P


def make_node(ast_mod, ctor, value):
    cls = getattr(ast_mod, ctor)
    if ctor == "NullValueNode":
        return cls()
    if ctor == "VariableNode":
        return cls(name=ast_mod.NameNode(value=value))
    if ctor == "ListValueNode":
        return cls(values=[])
    if ctor == "ObjectValueNode":
        return cls(fields=[])
    return cls(value=value)


def observe(fn, arg):
    try:
        return ("ok", fn(arg))
    except Exception as e:  # pylint: disable=broad-except
        return ("raise", e)


def obs_term(obs, inp_model, inp_real):
    if obs[0] == "ok":
        return "(Ok %s)" % coq_pyval(model_of_result(obs[1], inp_model, inp_real))
    return "(Raise %s)" % coqterm.coq_exc(obs[1])


def obs_json(obs):
    if obs[0] == "ok":
        return {"ok": repr(obs[1])}
    return {"raise": type(obs[1]).__name__}


async def get_scalars(schema_name):
    from tartiflette import create_engine
    e = await create_engine("type Query { a: Int }", schema_name=schema_name)
    return {s: e._schema.find_scalar(s) for s in ("Int", "Float", "String", "Boolean", "ID")}


def str_oracle_entry(v_model, v_real):
    try:
        return str(v_real)
    except Exception:  # pylint: disable=broad-except
        return None


def float_oracle_entry(s):
    try:
        return float(s)
    except Exception:  # pylint: disable=broad-except
        return None


def collect(tier_, seed):
    """Run the real scalars; return the case table."""
    from . import engine_env
    engine_env.setup()
    import tartiflette.language.ast as ast_mod
    scalars = asyncio.run(get_scalars("verif_c10_%d" % seed))
    rng = random.Random(seed)
    pool = boundary_pool() + random_pool(rng, 300 if tier_ == "quick" else 6000)
    lits = literal_pool()
    cases = []      # dict(fn, inp_model, inp_real, obs)
    ftab, stab = {}, []
    seen_s = set()

    def note_oracles(m, r):
        if isinstance(m, str) and m not in ftab:
            ftab[m] = float_oracle_entry(m)
        if isinstance(m, AstNode) and isinstance(m.value, str) and m.value not in ftab:
            ftab[m.value] = float_oracle_entry(m.value)
        if not isinstance(m, (str, bool, int, AstNode)) and m is not None:
            key = coq_pyval(m)
            if key not in seen_s:
                seen_s.add(key)
                stab.append((key, str_oracle_entry(m, r)))

    for fi, (sname, d) in enumerate(FNS):
        fn = getattr(scalars[sname], d)
        if d == "parse_literal":
            for ctor, val, m in lits:
                node = make_node(ast_mod, ctor, val)
                note_oracles(m, node)
                cases.append({"fn": fi, "m": m, "r": node, "obs": observe(fn, node),
                              "desc": "%s(%r)" % (ctor, val)})
        else:
            for m in pool:
                r = realise(m)
                note_oracles(m, r)
                cases.append({"fn": fi, "m": m, "r": r, "obs": observe(fn, r),
                              "desc": repr(r)})
    # idempotence: every produced result fed back as input
    idem = []
    for c in cases:
        s, d = FNS[c["fn"]]
        if d == "coerce_output" and c["obs"][0] == "ok":
            r = c["obs"][1]
            rm = model_of_result(r, c["m"], c["r"])
            note_oracles(rm, r)
            idem.append({"scalar": s, "from": c["desc"], "r": r, "rm": rm,
                         "obs": observe(scalars[s].coerce_input, r)})
    # literal = variable: the same JSON value spelled both ways
    litvar = []
    for z in [0, 1, -1, 42, 2**31 - 1, 2**31, -(2**31), -(2**31) - 1, 10**20]:
        for s in ("Int", "Float", "ID"):
            node = ast_mod.IntValueNode(value=str(z))
            litvar.append({"scalar": s, "lit": "IntValueNode(%r)" % str(z), "var": z,
                           "ol": observe(scalars[s].parse_literal, node),
                           "oi": observe(scalars[s].coerce_input, z)})
    for lex in ["1.0", "-1.5", "1.5e3", "0.1", "1e400", "-1e400", "4.9e-324", "1e-400", "3.0"]:
        node = ast_mod.FloatValueNode(value=lex)
        litvar.append({"scalar": "Float", "lit": "FloatValueNode(%r)" % lex, "var": json.loads(lex),
                       "ol": observe(scalars["Float"].parse_literal, node),
                       "oi": observe(scalars["Float"].coerce_input, json.loads(lex))})
    for s in ["abc", "", "12", "é"]:
        for sc in ("String", "ID"):
            node = ast_mod.StringValueNode(value=s)
            litvar.append({"scalar": sc, "lit": "StringValueNode(%r)" % s, "var": s,
                           "ol": observe(scalars[sc].parse_literal, node),
                           "oi": observe(scalars[sc].coerce_input, s)})
    for b in [True, False]:
        node = ast_mod.BooleanValueNode(value=b)
        litvar.append({"scalar": "Boolean", "lit": "BooleanValueNode(%r)" % b, "var": b,
                       "ol": observe(scalars["Boolean"].parse_literal, node),
                       "oi": observe(scalars["Boolean"].coerce_input, b)})
    # SDL-default spelling of an ID (lark casts the lexeme to int): must equal the literal
    for z in [0, 4, -7]:
        node = ast_mod.IntValueNode(value=z)
        litvar.append({"scalar": "ID", "lit": "IntValueNode(%r) [SDL default]" % z, "var": z,
                       "ol": observe(scalars["ID"].parse_literal, node),
                       "oi": observe(scalars["ID"].coerce_input, z)})
    return cases, idem, litvar, ftab, stab


def oracle_defs(ftab, stab):
    L = []
    L.append("Definition ftab : list (string * option spec_float) := %s.\n" % coq_list(
        ["(%s, %s)" % (coq_string(k), coq_option(None if v is None else coq_float(v)))
         for k, v in ftab.items()]))
    L.append("Definition stab : list (pyval * option string) := %s.\n" % coq_list(
        ["(%s, %s)" % (k, coq_option(None if v is None else coq_string(v))) for k, v in stab]))
    L.append("Definition O := table_oracle ftab stab.\n")
    return "".join(L)


def shard_file(cases, idem, litvar, ftab, stab, with_model):
    """One Coq file evaluating a shard of cases / idempotence pairs / literal-variable pairs."""
    L = [coqterm.HEADER]
    L.append("From TV Require Import Model.ScalarSpec Model.ScalarLawsB.\n")
    if with_model:
        L.append("From TV Require Import Gen.Scalars_gen.\n")
    L.append(oracle_defs(ftab, stab))
    L.append("Definition cases : list (nat * pyval * res pyval) := %s.\n" % coq_list(
        ["(%d%%nat, %s, %s)" % (c["fn"], coq_pyval(c["m"]), obs_term(c["obs"], c["m"], c["r"]))
         for c in cases]))
    L.append("Definition idem : list (pyval * res pyval) := %s.\n" % coq_list(
        ["(%s, %s)" % (coq_pyval(c["rm"]), obs_term(c["obs"], c["rm"], c["r"])) for c in idem]))
    L.append("Definition litvar : list (res pyval * res pyval) := %s.\n" % coq_list(
        ["(%s, %s)" % (obs_term(c["ol"], None, None), obs_term(c["oi"], None, None)) for c in litvar]))
    if with_model:
        L.append("Definition model (fn : nat) : pyval -> res pyval := nth fn [%s] (fun _ => Raise OutOfFuel).\n"
                 % "; ".join("%s O" % g for g in GEN_NAMES))
        L.append('Eval vm_compute in ("model_mismatch", idx_where (fun c => match c with (fn, v, obs) => '
                 "negb (res_eqb (model fn v) obs) end) cases 0).\n")
    L.append('Eval vm_compute in ("law_fail", idx_where (fun c => match c with (fn, v, obs) => '
             "negb (lawb O fn v obs) end) cases 0).\n")
    L.append('Eval vm_compute in ("idem_fail", idx_where (fun c => negb (idem_lawb (fst c) (snd c))) idem 0).\n')
    L.append('Eval vm_compute in ("litvar_fail", idx_where (fun c => negb (litvar_lawb (fst c) (snd c))) litvar 0).\n')
    return "".join(L)


def evaluate(cases, idem, litvar, ftab, stab, with_model, seed, shard=320):
    """Shard, evaluate in parallel, map shard-local indices back to global ones."""
    files, offs = [], []

    def sub_oracles(vals_models):
        keys = set()
        for m in vals_models:
            if isinstance(m, str):
                keys.add(m)
            if isinstance(m, AstNode) and isinstance(m.value, str):
                keys.add(m.value)
        return {k: v for k, v in ftab.items() if k in keys}

    n = 0
    for i in range(0, len(cases), shard):
        cs = cases[i:i + shard]
        files.append(("C10_s%d_c%d" % (seed, n), shard_file(cs, [], [], sub_oracles([c["m"] for c in cs]), stab, with_model)))
        offs.append(("cases", i))
        n += 1
    for i in range(0, len(idem), 2 * shard):
        cs = idem[i:i + 2 * shard]
        files.append(("C10_s%d_i%d" % (seed, n), shard_file([], cs, [], sub_oracles([c["rm"] for c in cs]), stab, with_model)))
        offs.append(("idem", i))
        n += 1
    files.append(("C10_s%d_l" % seed, shard_file([], [], litvar, {}, [], with_model)))
    offs.append(("litvar", 0))
    results = common.run_coq_many(files)
    out = {"model_mismatch": [], "law_fail": [], "idem_fail": [], "litvar_fail": [], "errors": []}
    for (kind, off), (ok, so, se) in zip(offs, results):
        if not ok:
            out["errors"].append(se[-1500:])
            continue
        for label in ("model_mismatch", "law_fail", "idem_fail", "litvar_fail"):
            l = common.parse_Z_list(so, label)
            if l:
                out[label] += [off + x for x in l]
    return out


def main(tier_, replay=None):
    rep = common.Report("C10")
    seed = common.seed()
    b = common.build(["Properties/C10.vo", "Properties/C10Temporal.vo", "Model/ScalarLawsB.vo"])
    gate = common.grep_gate()
    proofs_ok = b["ok"] and not gate
    if not b["ok"]:
        # the law predicates must still be available for the search
        common.build(["Model/ScalarLawsB.vo"])
    cases, idem, litvar, ftab, stab = collect(tier_, seed)
    ev = evaluate(cases, idem, litvar, ftab, stab, b["ok"], seed)
    # Date / Time / DateTime: parameters extracted from the source (Gen/Temporal_gen.v) over Model/Temporal.v
    from . import c10_temporal
    t_scalars = asyncio.run(c10_temporal.get_scalars("verif_c10t_%d" % seed))
    t_cases, t_fails, t_stats = c10_temporal.collect(t_scalars, tier_, seed)
    t_mm = []
    if b["ok"]:
        t_files = c10_temporal.shard_files(t_cases, seed)
        for (name, text, off), (ok, so, se) in zip(t_files, common.run_coq_many([(n_, t_) for n_, t_, _o in t_files])):
            if not ok:
                rep.violation({"property": "C10", "what": "temporal case file failed to evaluate", "stderr": se[-1500:]},
                              no_input=True)
                continue
            t_mm += [off + i for i in (common.parse_Z_list(so, "model_mismatch") or [])]
    if ev["errors"]:
        rep.violation({"property": "C10", "what": "case file failed to evaluate",
                       "stderr": ev["errors"][0]}, no_input=True)
    mm, lf, idf, lvf = ev["model_mismatch"], ev["law_fail"], ev["idem_fail"], ev["litvar_fail"]
    known = common.known_findings("C10")

    def is_known(sig):
        for k in known:
            if k.get("signature") == sig:
                rep.known_finding(k.get("what", sig))
                return True
        return False

    n_fail = 0
    for i in lf:
        c = cases[i]
        s, d = FNS[c["fn"]]
        sig = "%s.%s(%s)" % (s, d, c["desc"])
        if is_known(sig):
            continue
        n_fail += 1
        if n_fail <= 5:
            rep.violation({"property": "C10", "kind": "law", "scalar": s, "direction": d,
                           "input": c["desc"], "observed": obs_json(c["obs"]),
                           "law": "result coercion yields the wire type denoting the same value / "
                                  "input coercion accepts exactly the allowed kinds",
                           "replay": "scalar %s.%s on %s" % (s, d, c["desc"])})
    for i in idf:
        c = idem[i]
        sig = "idempotence %s result %r" % (c["scalar"], c["r"])
        if is_known(sig):
            continue
        n_fail += 1
        if n_fail <= 5:
            rep.violation({"property": "C10", "kind": "idempotence", "scalar": c["scalar"],
                           "produced_from": c["from"], "result": repr(c["r"]),
                           "input_of_result": obs_json(c["obs"])})
    for i in lvf:
        c = litvar[i]
        sig = "literal-vs-variable %s %s" % (c["scalar"], c["lit"])
        if is_known(sig):
            continue
        n_fail += 1
        if n_fail <= 5:
            rep.violation({"property": "C10", "kind": "literal_eq_variable", "scalar": c["scalar"],
                           "literal": c["lit"], "variable": repr(c["var"]),
                           "literal_result": obs_json(c["ol"]), "variable_result": obs_json(c["oi"])})
    for f in t_fails[:5]:
        n_fail += 1
        rep.violation(dict({"property": "C10", "kind": "law (Date/Time/DateTime)"}, **f))
    from . import nestedvars
    nv_problems, _nv_n = nestedvars.run(rep, "C10")
    n_fail += nv_problems
    if n_fail == 0 and t_mm and proofs_ok and not mm:
        c = t_cases[t_mm[0]]
        n_fail += 1
        rep.violation({"property": "C10", "what": "correspondence broken: Model/Temporal.v instantiated with the parameters "
                       "extracted from the source and the real scalar disagree, no law fails on the explored pool",
                       "scalar": c["scalar"], "direction": c["dir"], "input": c["desc"],
                       "implementation": c10_temporal.obs_json(c["obs"]), "n_mismatches": len(t_mm)}, no_input=True)
    if n_fail == 0:
        if not proofs_ok:
            rep.violation({"property": "C10", "what": "proof obligation no longer checks",
                           "file": b.get("failed_file"), "theorem": b.get("failed_lemma"),
                           "gate": gate, "translator": b.get("gen_msg"),
                           "log_tail": b["log"][-1500:]}, no_input=True)
        elif mm:
            c = cases[mm[0]]
            s, d = FNS[c["fn"]]
            rep.violation({"property": "C10", "what": "correspondence broken: regenerated model "
                           "and real scalar disagree, no law fails on the explored pool",
                           "scalar": s, "direction": d, "input": c["desc"],
                           "implementation": obs_json(c["obs"]), "n_mismatches": len(mm)},
                          no_input=True)
    nob, names = common.count_obligations(PROPERTY_FILES)
    assum = common.assumptions("Properties/C10.v") if b["ok"] else {"closed": 0, "axioms": ["build failed"]}
    if b["ok"]:
        a2 = common.assumptions("Properties/C10Temporal.v")
        assum = {"closed": assum["closed"] + a2["closed"], "axioms": (assum["axioms"] or []) + (a2["axioms"] or [])}
    distinct = len({(c["fn"], c["desc"]) for c in cases if c["obs"][0] == "ok"})
    samples = [{"fn": "%s.%s" % FNS[c["fn"]], "input": c["desc"], "observed": obs_json(c["obs"])}
               for c in cases[:: max(1, len(cases) // 12)]][:12]
    common.write_evidence("C10", tier_, "proof", {
        "obligations": nob, "discharged": nob if proofs_ok else 0,
        "checker_cmd": "make Properties/C10.vo (coqc 8.16.1, full .vo) after regenerating Gen/Scalars_gen.v from /repo",
        "trusted_base": common.TRUSTED_BASE + [
            "Print Assumptions: %d theorems 'Closed under the global context'; axioms: %s"
            % (assum["closed"], assum["axioms"] or "none")],
        "theorems": [n for n in names if n.startswith("C10_")],
        "evaluations": len(cases) + len(idem) + len(litvar) + len(t_cases),
        "temporal": dict(t_stats, cases=len(t_cases), model_mismatches=len(t_mm), law_failures=len(t_fails)),
        "distinct_nontrivial": distinct,
        "rule": "boundary pool + seeded random values through the 15 real scalar methods; a case is "
                "non-trivial when the real scalar accepted the value (distinct (method,input) pairs)",
        "traces_validated_against_impl": len(cases) + len(t_cases),
        "model_mismatches": len(mm or []), "law_failures": len(lf) + len(idf) + len(lvf),
        "input_distribution": {"cases": len(cases), "idempotence_pairs": len(idem),
                               "literal_variable_pairs": len(litvar),
                               "accepted": sum(1 for c in cases if c["obs"][0] == "ok"),
                               "refused": sum(1 for c in cases if c["obs"][0] != "ok")},
        "samples": samples,
    }, rep.wall(), violations=len(rep.violations),
        assumptions_=["float(str) and str(value) are oracles (recorded from the interpreter)",
                      "Date/Time/DateTime: datetime.strptime / isoformat / str.split are modelled by hand "
                      "(Model/Temporal.v: CPython's _strptime regex alternatives, constructor range checks) and tied "
                      "by correspondence; ASCII only (non-ASCII decimal digits, tz-aware values are outside the model)"])
    return rep.finish()
