"""Subprocess worker for C17: builds bundles in the given order of ('reg', i) / ('cook', i) steps in a
fresh interpreter, runs the fixed request set on every cooked engine, prints JSON."""
import asyncio
import json
import os
import sys

sys.path.insert(0, os.path.join(os.path.dirname(os.path.abspath(__file__)), ".."))
from harness import engine_env  # noqa: E402

engine_env.setup()
from tartiflette import create_engine, Resolver, TypeResolver, Scalar, Directive, Subscription  # noqa: E402
from tartiflette.schema.registry import SchemaRegistry  # noqa: E402

SDLS = [
    # bundle 0: union + field-level type resolver + custom scalar + directive
    """
    directive @tweak(by: String = "d") on FIELD_DEFINITION
    directive @same on FIELD_DEFINITION | FIELD
    directive @stamp on INPUT_FIELD_DEFINITION
    input Box { label: String @stamp n: Int = 5 }
    directive @req(label: String!) on FIELD
    enum Kind { A B }
    scalar Tag
    type Cat { name: String meow: Int }
    type Dog { name: String bark: Int }
    union Pet = Cat | Dog
    interface Named { name: String }
    type Query { pet: Pet pets: [Pet] tag: Tag @tweak hello(n: Int = 1): String @same named: Named echo(t: Tag): String open(box: Box): String need(id: Int!): String kind(k: Kind): String }
    type Subscription { tick: Int }
    type Robot implements Named { name: String }
    """,
    # bundle 1: same names, different shapes; type-level @TypeResolver
    """
    directive @tweak(by: String = "e") on FIELD_DEFINITION
    directive @same on FIELD_DEFINITION | FIELD
    directive @stamp on INPUT_FIELD_DEFINITION
    input Box { label: String @stamp n: Int = 5 }
    directive @req(label: String) on FIELD
    enum Kind { B C }
    scalar Tag
    type Cat implements Named { name: String meow: Int }
    type Dog implements Named { name: String bark: Int }
    union Pet = Cat | Dog
    interface Named { name: String }
    type Query { pet: Pet pets: [Pet] tag: Tag @tweak(by: "x") hello(n: Int = 2): String @same named: Named echo(t: Tag): String open(box: Box): String need(id: Int): String kind(k: Kind): String }
    type Subscription { tick: Int }
    """,
    # bundle 2: default type resolution (_typename), no directive implementation needed on tag; OVERRIDES the built-in
    # scalar Int with its own implementation (declared in its SDL)
    """
    scalar Int
    directive @tweak(by: String = "f") on FIELD_DEFINITION
    directive @same on FIELD_DEFINITION | FIELD
    directive @stamp on INPUT_FIELD_DEFINITION
    input Box { label: String @stamp n: Int = 5 }
    directive @req(label: String!) on FIELD
    enum Kind { A B }
    scalar Tag
    type Cat { name: String meow: Int }
    type Dog { name: String bark: Int }
    union Pet = Dog | Cat
    interface Named { name: String }
    type Rock implements Named { name: String }
    type Query { pet: Pet pets: [Pet] tag: Tag hello(n: Int = 3): String @same named: Named echo(t: Tag): String open(box: Box): String need(id: Int!): String kind(k: Kind): String }
    type Subscription { tick: Int }
    """,
    # bundle 3: Pet is an interface here
    """
    directive @tweak(by: String = "g") on FIELD_DEFINITION
    directive @same on FIELD_DEFINITION | FIELD
    directive @stamp on INPUT_FIELD_DEFINITION
    input Box { label: String @stamp n: Int = 5 }
    directive @req(label: String) on FIELD
    enum Kind { B C }
    scalar Tag
    interface Pet { name: String }
    type Cat implements Pet { name: String meow: Int }
    type Dog implements Pet { name: String bark: Int }
    interface Named { name: String }
    type Rock implements Named { name: String }
    type Query { pet: Pet pets: [Pet] tag: Tag @tweak hello(n: Int = 4): String @same named: Named echo(t: Tag): String open(box: Box): String need(id: Int): String kind(k: Kind): String }
    type Subscription { tick: Int }
    """,
    # bundle 4: the root operation types are RENAMED by a schema definition (and one more by an extension)
    """
    schema { query: RootQuery }
    extend schema { subscription: Events }
    directive @tweak(by: String = "h") on FIELD_DEFINITION
    directive @same on FIELD_DEFINITION | FIELD
    directive @stamp on INPUT_FIELD_DEFINITION
    input Box { label: String @stamp n: Int = 5 }
    directive @req(label: String!) on FIELD
    enum Kind { A B }
    scalar Tag
    type Cat { name: String meow: Int }
    type Dog { name: String bark: Int }
    union Pet = Cat | Dog
    interface Named { name: String }
    type Rock implements Named { name: String }
    type RootQuery { pet: Pet pets: [Pet] tag: Tag @tweak hello(n: Int = 5): String @same named: Named echo(t: Tag): String open(box: Box): String need(id: Int!): String kind(k: Kind): String }
    type Events { tick: Int }
    """,
]
# bundles 5 and 6: BYTE-IDENTICAL SDL under two schema names (two tenants of one service), with type extensions that
# carry a directive / add an interface / add a value -- whatever cooking one of them does to its parsed SDL is its own
TWIN_SDL = """
    directive @tweak(by: String = "t") on FIELD_DEFINITION
    directive @same on FIELD_DEFINITION | FIELD
    directive @stamp on INPUT_FIELD_DEFINITION
    directive @mark on OBJECT | INTERFACE | UNION | ENUM | INPUT_OBJECT | SCALAR
    directive @req(label: String) on FIELD
    enum Kind { B C }
    input Box { label: String @stamp n: Int = 5 }
    scalar Tag
    type Cat { name: String meow: Int }
    type Dog { name: String bark: Int }
    union Pet = Cat | Dog
    interface Named { name: String }
    type Rock implements Named { name: String }
    type Query { pet: Pet pets: [Pet] tag: Tag @tweak hello(n: Int = 6): String @same named: Named echo(t: Tag): String open(box: Box): String need(id: Int): String kind(k: Kind): String }
    type Subscription { tick: Int }
    extend type Cat @mark
    extend type Dog implements Named @mark
    extend interface Named @mark
    extend union Pet @mark
    extend enum Kind @mark { D }
    extend input Box @mark
    extend scalar Tag @mark
    """
SDLS.append(TWIN_SDL)
SDLS.append(TWIN_SDL)
ROOTS = {4: ("RootQuery", "Events")}
# leaf types of the same name and other implementation per bundle at WRAPPED output positions with the same textual
# signature in every bundle (seed C17-h: anything derived from "[Tag!]!" must be the bundle's own)
SDLS = [x.replace("{ pet: Pet pets: [Pet]", "{ tags: [Tag!]! tagm: [[Tag]!] kinds: [Kind!] kindn: Kind! pet: Pet pets: [Pet]") for x in SDLS]

REQUESTS = [
    "{ pet { __typename ... on Cat { name meow } ... on Dog { name bark } } }",
    "{ pets { __typename ... on Cat { meow } ... on Dog { bark } } }",
    "{ tag hello a: hello(n: 7) }",
    "{ tag @same b: hello(n: 8) @same }",
    "{ named { __typename name } }",
    "{ __type(name: \"Pet\") { kind possibleTypes { name } } }",
    "{ __schema { directives { name args { name defaultValue } } } }",
    "{ __schema { queryType { name } mutationType { name } subscriptionType { name } } __typename }",
    # the same names, another definition per bundle: an argument mandatory here and optional there, on a field and on a
    # directive; an enum with other values -- what validation concludes about `Query.need` / `@req` / `Kind` is per schema
    "{ need }", "{ need(id: 1) }", "{ hello @req }", "{ hello @req(label: \"x\") }", "{ kind(k: A) }", "{ kind(k: C) }",
    # byte-identical operations with variables of a custom scalar / an input object carrying a directive: the
    # coercers (Scalar.coerce_input / parse_literal, on_post_input_coercion) are each bundle's own
    ("query V($t: Tag) { echo(t: $t) }", {"t": "x"}),
    ("query W($t: Tag = \"dflt\") { echo(t: $t) lit: echo(t: \"l\") }", {}),
    ("query I($b: Box) { open(box: $b) }", {"b": {"label": "y"}}),
    ("query J($b: Box = {label: \"z\"}) { open(box: $b) o2: open(box: {label: \"w\", n: 1}) }", {}),
    "{ tags tagm kinds kindn }",
]


def name_of(i):
    return "c17_bundle_%d" % i


def register(i):
    sn = name_of(i)
    QN, SN = ROOTS.get(i, ("Query", "Subscription"))

    kw = {}
    if i == 0:
        kw["type_resolver"] = lambda result, ctx, info, abstract: "Cat"      # field-level: everything is a Cat

    @Resolver(QN + ".pet", schema_name=sn, **kw)
    async def pet(p, a, c, info):
        return {"_typename": "Dog", "name": "b%d-dog" % i, "bark": i, "meow": -i}

    @Resolver(QN + ".pets", schema_name=sn, **kw)
    async def pets(p, a, c, info):
        return [{"_typename": "Dog", "name": "d", "bark": 10 + i, "meow": -1},
                {"_typename": "Cat", "name": "c", "meow": 20 + i, "bark": -2}]

    @Resolver(QN + ".tag", schema_name=sn)
    async def tag(p, a, c, info):
        return "t"

    @Resolver(QN + ".tags", schema_name=sn)
    async def tags(p, a, c, info):
        return ["a", "b"]

    @Resolver(QN + ".tagm", schema_name=sn)
    async def tagm(p, a, c, info):
        return [["m", None], []]

    @Resolver(QN + ".kinds", schema_name=sn)
    async def kinds(p, a, c, info):
        return ["B", "A"] if i in (0, 2, 4) else ["B", "C"]

    @Resolver(QN + ".kindn", schema_name=sn)
    async def kindn(p, a, c, info):
        return "A" if i in (0, 2, 4) else "C"

    @Resolver(QN + ".hello", schema_name=sn)
    async def hello(p, a, c, info):
        return "b%d:%s" % (i, a.get("n"))

    @Resolver(QN + ".named", schema_name=sn)
    async def named(p, a, c, info):
        return {"_typename": ["Robot", "Cat", "Rock", "Rock", "Rock", "Dog", "Dog"][i], "name": "n%d" % i}

    if i == 1:
        @TypeResolver("Pet", schema_name=sn)
        def pet_tr(result, ctx, info, abstract):
            return "Cat" if result.get("meow", 0) > 0 else "Dog"

    @Scalar("Tag", schema_name=sn)
    class Tag:
        def coerce_output(self, v):
            return "tag%d<%s>" % (i, v)

        def coerce_input(self, v):
            return "in%d<%s>" % (i, v)

        def parse_literal(self, ast):
            return "lit%d<%s>" % (i, ast.value)

    @Resolver(QN + ".echo", schema_name=sn)
    async def echo(p, a, c, info):
        return "b%d:%r" % (i, a.get("t"))

    @Resolver(QN + ".need", schema_name=sn)
    async def need(p, a, c, info):
        return "b%d:need:%r" % (i, a.get("id"))

    @Resolver(QN + ".kind", schema_name=sn)
    async def kind(p, a, c, info):
        return "b%d:kind:%r" % (i, a.get("k"))

    @Directive("req", schema_name=sn)
    class Req:
        async def on_field_execution(self, directive_args, next_resolver, parent, args, ctx, info):
            r = await next_resolver(parent, args, ctx, info)
            return "%s|req%d:%r" % (r, i, directive_args.get("label"))

    @Resolver(QN + ".open", schema_name=sn)
    async def open_(p, a, c, info):
        return "b%d:%s" % (i, json.dumps(a.get("box"), sort_keys=True))

    if i == 2:
        @Scalar("Int", schema_name=sn)
        class MyInt:
            def coerce_output(self, v):
                return int(v) + 1000

            def coerce_input(self, v):
                return int(v)

            def parse_literal(self, ast):
                return int(ast.value)

    @Directive("stamp", schema_name=sn)
    class Stamp:
        async def on_post_input_coercion(self, directive_args, next_directive, parent_node, value, ctx):
            r = await next_directive(parent_node, value, ctx)
            return "stamp%d<%s>" % (i, r)

    @Directive("tweak", schema_name=sn)
    class Tweak:
        async def on_field_execution(self, directive_args, next_resolver, parent, args, ctx, info):
            r = await next_resolver(parent, args, ctx, info)
            return "%s|%d:%s" % (r, i, directive_args["by"])

    # the SAME definition (name, locations, no arguments, no description) in every bundle, another implementation in each
    @Directive("same", schema_name=sn)
    class Same:
        async def on_field_execution(self, directive_args, next_resolver, parent, args, ctx, info):
            r = await next_resolver(parent, args, ctx, info)
            return "%s|same%d" % (r, i)

    @Subscription(SN + ".tick", schema_name=sn)
    async def tick(p, a, c, info):
        for k in range(2):
            yield {"tick": 100 * i + k}


async def main():
    steps = json.loads(sys.argv[1])
    engines = {}
    out = {"errors": [], "responses": {}, "registry": {}}
    for kind, i in steps:
        try:
            if kind == "reg":
                register(i)
            else:
                engines[i] = await create_engine(SDLS[i], schema_name=name_of(i))
        except Exception as e:  # pylint: disable=broad-except
            out["errors"].append([kind, i, repr(e)])
    for rnd in range(2):
        for i, e in engines.items():
            rs = []
            for q in REQUESTS:
                if isinstance(q, tuple):
                    rs.append(await e.execute(q[0], variables=q[1]))
                else:
                    rs.append(await e.execute(q))
            sub = []
            async for r in e.subscribe("subscription { tick }"):
                sub.append(r)
            rs.append(sub)
            out["responses"].setdefault(str(i), []).append(rs)
    for i in engines:
        info = SchemaRegistry._schemas.get(name_of(i), {})
        out["registry"][str(i)] = {k: sorted(info.get(k, {}).keys()) for k in
                                   ("directives", "resolvers", "type_resolvers", "scalars", "subscriptions")}
    print("RESULT " + json.dumps(out, sort_keys=True, default=repr))


asyncio.run(main())
