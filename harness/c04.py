"""C04 — variable values are coerced exactly as the specification prescribes.

 1. build Properties/C04.vo (impl model = spec model, refusal <-> unacceptable, ...);
 2. correspondence: generated (variable types x defaults x JSON values x presence) through the
    real engine; the resolver records info.variable_values; compared inside Coq with the impl
    model (coerce_variables) AND with the spec model (the property's reference);
 3. a case where the real engine's observation differs from the SPEC model is a concrete
    violation (replay = SDL, query, variables); a difference with the impl model only is a
    broken correspondence.
"""
import asyncio
import json
import random
from collections import OrderedDict

from . import common, coqterm, gen
from .coqterm import coq_list, coq_string, coq_pyval, coq_option, coq_float

PROPERTY_FILES = ["Properties/C04.v", "Proofs/InputRefine.v", "Proofs/InputFacts.v"]
_counter = [0]


def fresh_schema_name(prefix):
    _counter[0] += 1
    return "%s_%d_%d" % (prefix, common.seed(), _counter[0])


def gen_case(rng, s, max_vars=3):
    """Returns (query text, variables dict)."""
    qf = s["types"]["Query"]["fields"]
    n = rng.randrange(1, max_vars + 1)
    chosen = rng.sample(qf, min(n, len(qf)))
    decls, sels, variables = [], [], OrderedDict()
    for i, f in enumerate(chosen):
        t = f["args"][0]["type"]
        vname = "v%d" % i
        default = None
        if rng.random() < 0.3:
            default = gen.gen_literal(rng, s, t, good=True)
            if default == ("null",) and t[0] == "nonnull":
                default = None
        decls.append("$%s: %s%s" % (vname, gen.type_sdl(t), " = " + gen.lit_sdl(default) if default else ""))
        sels.append("a%d: %s(x: $%s)" % (i, f["name"], vname))
        r = rng.random()
        if r < 0.15:
            pass                                  # absent
        elif r < 0.25:
            variables[vname] = None               # explicit null
        else:
            variables[vname] = gen.gen_json(rng, s, t, good=rng.random() < 0.6)
    if rng.random() < 0.2:
        variables["extra"] = rng.choice([1, "x", None, [1]])
    items = list(variables.items())
    rng.shuffle(items)
    return "query (%s) { %s }" % (", ".join(decls), " ".join(sels)), dict(items)


async def run_schema(s, cases, schema_name):
    from tartiflette import create_engine, Resolver
    record = {}

    def mk(fname):
        @Resolver("Query." + fname, schema_name=schema_name)
        async def r(parent, args, ctx, info):
            record.setdefault("calls", []).append((fname, args))
            record["vv"] = dict(info.variable_values)
            return 1
        return r

    for f in s["types"]["Query"]["fields"]:
        mk(f["name"])
    engine = await create_engine(gen.schema_sdl(s), schema_name=schema_name)
    out = []
    for q, variables in cases:
        record.clear()
        try:
            resp = await engine.execute(q, variables=variables)
        except Exception as e:  # pylint: disable=broad-except
            resp = {"raised": repr(e)}
        out.append({"response": resp, "vv": record.get("vv"), "calls": record.get("calls", [])})
    return out


def observation(case, ast, run):
    """Canonical observation + its Coq term."""
    resp = run["response"]
    if "raised" in resp:
        return "ObsCrash", {"crash": resp["raised"]}
    if resp.get("errors"):
        vdefs = {}
        for d in ast["definitions"]:
            for vd in d.get("variableDefinitions") or []:
                st = vd["loc"]["start"]
                vdefs[(st["line"], st["column"])] = vd["variable"]["name"]["value"]
                if vd.get("defaultValue"):
                    st = vd["defaultValue"]["loc"]["start"]
                    vdefs[(st["line"], st["column"])] = vd["variable"]["name"]["value"]
        offenders = []
        for e in resp["errors"]:
            locs = e.get("locations") or []
            key = (locs[0]["line"], locs[0]["column"]) if locs else None
            offenders.append(vdefs.get(key, "?"))
        if resp.get("data") is not None or run["calls"]:
            offenders.append("!data-or-calls-despite-errors")
        return "(ObsRefused %s)" % coq_list([coq_string(o) for o in offenders]), {"refused": offenders}
    vv = run["vv"]
    if vv is None:
        return "ObsCrash", {"crash": "no resolver ran and no errors"}
    return "(ObsCoerced %s)" % coq_list(
        ["(%s, %s)" % (coq_string(k), coq_pyval(v)) for k, v in vv.items()]), {"coerced": repr(vv)}


def cases_file(s, cases, asts, runs, with_model=True):
    lex = set()
    for a in asts:
        lex |= gen.all_lexemes(a)
    ftab = {}
    for l in lex:
        try:
            ftab[l] = float(l)
        except ValueError:
            ftab[l] = None
    L = [coqterm.HEADER,
         "From TV Require Import Model.Schema Model.ImplInput Model.SpecInput Model.ScalarLawsB "
         "Model.StdScalars Model.RunInput.\n",
         "Definition ftab : list (string * option spec_float) := %s.\n" % coq_list(
             ["(%s, %s)" % (coq_string(k), coq_option(None if v is None else coq_float(v)))
              for k, v in ftab.items()]),
         "Definition O := table_oracle ftab [].\n",
         "Definition sch : schema := %s.\n" % gen.schema_coq(s)]
    items = []
    for (q, variables), ast, run in zip(cases, asts, runs):
        op = [d for d in ast["definitions"] if d["kind"] == "OperationDefinition"][0]
        vds = []
        for vd in op.get("variableDefinitions") or []:
            vds.append("{| v_name := %s; v_type := %s; v_default := %s; v_loc := %s |}" % (
                coq_string(vd["variable"]["name"]["value"]), gen.type_node_coq(vd["type"]),
                coq_option(gen.value_coq(vd["defaultValue"]) if vd.get("defaultValue") else None),
                gen.loc_coq(vd)))
        raw = coq_list(["(%s, %s)" % (coq_string(k), coq_pyval(v)) for k, v in variables.items()])
        obs, _ = observation((q, variables), ast, run)
        items.append("(%s, %s, %s)" % (coq_list(vds), raw, obs))
    L.append("Definition cases : list (list var_def * vars * vobs) := %s.\n" % coq_list(items))
    L.append('Eval vm_compute in ("impl_mismatch", idx_where (fun c => match c with (vds, raw, obs) => '
             "negb (vobs_eqb (impl_vobs sch vds raw) obs) end) cases 0).\n")
    L.append('Eval vm_compute in ("spec_mismatch", idx_where (fun c => match c with (vds, raw, obs) => '
             "negb (vobs_eqb (spec_vobs sch vds raw) obs) end) cases 0).\n")
    L.append('Eval vm_compute in ("refused", idx_where (fun c => match c with (vds, raw, obs) => '
             "match obs with ObsRefused _ => true | _ => false end end) cases 0).\n")
    return "".join(L)


# The leaf rules at variable positions, as ABSOLUTE expectations (the models take the scalars' rules from the source, so a
# change of a rule moves model and engine together; the laws themselves are C10's theorems): value -> refused / delivered
LEAF_SDL = """
input Box { n: Int inner: Box ns: [Int] f: Float }
type Query { i(a: Int): Int f(a: Float): Int s(a: String): Int b(a: Boolean): Int d(a: ID): Int li(a: [Int!]): Int
             ll(a: [[Int!]]): Int bx(a: Box): Int }
"""
REFUSED = object()
LEAF_CASES = [
    ("i", "Int", 1e10, REFUSED), ("i", "Int", 2147483648.0, REFUSED), ("i", "Int", -2147483649.0, REFUSED),
    ("i", "Int", 2 ** 31, REFUSED), ("i", "Int", -(2 ** 31) - 1, REFUSED), ("i", "Int", True, REFUSED), ("i", "Int", "1", REFUSED),
    ("i", "Int", 1.5, REFUSED), ("i", "Int", float("inf"), REFUSED), ("i", "Int", 5.0, 5), ("i", "Int", 2147483647.0, 2147483647),
    ("i", "Int", -2147483648.0, -2147483648), ("i", "Int", 0, 0), ("i", "Int", -0.0, 0),
    ("f", "Float", 1, 1.0), ("f", "Float", True, REFUSED), ("f", "Float", "1.5", REFUSED), ("f", "Float", 1e308, 1e308),
    ("f", "Float", 10 ** 400, REFUSED),
    ("s", "String", 1, REFUSED), ("s", "String", True, REFUSED), ("s", "String", "x", "x"), ("s", "String", 1.5, REFUSED),
    ("b", "Boolean", 0, REFUSED), ("b", "Boolean", 1, REFUSED), ("b", "Boolean", "true", REFUSED), ("b", "Boolean", 1.0, REFUSED),
    ("b", "Boolean", True, True), ("b", "Boolean", False, False),
    ("d", "ID", 1, "1"), ("d", "ID", "a", "a"), ("d", "ID", 1.5, REFUSED), ("d", "ID", True, REFUSED),
    ("li", "[Int!]", [1, 3e9], REFUSED), ("li", "[Int!]", 4.0e9, REFUSED), ("li", "[Int!]", [1, 2.0], [1, 2]), ("li", "[Int!]", 7.0, [7]),
    ("li", "[Int!]", [True], REFUSED), ("ll", "[[Int!]]", [[1, 3e9]], REFUSED), ("ll", "[[Int!]]", 4, [[4]]),
    ("bx", "Box", {"n": 5e9}, REFUSED), ("bx", "Box", {"inner": {"inner": {"ns": [1, 2, -2.5e9]}}}, REFUSED),
    ("bx", "Box", {"n": 5.0, "f": 2}, {"n": 5, "f": 2.0}), ("bx", "Box", {"n": True}, REFUSED), ("bx", "Box", {"f": "1"}, REFUSED),
]


def _typed(v):
    """value with the Python type of every leaf (1 and 1.0 and True are different answers)"""
    if isinstance(v, list):
        return [_typed(x) for x in v]
    if isinstance(v, dict):
        return {k: _typed(x) for k, x in v.items()}
    return (type(v).__name__, v)


async def leaf_rules_scenario():
    from tartiflette import create_engine, Resolver
    name = fresh_schema_name("c04leaf")
    got = {}
    for fn in ("i", "f", "s", "b", "d", "li", "ll", "bx"):
        def mk(fn):
            @Resolver("Query." + fn, schema_name=name)
            async def r(parent, args, ctx, info):
                got[fn] = args
                return 1
        mk(fn)
    engine = await create_engine(LEAF_SDL, schema_name=name)
    problems = []
    # every case twice, in two orders: first the list order, then reversed (an earlier equal-but-other-typed value must not matter)
    for cases in (LEAF_CASES, list(reversed(LEAF_CASES))):
        for fn, t, value, want in cases:
            got.clear()
            q = "query ($v: %s) { %s(a: $v) }" % (t, fn)
            try:
                resp = await engine.execute(q, variables={"v": value})
            except Exception as e:  # pylint: disable=broad-except
                resp = {"raised": repr(e)}
            if want is REFUSED:
                ok = resp.get("data") is None and resp.get("errors") and not got
                exp = "refused before execution (errors, data null, no resolver called)"
            else:
                ok = not resp.get("errors") and fn in got and _typed(got[fn].get("a")) == _typed(want)
                exp = "resolver receives %r" % (_typed(want),)
            if not ok:
                problems.append({"sdl": LEAF_SDL, "query": q, "variables": {"v": repr(value)}, "expected": exp,
                                 "resolver_received": {k: repr(_typed(v.get("a"))) for k, v in got.items()}, "response": repr(resp)[:600]})
    return problems, 2 * len(LEAF_CASES)


# Two schemas of one process define the SAME type names differently; the same operation text goes to both engines: each
# coerces the variables by ITS schema's definitions (whatever is remembered about an operation belongs to one schema)
TWIN_SDL_A = """
input In { a: Int n: [Int!] }
enum E { X Y }
type Query { f(v: In): Int g(e: E): Int h(s: S): Int }
scalar S
"""
TWIN_SDL_B = """
input In { a: String n: [String!] b: Boolean! = true }
enum E { Y Z }
type Query { f(v: In): Int g(e: E): Int h(s: S): Int }
scalar S
"""
TWIN_REQUESTS = [
    # (operation text, variables, expectation on A, expectation on B); REFUSED or the value the resolver receives
    ("query ($v: In) { f(v: $v) }", {"v": {"a": 1}}, {"a": 1}, REFUSED),
    ("query ($v: In) { f(v: $v) }", {"v": {"a": "s"}}, REFUSED, {"a": "s", "b": True}),
    ("query ($v: In) { f(v: $v) }", {"v": {"n": [1, 2]}}, {"n": [1, 2]}, REFUSED),
    ("query ($v: In) { f(v: $v) }", {"v": {"n": "x"}}, REFUSED, {"n": ["x"], "b": True}),
    ("query ($v: In) { f(v: $v) }", {"v": {"b": False}}, REFUSED, {"b": False}),
    ("query ($e: E) { g(e: $e) }", {"e": "X"}, "X", REFUSED),
    ("query ($e: E) { g(e: $e) }", {"e": "Z"}, REFUSED, "Z"),
    ("query ($e: E) { g(e: $e) }", {"e": "Y"}, "Y", "Y"),
    ("query ($s: S) { h(s: $s) }", {"s": "q"}, "A<q>", "B<q>"),
]


async def twin_schemas_scenario():
    from tartiflette import create_engine, Resolver, Scalar
    problems, n = [], 0
    for order in ("AB", "BA"):
        engines, got = {}, {}
        for tag, sdl in (("A", TWIN_SDL_A), ("B", TWIN_SDL_B)):
            name = fresh_schema_name("c04twin" + tag)

            def reg(tag, name):
                for fn in ("f", "g", "h"):
                    def mk(fn):
                        @Resolver("Query." + fn, schema_name=name)
                        async def r(parent, args, ctx, info):
                            got[tag] = args
                            return 1
                    mk(fn)

                @Scalar("S", schema_name=name)
                class S:          # pylint: disable=unused-variable
                    def coerce_output(self, v):
                        return v

                    def coerce_input(self, v):
                        return "%s<%s>" % (tag, v)

                    def parse_literal(self, ast):
                        return "%s<%s>" % (tag, ast.value)
            reg(tag, name)
            engines[tag] = await create_engine(sdl, schema_name=name)
        for q, variables, want_a, want_b in TWIN_REQUESTS:
            for tag in order:
                want = want_a if tag == "A" else want_b
                got.clear()
                n += 1
                try:
                    resp = await engines[tag].execute(q, variables=variables)
                except Exception as e:  # pylint: disable=broad-except
                    resp = {"raised": repr(e)}
                if want is REFUSED:
                    ok = resp.get("data") is None and resp.get("errors") and not got
                    exp = "refused before execution"
                else:
                    val = list(got.get(tag, {}).values())
                    ok = not resp.get("errors") and val and _typed(val[0]) == _typed(want)
                    exp = "resolver receives %r" % (_typed(want),)
                if not ok:
                    problems.append({"sdl": TWIN_SDL_A if tag == "A" else TWIN_SDL_B, "other_schema_of_the_process": TWIN_SDL_B
                                     if tag == "A" else TWIN_SDL_A, "engines_asked_in_order": order, "query": q, "variables": variables,
                                     "expected": exp, "resolver_received": {k: repr(v) for k, v in got.items()},
                                     "response": repr(resp)[:600]})
    return problems, n


def main(tier_, replay=None):
    from . import engine_env
    rep = common.Report("C04")
    seed = common.seed()
    b = common.build(["Properties/C04.vo", "Model/RunInput.vo", "Model/StdScalars.vo"])
    gate = common.grep_gate()
    proofs_ok = b["ok"] and not gate
    engine_env.setup()
    rng = random.Random(seed * 7919 + 4)
    n_schemas, n_cases = (4, 120) if tier_ == "quick" else (24, 400)
    files, meta = [], []
    for si in range(n_schemas):
        s = gen.gen_input_schema(rng, p_bad_default=0.15)
        cases = [gen_case(rng, s) for _ in range(n_cases)]
        asts = [gen.parse_query(q) for q, _ in cases]
        runs = asyncio.run(run_schema(s, cases, fresh_schema_name("c04")))
        for j in range(0, len(cases), 150):
            files.append(("C04_s%d_%d_%d" % (seed, si, j),
                          cases_file(s, cases[j:j + 150], asts[j:j + 150], runs[j:j + 150])))
            meta.append((s, cases[j:j + 150], asts[j:j + 150], runs[j:j + 150]))
    results = common.run_coq_many(files)
    total = refused = 0
    impl_mm, spec_mm = [], []
    for (s, cases, asts, runs), (ok, so, se) in zip(meta, results):
        total += len(cases)
        if not ok:
            rep.violation({"property": "C04", "what": "case file failed to evaluate (model does not build?)",
                           "stderr": se[-1500:]}, no_input=True)
            continue
        refused += len(common.parse_Z_list(so, "refused") or [])
        for i in common.parse_Z_list(so, "impl_mismatch") or []:
            impl_mm.append((s, cases[i], asts[i], runs[i]))
        for i in common.parse_Z_list(so, "spec_mismatch") or []:
            spec_mm.append((s, cases[i], asts[i], runs[i]))
    leaf_problems, leaf_n = asyncio.run(leaf_rules_scenario())
    total += leaf_n
    twin_problems, twin_n = asyncio.run(twin_schemas_scenario())
    total += twin_n
    from . import nestedvars
    nv_problems, nv_n = nestedvars.run(rep, "C04")
    total += nv_n
    for pr in twin_problems[:3]:
        rep.violation(dict(pr, property="C04", kind="variables are not coerced by the definitions of the engine's own schema"))
    for pr in leaf_problems[:4]:
        rep.violation(dict(pr, property="C04", kind="a leaf value of a variable is not coerced by the scalar's input rule"))
    known = common.known_findings("C04")
    for s, case, ast, run in spec_mm[:5]:
        rep.violation({"property": "C04", "kind": "engine differs from CoerceVariableValues (spec model)",
                       "sdl": gen.schema_sdl(s), "query": case[0], "variables": case[1],
                       "observed": observation(case, ast, run)[1],
                       "response": run["response"]})
    if not spec_mm and not leaf_problems and not twin_problems and not nv_problems:
        if not proofs_ok:
            rep.violation({"property": "C04", "what": "proof obligation no longer checks",
                           "file": b.get("failed_file"), "theorem": b.get("failed_lemma"), "gate": gate,
                           "log_tail": b["log"][-1500:]}, no_input=True)
        elif impl_mm:
            s, case, ast, run = impl_mm[0]
            rep.violation({"property": "C04", "what": "correspondence broken: impl model and engine disagree "
                           "although the engine agrees with the spec model on all explored cases",
                           "sdl": gen.schema_sdl(s), "query": case[0], "variables": case[1],
                           "observed": observation(case, ast, run)[1], "n": len(impl_mm)}, no_input=True)
    nob, names = common.count_obligations(PROPERTY_FILES)
    assum = common.assumptions("Properties/C04.v") if b["ok"] else {"closed": 0, "axioms": ["build failed"]}
    samples = []
    for s, cases, asts, runs in meta[:2]:
        for c, a, r in list(zip(cases, asts, runs))[:3]:
            samples.append({"query": c[0], "variables": c[1], "observed": observation(c, a, r)[1]})
    common.write_evidence("C04", tier_, "proof", {
        "obligations": nob, "discharged": nob if proofs_ok else 0,
        "checker_cmd": "make Properties/C04.vo (coqc 8.16.1) after regenerating Gen/ from /repo",
        "trusted_base": common.TRUSTED_BASE + [
            "Print Assumptions: %d theorems closed; axioms: %s" % (assum["closed"], assum["axioms"] or "none")],
        "theorems": [n for n in names if n.startswith("C04_")],
        "evaluations": total, "distinct_nontrivial": refused if refused >= 2 else 0,
        "rule": "generated (schema, operation, variables) requests; non-trivial = the request was refused by "
                "variable coercion (count of refused cases; the rest delivered coerced values that were compared)",
        "traces_validated_against_impl": total,
        "impl_model_mismatches": len(impl_mm), "spec_model_mismatches": len(spec_mm),
        "input_distribution": {"schemas": n_schemas, "cases": total, "refused": refused,
                               "coerced": total - refused},
        "samples": samples,
    }, rep.wall(), violations=len(rep.violations),
        assumptions_=["directive hooks absent (C13)", "custom scalars are oracle triples"])
    return rep.finish()
