"""C01 / C02 / C03 share this driver: generated (schema, document, variables, resolver data)
requests through the real engine with recording resolvers, compared inside Coq with the
implementation model (Model/ImplExec.v) and judged by the property predicates."""
import asyncio
import json
import random

from . import common, coqterm, gen, execgen
from .c04 import fresh_schema_name
from .coqterm import coq_list, coq_string, coq_option, coq_float, coq_bool


def float_table(asts, extra_strings=()):
    lex = set(extra_strings)
    for a in asts:
        lex |= gen.all_lexemes(a)
    tab = {}
    for l in lex:
        try:
            tab[l] = float(l)
        except (ValueError, OverflowError):
            tab[l] = None
    return tab


def collect_strings(v, acc):
    if isinstance(v, str):
        acc.add(v)
    elif isinstance(v, (list, tuple)):
        for x in v:
            collect_strings(x, acc)
    elif isinstance(v, dict):
        for x in v.values():
            collect_strings(x, acc)
    elif isinstance(v, execgen.Obj):
        for x in v._attrs().values():
            collect_strings(x, acc)


def collect_str_oracle(v, acc):
    """values whose str() the String scalar may need: floats / containers / opaques"""
    if isinstance(v, (float, list, dict)) or (v is not None and not isinstance(v, (str, int, bool, execgen.Obj, BaseException))):
        try:
            acc.append((execgen.model_value(v), str(v)))
        except Exception:  # pylint: disable=broad-except
            acc.append((execgen.model_value(v), None))
    if isinstance(v, (list, tuple)):
        for x in v:
            collect_str_oracle(x, acc)
    elif isinstance(v, dict):
        for x in v.values():
            collect_str_oracle(x, acc)
    elif isinstance(v, execgen.Obj):
        acc.append((execgen.model_value(v), str(v)))
        for x in v._attrs().values():
            collect_str_oracle(x, acc)


async def run_cases(s, cases, schema_name, cfg=None):
    rec = execgen.Recorder()
    ctx_obj = {"ctx": 1}
    oracle_ref = [None, ctx_obj]
    engine = await execgen.build_engine(s, schema_name, oracle_ref, rec, cfg)
    out = []
    for c in cases:
        rec.clear()
        oracle_ref[0] = execgen.Oracle(s, c["oracle_seed"], c.get("adversarial", 0.08), c.get("fail", 0.08),
                                       faults={tuple(p): k for p, k in (c.get("faults") or [])})
        root = execgen.realise(c.get("root"))
        try:
            resp = await engine.execute(c["query"], operation_name=c.get("opname"), variables=c["variables"],
                                        context=ctx_obj, initial_value=root)
            raised = None
        except Exception as e:  # pylint: disable=broad-except
            resp, raised = {"data": None}, repr(e)
        try:
            json.dumps(resp)
            serialisable = True
        except (TypeError, ValueError):
            serialisable = False
        run = {"response": resp, "raised": raised, "serialisable": serialisable,
               "calls": list(rec.calls), "tr_calls": list(rec.tr_calls),
               "ctx_ok": all(x.get("ctx_ok", True) for x in rec.calls)}
        # the SAME request once more on the same engine (same user code): nothing may be remembered from the first
        # execution -- same response, same resolver invocations
        rec.clear()
        oracle_ref[0] = execgen.Oracle(s, c["oracle_seed"], c.get("adversarial", 0.08), c.get("fail", 0.08),
                                       faults={tuple(p): k for p, k in (c.get("faults") or [])})
        try:
            resp2 = await engine.execute(c["query"], operation_name=c.get("opname"), variables=c["variables"],
                                         context=ctx_obj, initial_value=execgen.realise(c.get("root")))
            raised2 = None
        except Exception as e:  # pylint: disable=broad-except
            resp2, raised2 = {"data": None}, repr(e)

        def sites(calls):
            return sorted((repr(x["path"]), x["ptype"], x["field"], repr(sorted(x["args"].items(), key=repr))) for x in calls)
        if raised2 != raised or _repeat_canon(resp2) != _repeat_canon(resp) or sites(rec.calls) != sites(run["calls"]):
            run["repeat_differs"] = {"response": repr(resp2)[:2000], "raised": raised2,
                                     "resolver_calls": sites(rec.calls)[:40]}
        out.append(run)
    return out


def _repeat_canon(resp):
    import re

    def txt(x):
        # engine-authored messages may quote the repr of a user object: addresses differ between two executions
        return re.sub(r"0x[0-9a-fA-F]+", "0x", json.dumps(x, sort_keys=True, default=repr))
    errs = sorted(txt(e) for e in (resp.get("errors") or [])) if isinstance(resp, dict) else None
    data = txt(resp.get("data")) if isinstance(resp, dict) else repr(resp)
    return data, errs


class RecView:
    def __init__(self, run):
        self.calls, self.tr_calls = run["calls"], run["tr_calls"]


def case_term(s, c, ast, run):
    rv = RecView(run)
    raw = coq_list(["(%s, %s)" % (coq_string(k), execgen.model_value(v)) for k, v in c["variables"].items()])
    return "(%s, %s, %s, %s, %s, %s)" % (
        gen.document_coq(ast), execgen.usercode_coq(s, rv),
        coq_option(coq_string(c["opname"]) if c.get("opname") else None), raw,
        execgen.model_value(c.get("root")), execgen.observation_coq(run["response"], rv))


def cases_file(s, cases, asts, runs, cfg, evals, extra_imports="", extra_asts=()):
    strings, stro = set(), []
    for r in runs:
        for call in r["calls"]:
            if call["ret"][0] == "ret":
                collect_strings(call["ret"][1], strings)
                collect_str_oracle(call["ret"][1], stro)
    for c in cases:
        collect_strings(c.get("root"), strings)
        # the REALISED initial value: str() of a placeholder is not what the engine's scalars see
        collect_str_oracle(execgen.realise(c.get("root")), stro)
    ftab = float_table(list(asts) + list(extra_asts), strings)
    seen, stab = set(), []
    for k, v in stro:
        if k not in seen:
            seen.add(k)
            stab.append((k, v))
    L = [coqterm.HEADER,
         "From TV Require Import Model.Schema Model.ImplInput Model.ScalarLawsB Model.StdScalars "
         "Model.RunInput Model.RunArgs Model.ImplExec Model.RunExec%s.\n" % extra_imports,
         "Definition ftab : list (string * option spec_float) := %s.\n" % coq_list(
             ["(%s, %s)" % (coq_string(k), coq_option(None if v is None else coq_float(v)))
              for k, v in ftab.items()]),
         "Definition stab : list (pyval * option string) := %s.\n" % coq_list(
             ["(%s, %s)" % (k, coq_option(None if v is None else coq_string(v))) for k, v in stab]),
         "Definition O := table_oracle ftab stab.\n",
         "Definition sch : schema := %s.\n" % gen.schema_coq(s),
         "Definition cfg : config := %s.\n" % execgen.cfg_coq(cfg, s),
         "Definition cases : list (document * usercode * option string * vars * pyval * response) := %s.\n"
         % coq_list([case_term(s, c, a, r) for c, a, r in zip(cases, asts, runs)])]
    L += evals
    return "".join(L)


IMPL_EVAL = ('Eval vm_compute in ("impl_mismatch", idx_where (fun c => match c with '
             "(doc, U, opn, raw, root, obs) => negb (resp_agree (impl_execute sch doc U cfg opn raw root) obs) "
             "end) cases 0).\n"
             'Eval vm_compute in ("diffs", map (fun c => match c with '
             "(doc, U, opn, raw, root, obs) => resp_diff (impl_execute sch doc U cfg opn raw root) obs "
             "end) cases).\n")


def gen_cases(rng, s, n, kinds=("query",), adversarial=0.08, fail=0.08):
    cases = []
    for i in range(n):
        kind = rng.choice(kinds)
        dg = execgen.DocGen(rng, s)
        q, variables, opname = dg.document(kind, n_ops=1 if rng.random() < 0.85 else 2)
        cases.append({"query": q, "variables": variables, "opname": opname, "kind": kind,
                      "oracle_seed": rng.randrange(1 << 30), "root": None,
                      "adversarial": adversarial, "fail": fail})
    return cases


MAX_CALLS_PER_CASE = 120


def explore(tier_, seed, prop, kinds=("query",), adversarial=0.08, fail=0.08, with_mutation=False,
            evals=IMPL_EVAL, extra_imports="", n_override=None, expand=None):
    """Generate, run, evaluate.  Returns list of dicts (schema, case, ast, run, labels...)."""
    from . import engine_env
    engine_env.setup()
    rng = random.Random(seed * 65537 + zlib_crc(prop))
    explore.dropped_heavy = 0
    n_schemas, n_cases = n_override or ((5, 60) if tier_ == "quick" else (40, 150))
    files, meta = [], []
    results, names = [], []

    def flush(force=False):
        # case files are evaluated in batches as they are produced: their texts (several GB in the thorough tier) are
        # never all in memory at once
        if files and (force or len(files) >= 24):
            results.extend(common.run_coq_many(files))
            names.extend(f[0] for f in files)
            files.clear()
    cfg = {"parent": True, "list": True, "args": "gather"}
    for si in range(-1, n_schemas):
        if si == -1:
            # hand-written witnesses of the shapes the properties single out, before anything random
            s = execgen.hand_abstract_schema()
            cases = execgen.hand_abstract_cases(rng, 2 if tier_ == "quick" else 6)
        else:
            s = execgen.gen_exec_schema(rng, with_mutation=with_mutation)
            cases = gen_cases(rng, s, n_cases, kinds, adversarial, fail)
            # "initial value": on some schemas about half of the ROOT fields have no resolver and read the caller's
            # initial value (dict or attribute object, keys possibly missing) -- own random stream, the main one is untouched
            r2 = random.Random(seed * 8191 + si * 131 + zlib_crc(prop))
            if r2.random() < 0.5:
                for rt in ("Query", "Mutation"):
                    for f in (s["types"].get(rt) or {}).get("fields", []):
                        if r2.random() < 0.5:
                            s["resolvers"].discard((rt, f["name"]))
                            s["field_type_resolvers"].discard((rt, f["name"]))
                for c in cases:
                    rt = "Mutation" if c.get("kind") == "mutation" else "Query"
                    orc = execgen.Oracle(s, c["oracle_seed"] ^ 0x5A5A, adversarial, 0.0)
                    c["root"] = orc.object(r2, rt, 0) if r2.random() < 0.85 else r2.choice([None, 5, "x", []])
        if expand:
            cases = expand(rng, s, cases, cfg)
        asts = [gen.parse_query(c["query"]) for c in cases]
        runs = asyncio.run(run_cases(s, cases, fresh_schema_name(prop.lower()), cfg))
        # a request with hundreds of resolver invocations over deeply nested values makes a case term of ~1 MB, a case
        # file of tens of MB and a coqc of ~10 GB: such requests are left out (counted), the rest is evaluated
        keep = [i for i, r in enumerate(runs) if len(r["calls"]) + len(r["tr_calls"]) <= MAX_CALLS_PER_CASE]
        explore.dropped_heavy = getattr(explore, "dropped_heavy", 0) + len(runs) - len(keep)
        cases, asts, runs = [cases[i] for i in keep], [asts[i] for i in keep], [runs[i] for i in keep]
        step = 30
        for j in range(0, len(cases), step):
            files.append(("%s_s%d_%s_%d" % (prop, seed, ("h" if si < 0 else str(si)), j),
                          cases_file(s, cases[j:j + step], asts[j:j + step], runs[j:j + step], cfg, evals, extra_imports)))
            meta.append((s, cases[j:j + step], asts[j:j + step], runs[j:j + step]))
        # the same requests on an engine whose fields carry MIXED per-field concurrency settings: compared with the
        # implementation model under that configuration (data, errors, call log); of the specification's verdict only
        # data / error paths / conformance apply (a failing sequential field legitimately keeps later ones from starting)
        nm = min(len(cases), 30 if tier_ == "quick" else 90)
        for m, par in ((1, True), (2, False)):
            mcfg = {"parent": par, "list": not par, "args": "gather", "mixed": m}
            mruns = asyncio.run(run_cases(s, cases[:nm], fresh_schema_name(prop.lower() + "mx"), mcfg))
            for j in range(0, nm, step):
                files.append(("%sM%d_s%d_%s_%d" % (prop, m, seed, ("h" if si < 0 else str(si)), j),
                              cases_file(s, cases[j:min(nm, j + step)], asts[j:min(nm, j + step)], mruns[j:j + step], mcfg, evals,
                                         extra_imports)))
                meta.append((s, cases[j:min(nm, j + step)], asts[j:min(nm, j + step)], mruns[j:j + step], mcfg))
        flush()
    flush(force=True)
    explore.files = names
    return meta, results


def zlib_crc(s):
    import zlib
    return zlib.crc32(s.encode())


SPEC_EVAL = ('Eval vm_compute in ("verdicts", map (fun c => match c with '
             "(doc, U, opn, raw, root, obs) => spec_verdict sch doc U cfg opn raw root obs "
             "end) cases).\n")

BIT_NAMES = {1: "data differs from the specification's execution algorithm",
             2: "a field error's origin is not reported in errors",
             4: "an error is reported for a position where no field error originated",
             8: "an error's path does not lead to a null in data",
             16: "data does not conform to schema and selection",
             64: "specification model crashed"}


def parse_int_list(out, label):
    import re
    m = re.search(r'\(\s*"%s"\s*,\s*\[(.*?)\]\s*\)' % label, out, re.S)
    if not m:
        return None
    body = m.group(1).strip()
    return [int(x.strip().strip("()")) for x in body.split(";") if x.strip()] if body else []


def run_property(pid, tier_, bits, explore_kwargs, property_files, extra_python_check=None,
                 nontrivial=lambda c, r: r["response"].get("data") is not None, rule=""):
    rep = common.Report(pid)
    seed = common.seed()
    # C03's leaf cases are the wire theorems of the translated scalars (Properties/C10.v): part of its obligations
    b = common.build(["Properties/%s.vo" % pid, "Model/RunExec.vo", "Model/StdScalars.vo"] +
                     (["Properties/C10.vo"] if pid == "C03" else []))
    gate = common.grep_gate()
    proofs_ok = b["ok"] and not gate
    meta, results = explore(tier_, seed, pid, evals=IMPL_EVAL + SPEC_EVAL, **explore_kwargs)
    total = 0
    distinct_nt = set()
    impl_mm, viol = [], []
    for fi, (mt, (ok, so, se)) in enumerate(zip(meta, results)):
        s, cases, asts, runs = mt[:4]
        mixed = mt[4] if len(mt) > 4 else None
        total += len(cases)
        if not ok:
            rep.violation({"property": pid, "what": "case file failed to evaluate", "stderr": se[-1500:]},
                          no_input=True)
            continue
        verdicts = parse_int_list(so, "verdicts") or [0] * len(cases)
        mm = set(common.parse_Z_list(so, "impl_mismatch") or [])
        for i, (c, r) in enumerate(zip(cases, runs)):
            if nontrivial(c, r):
                distinct_nt.add((fi, c["query"], json.dumps(c["variables"], sort_keys=True, default=repr), c.get("opname"),
                                 c["oracle_seed"], repr(c.get("faults"))))
            why = []
            v = verdicts[i] if i < len(verdicts) else 0
            for bit, name in BIT_NAMES.items():
                if v & bit & bits & ((1 | 8 | 16) if mixed else -1):
                    why.append(name + (" (per-field concurrency settings %r)" % (mixed,) if mixed else ""))
            if extra_python_check and not mixed:
                why += extra_python_check(c, r)
            if mixed and r["raised"]:
                why.append("execute raised %s under per-field concurrency settings %r" % (r["raised"], mixed))
            if r.get("repeat_differs"):
                why.append("the same request executed again on the same engine is answered differently: %r" % (r["repeat_differs"],))
            if why:
                viol.append((s, c, r, why))
            elif i in mm:
                impl_mm.append((s, c, r))
    for s, c, r, why in viol[:5]:
        rep.violation({"property": pid, "kind": why, "sdl": gen.schema_sdl(s), "query": c["query"],
                       "variables": c["variables"], "opname": c.get("opname"),
                       "oracle_seed": c["oracle_seed"], "faults": c.get("faults"),
                       "response": repr(r["response"])[:3000],
                       "resolver_calls": [(x["path"], x["ptype"], x["field"], repr(x["args"]), repr(x["ret"])[:200])
                                          for x in r["calls"]][:60]})
    if not viol:
        if not proofs_ok:
            rep.violation({"property": pid, "what": "proof obligation no longer checks",
                           "file": b.get("failed_file"), "theorem": b.get("failed_lemma"), "gate": gate,
                           "log_tail": b["log"][-1500:]}, no_input=True)
        elif impl_mm:
            s, c, r = impl_mm[0]
            rep.violation({"property": pid, "what": "correspondence broken: engine and implementation model "
                           "disagree (data / errors / resolver call log) although the property predicates hold "
                           "on the explored cases", "n": len(impl_mm),
                           "sdl": gen.schema_sdl(s), "query": c["query"], "variables": c["variables"],
                           "opname": c.get("opname"), "oracle_seed": c["oracle_seed"], "faults": c.get("faults"),
                           "response": repr(r["response"])[:3000]}, no_input=True)
    nob, names = common.count_obligations(property_files)
    assum = common.assumptions("Properties/%s.v" % pid) if b["ok"] else {"closed": 0, "axioms": ["build failed"]}
    common.write_evidence(pid, tier_, "proof", {
        "obligations": nob, "discharged": nob if proofs_ok else 0,
        "checker_cmd": "make Properties/%s.vo (coqc 8.16.1) after regenerating Gen/ from /repo" % pid,
        "trusted_base": common.TRUSTED_BASE + [
            "Print Assumptions: %d theorems closed; axioms: %s" % (assum["closed"], assum["axioms"] or "none")],
        "theorems": [n for n in names if n.startswith(pid + "_")],
        "evaluations": total, "distinct_nontrivial": len(distinct_nt), "rule": rule,
        "traces_validated_against_impl": total,
        "requests_left_out_as_too_heavy": getattr(explore, "dropped_heavy", 0),
        "impl_model_mismatches": len(impl_mm), "property_violations": len(viol),
        "samples": [{"query": c["query"], "variables": c["variables"], "faults": c.get("faults")}
                    for c in (meta[0][1][:3] if meta else [])],
    }, rep.wall(), violations=len(rep.violations),
        assumptions_=["directive hooks other than @skip/@include absent (C13)", "errors/call log compared as multisets",
                      "engine-authored message texts not compared"])
    return rep.finish()


C01_FILES = ["Properties/C01.v", "Proofs/CollectRefine.v", "Proofs/ExecRefine.v", "Proofs/ExecCalls.v"]


def main(tier_, replay=None):
    return run_property(
        "C01", tier_, bits=1 | 64, explore_kwargs=dict(adversarial=0.02, fail=0.03),
        property_files=C01_FILES,
        extra_python_check=lambda c, r: ([] if r["ctx_ok"] else ["a resolver did not receive the caller's context"]),
        rule="generated valid requests (aliases, repeated keys, fragment DAGs with sharing, type conditions, "
             "@skip/@include, variables, three ways of naming the runtime type); non-trivial = executed")
