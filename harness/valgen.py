"""Generators for the validation checks (C06 C07): schemas with input objects and custom
directives in every executable location, STRUCTURED documents that are valid by construction
(fragment DAGs with sharing, several named operations, variables flowing through fragments,
directives in every legal location, meta-fields, identical repeated fields), a printer, and a
catalogue of violation-injecting rewrites applied at every applicable node.

document : dict(ops=[op], frags=[frag], extra=str)
op       : dict(kind, name, vars=[dict(name,type,default)], dirs=[dir], sels=[sel])
frag     : dict(name, tc, dirs, sels)
sel      : dict(k="field", alias, name, args=[(name, lit)], dirs, sels, ptype, ftype)
         | dict(k="spread", name, dirs) | dict(k="inline", tc, dirs, sels)
dir      : dict(name, args=[(name, lit)])
"""
import copy
import random
import zlib
from collections import OrderedDict

from . import gen, execgen
from .gen import N, L, NN, named_of, type_sdl, lit_sdl

EXEC_LOCS = ["QUERY", "MUTATION", "SUBSCRIPTION", "FIELD", "FRAGMENT_DEFINITION", "FRAGMENT_SPREAD", "INLINE_FRAGMENT"]
ROOTS = ("Query", "Mutation", "Subscription")


# ------------------------------------------------------------------ schema
def gen_val_schema(rng):
    s = execgen.gen_exec_schema(rng, with_mutation=rng.random() < 0.5, with_subscription=rng.random() < 0.6,
                                n_objects=rng.randrange(2, 5))
    types = s["types"]
    enums = [n for n, d in types.items() if d["kind"] == "ENUM"]
    if not enums:
        types["E9"] = {"kind": "ENUM", "values": ["RED", "GREEN"]}
        types.move_to_end("E9", last=False)
        enums = ["E9"]
    leafs = list(gen.BUILTIN_SCALARS) + enums
    types["In1"] = {"kind": "INPUT", "fields": [
        {"name": "x", "type": N(rng.choice(leafs)), "default": None},
        {"name": "y", "type": NN(N("Boolean")), "default": None},
        {"name": "e", "type": N(enums[0]), "default": ("enum", types[enums[0]]["values"][0]) if rng.random() < 0.5 else None}]}
    types["In0"] = {"kind": "INPUT", "fields": [
        {"name": "a", "type": N("Int"), "default": None},
        {"name": "b", "type": L(NN(N("String"))), "default": None},
        {"name": "c", "type": N("In1"), "default": None},
        {"name": "r", "type": NN(N("Int")), "default": ("int", 3) if rng.random() < 0.5 else None},
        {"name": "self", "type": N("In0"), "default": None},
        {"name": "l", "type": L(N("In1")), "default": None}]}
    shapes = [N("In0"), NN(N("In0")), L(NN(N("In0"))), N("In1"), L(N(enums[0])), NN(L(NN(N("Int")))), N(enums[0]), NN(N("Int")),
              N("String"), L(L(N("Int")))]
    for tn, d in types.items():
        if d["kind"] != "OBJECT":
            continue
        for f in d["fields"]:
            if rng.random() < 0.35 and not _is_iface_field(types, tn, f["name"]):
                t = rng.choice(shapes)
                f.setdefault("args", []).append({"name": "in%d" % len(f["args"]), "type": t, "default": None})
    # an implementation may declare ADDITIONAL nullable arguments on an interface's field: they are arguments of the object's
    # field only (selected through the interface they are unknown).  Own generator: the main random stream is not touched
    r2 = random.Random(len(types) * 7919 + sum(len(d.get("fields", [])) for d in types.values()))
    nullable_shapes = [t for t in shapes if t[0] != "nonnull"]
    for tn, d in types.items():
        if d["kind"] != "OBJECT":
            continue
        for f in d["fields"]:
            if _is_iface_field(types, tn, f["name"]) and r2.random() < 0.5:
                f.setdefault("args", []).append({"name": "own%d" % len(f["args"]), "type": r2.choice(nullable_shapes), "default": None})
    # two abstract types whose possible types are disjoint, reachable from Query (rule 5.5.2.3 between abstract scopes)
    objs = [n for n, d in types.items() if d["kind"] == "OBJECT" and n not in ("Query", "Mutation", "Subscription")]
    if len(objs) >= 2 and "UD0" not in types:
        types["UD0"] = {"kind": "UNION", "members": [objs[0]]}
        types["UD1"] = {"kind": "UNION", "members": [objs[1]]}
        types["Query"]["fields"].append({"name": "qud0", "type": N("UD0"), "args": []})
        types["Query"]["fields"].append({"name": "qud1", "type": L(N("UD1")), "args": []})
        s["resolvers"] |= {("Query", "qud0"), ("Query", "qud1")}
    dirs = [{"name": "tag", "args": [{"name": "n", "type": N("Int"), "default": ("int", 1)},
                                     {"name": "s", "type": N("String"), "default": None},
                                     {"name": "i", "type": N("In1"), "default": None}], "locations": list(EXEC_LOCS)}]
    if rng.random() < 0.8:
        dirs.append({"name": "fonly", "args": [{"name": "x", "type": NN(N("Int")), "default": None}], "locations": ["FIELD"]})
    if rng.random() < 0.8:
        dirs.append({"name": "qonly", "args": [], "locations": ["QUERY", "FRAGMENT_DEFINITION"]})
    s["directives"] = dirs
    return s


def _is_iface_field(types, tn, fname):
    for i in types[tn].get("interfaces", []):
        if any(f["name"] == fname for f in types[i]["fields"]):
            return True
    return False


def directives_sdl(s):
    out = []
    for d in s.get("directives", []):
        args = ""
        if d["args"]:
            args = "(" + ", ".join("%s: %s%s" % (a["name"], type_sdl(a["type"]),
                                                 " = " + lit_sdl(a["default"]) if a.get("default") is not None else "")
                                   for a in d["args"]) + ")"
        out.append("directive @%s%s on %s" % (d["name"], args, " | ".join(d["locations"])))
    return "\n".join(out) + "\n"


def full_sdl(s):
    return gen.schema_sdl(s) + directives_sdl(s)


def vschema_coq(s):
    dl = []
    for d in s.get("directives", []):
        dl.append("{| dd_name := %s; dd_args := %s; dd_locs := %s |}" % (
            gen.coq_string(d["name"]), gen.coq_list([gen.input_def_coq(a) for a in d["args"]]),
            gen.coq_list([gen.coq_string(l) for l in d["locations"]])))
    extra = OrderedDict()
    for b in ("Date", "DateTime", "Time"):
        if b not in s["types"]:
            extra[b] = {"kind": "SCALAR"}
    s2 = dict(s, types=OrderedDict(list(s["types"].items()) + list(extra.items())))
    return "{| vs := %s; vs_dirs := %s |}" % (gen.schema_coq(s2), gen.coq_list(dl))


# ------------------------------------------------------------------ valid documents
def possible(s, n):
    return execgen.possible_types(s, n)


def is_composite(s, n):
    return s["types"].get(n, {"kind": "SCALAR"})["kind"] in ("OBJECT", "INTERFACE", "UNION")


class VDocGen:
    def __init__(self, rng, s, max_depth=3):
        self.rng, self.s, self.max_depth = rng, s, max_depth
        self.frags = []            # frag dicts, in creation order (a fragment spreads only earlier ones)
        self.var_types = OrderedDict()   # name -> (declared type, default literal or None)
        self.bare_ok = self._bare_names()

    def _bare_names(self):
        """field names that may be selected without alias anywhere: same type and no args wherever defined"""
        seen = {}
        for tn, d in self.s["types"].items():
            for f in d.get("fields", []) if d["kind"] in ("OBJECT", "INTERFACE") else []:
                seen.setdefault(f["name"], set()).add((type_sdl(f["type"]), bool(f.get("args"))))
        return {n for n, v in seen.items() if len(v) == 1 and not list(v)[0][1]}

    # ---- variables
    def new_var(self, pos_type, pos_has_default):
        """declares a variable usable at a position of type pos_type; returns its name"""
        rng = self.rng
        name = "v%d" % len(self.var_types)
        t, default = pos_type, None
        r = rng.random()
        if pos_type[0] == "nonnull":
            if r < 0.25 and named_of(pos_type) not in ("In0", "In1"):
                # nullable variable with a non-null default at a non-null position
                t = pos_type[1]
                default = gen.gen_literal(rng, self.s, pos_type, good=True)
                if default == ("null",):
                    t, default = pos_type, None
            elif r < 0.4 and pos_has_default:
                t = pos_type[1]
        else:
            if r < 0.3:
                t = NN(pos_type)            # stricter variable at a nullable position
            elif r < 0.5 and named_of(pos_type) not in ("In0",):
                default = gen.gen_literal(rng, self.s, pos_type, good=True)
        self.var_types[name] = (t, default)
        return name

    def value(self, t, has_default, allow_vars=True, depth=0):
        """a literal valid for a position of type t, possibly with variables nested inside"""
        rng = self.rng
        if allow_vars and rng.random() < (0.3 if depth == 0 else 0.15):
            return ("var", self.new_var(t, has_default))
        k = t[0]
        if k == "nonnull":
            return self._nonnull(self.value(t[1], False, allow_vars=False, depth=depth) if not allow_vars
                                 else self._value_nn(t[1], depth))
        if rng.random() < 0.08:
            return ("null",)
        return self._value_nn(t, depth, allow_vars)

    def _nonnull(self, v):
        return v if v != ("null",) else ("int", 0)

    def _value_nn(self, t, depth, allow_vars=True):
        rng = self.rng
        while t[0] == "nonnull":
            t = t[1]
        if t[0] == "list":
            if rng.random() < 0.15:
                inner = t[1]
                while inner[0] == "nonnull":
                    inner = inner[1]
                if inner[0] != "list":
                    return self._value_nn(inner, depth + 1, allow_vars)       # single value for a list
            items = []
            for _ in range(rng.randrange(0, 3)):
                it = t[1]
                if allow_vars and rng.random() < 0.2:
                    items.append(("var", self.new_var(it, False)))
                elif it[0] == "nonnull" or rng.random() > 0.1:
                    items.append(self._value_nn(it, depth + 1, allow_vars))
                else:
                    items.append(("null",))
            return ("list", items)
        name = t[1]
        d = self.s["types"].get(name)
        if d is None or d["kind"] == "SCALAR":
            v = gen.gen_scalar_literal(rng, name, True)
            return v
        if d["kind"] == "ENUM":
            return ("enum", rng.choice(d["values"]))
        fields = []
        for f in d["fields"]:
            required = f["type"][0] == "nonnull" and f.get("default") is None
            if not required and (rng.random() < 0.5 or depth > 2):
                continue
            if allow_vars and rng.random() < 0.2:
                fields.append((f["name"], ("var", self.new_var(f["type"], f.get("default") is not None))))
            elif f["type"][0] == "nonnull":
                fields.append((f["name"], self._value_nn(f["type"], depth + 1, allow_vars)))
            else:
                fields.append((f["name"], ("null",) if rng.random() < 0.1 else self._value_nn(f["type"], depth + 1, allow_vars)))
        rng.shuffle(fields)
        return ("obj", fields)

    # ---- directives
    def dirs(self, loc):
        rng = self.rng
        if rng.random() > 0.25:
            return []
        cands = [d for d in self.s.get("directives", []) if loc in d["locations"]]
        if loc in ("FIELD", "FRAGMENT_SPREAD", "INLINE_FRAGMENT"):
            cands = cands + [{"name": "skip", "args": [{"name": "if", "type": NN(N("Boolean")), "default": None}]},
                             {"name": "include", "args": [{"name": "if", "type": NN(N("Boolean")), "default": None}]}]
        if not cands:
            return []
        rng.shuffle(cands)
        out = []
        for d in cands[:1 if rng.random() < 0.75 else 2]:
            args = []
            for a in d["args"]:
                required = a["type"][0] == "nonnull" and a.get("default") is None
                if not required and rng.random() < 0.5:
                    continue
                if d["name"] in ("skip", "include"):
                    v = ("var", self.new_var(a["type"], False)) if rng.random() < 0.4 else ("bool", d["name"] == "include")
                else:
                    v = self.value(a["type"], a.get("default") is not None)
                args.append((a["name"], v))
            out.append({"name": d["name"], "args": args})
        return out

    # ---- selections
    def args_for(self, f):
        args = []
        for a in f.get("args", []):
            required = a["type"][0] == "nonnull" and a.get("default") is None
            if not required and self.rng.random() < 0.4:
                continue
            args.append((a["name"], self.value(a["type"], a.get("default") is not None)))
        self.rng.shuffle(args)
        return args

    def field(self, ptype, f, depth, frag_limit, root_sub=False):
        rng, s = self.rng, self.s
        t = named_of(f["type"])
        args = self.args_for(f)
        sel = {"k": "field", "name": f["name"], "args": args, "dirs": [] if root_sub else self.dirs("FIELD"),
               "sels": [], "ptype": ptype, "ftype": t}
        if f["name"] in self.bare_ok and rng.random() < 0.6:
            sel["alias"] = None
        else:
            sel["alias"] = "k_%s_%s_%d" % (ptype, f["name"], zlib.crc32(repr(args).encode()) % 100000)
        if is_composite(s, t):
            if depth >= self.max_depth:
                sel["sels"] = [self.typename()]
            else:
                sel["sels"] = self.selection_set(t, depth + 1, frag_limit)
        return sel

    def typename(self):
        return {"k": "field", "alias": None, "name": "__typename", "args": [], "dirs": [], "sels": [], "ptype": None,
                "ftype": "String"}

    def selection_set(self, tname, depth, frag_limit):
        rng, s = self.rng, self.s
        sels = []
        flds = execgen.fields_of(s, tname)
        for _ in range(rng.randrange(1, 4)):
            r = rng.random()
            if r < 0.55 and flds:
                sels.append(self.field(tname, rng.choice(flds), depth, frag_limit))
                if rng.random() < 0.12:
                    sels.append(copy.deepcopy(sels[-1]))                 # identical repeated field
            elif r < 0.63:
                sels.append(self.typename())
            elif r < 0.8:
                conds = [c for c, cd in s["types"].items() if is_composite(s, c) and c not in ROOTS
                         and set(possible(s, tname)) & set(possible(s, c))]
                if tname in ROOTS:
                    conds = [tname]
                if rng.random() < 0.25 or not conds:
                    sels.append({"k": "inline", "tc": None, "dirs": self.dirs("INLINE_FRAGMENT"),
                                 "sels": self.selection_set(tname, depth + 1, frag_limit)})
                else:
                    c = rng.choice(conds)
                    sels.append({"k": "inline", "tc": c, "dirs": self.dirs("INLINE_FRAGMENT"),
                                 "sels": self.selection_set(c, depth + 1, frag_limit)})
            else:
                cands = [fr for fr in self.frags[:frag_limit] if set(possible(s, tname)) & set(possible(s, fr["tc"]))]
                if cands:
                    fr = rng.choice(cands)
                    sels.append({"k": "spread", "name": fr["name"], "dirs": self.dirs("FRAGMENT_SPREAD")})
                    if rng.random() < 0.25:
                        sels.append({"k": "spread", "name": fr["name"], "dirs": []})     # spread twice
        if not sels:
            sels.append(self.typename())
        return sels

    def make_fragments(self, n):
        comps = [c for c in self.s["types"] if is_composite(self.s, c) and c not in ("Mutation", "Subscription")]
        for i in range(n):
            cond = self.rng.choice(comps)
            body = self.selection_set(cond, 2, i)
            self.frags.append({"name": "F%d" % i, "tc": cond, "dirs": self.dirs("FRAGMENT_DEFINITION"), "sels": body})

    def document(self, n_ops=None, kinds=None):
        rng, s = self.rng, self.s
        self.make_fragments(rng.randrange(0, 5))
        kinds_avail = ["query"] + (["mutation"] if s.get("mutation") else []) + (["subscription"] if s.get("subscription") else [])
        n_ops = n_ops or rng.choice([1, 1, 2, 3])
        ops = []
        for k in range(n_ops):
            kind = rng.choice(kinds or kinds_avail)
            root = {"query": "Query", "mutation": "Mutation", "subscription": "Subscription"}[kind]
            if kind == "subscription":
                f = rng.choice(execgen.fields_of(s, root))
                sel = self.field(root, f, 0, len(self.frags), root_sub=True)
                sels = [sel] + ([copy.deepcopy(sel)] if rng.random() < 0.2 else [])      # one response key
            else:
                sels = self.selection_set(root, 0, len(self.frags))
            ops.append({"kind": kind, "name": "Op%d" % k if (n_ops > 1 or rng.random() < 0.4) else None,
                        "vars": [], "dirs": self.dirs(kind.upper()), "sels": sels})
        doc = {"ops": ops, "frags": list(self.frags), "extra": ""}
        used = set()
        for o in ops:
            used |= reach_frags(doc, o["sels"])
        # fragments nobody reaches are attached to the first non-subscription-compatible place or dropped
        doc["frags"] = [f for f in doc["frags"] if f["name"] in used]
        rng.shuffle(doc["frags"])
        declare_variables(doc, self.var_types)
        return doc


def sharing_document(rng, s):
    """several named operations reaching a small DAG of fragments on the query root by different routes;
    only some fragments use variables (in @include/@skip/@tag arguments on __typename): variable
    bookkeeping across operations and shared sub-fragments"""
    root = s["query"]
    n = rng.randrange(3, 6)
    var_types = OrderedDict()
    for k in range(rng.randrange(1, 3)):
        var_types["b%d" % k] = (NN(N("Boolean")), None)
    if any(d["name"] == "tag" for d in s.get("directives", [])) and rng.random() < 0.5:
        var_types["n0"] = (N("Int"), None)
    frags = []
    for i in range(n):
        sels = []
        for j in range(i + 1, n):
            if rng.random() < 0.45:
                sels.append({"k": "spread", "name": "S%d" % j, "dirs": []})
                if rng.random() < 0.2:
                    sels.append({"k": "spread", "name": "S%d" % j, "dirs": []})
        if rng.random() < 0.5 or not sels:
            v = rng.choice(list(var_types))
            if v == "n0":
                d = {"name": "tag", "args": [("n", ("var", v))]}
            else:
                d = {"name": rng.choice(["include", "skip"]), "args": [("if", ("var", v))]}
            sels.append({"k": "field", "alias": "t%d" % i, "name": "__typename", "args": [], "dirs": [d], "sels": [],
                         "ptype": None, "ftype": "String"})
        rng.shuffle(sels)
        frags.append({"name": "S%d" % i, "tc": root, "dirs": [], "sels": sels})
    ops = []
    for k in range(rng.randrange(2, 4)):
        names = rng.sample([f["name"] for f in frags], rng.randrange(1, min(3, n) + 1))
        sels = [{"k": "spread", "name": x, "dirs": []} for x in names]
        if rng.random() < 0.3:
            sels.insert(rng.randrange(len(sels) + 1), {"k": "field", "alias": None, "name": "__typename", "args": [],
                                                       "dirs": [], "sels": [], "ptype": None, "ftype": "String"})
        ops.append({"kind": "query", "name": "Q%d" % k, "vars": [], "dirs": [], "sels": sels})
    doc = {"ops": ops, "frags": frags, "extra": ""}
    used = set()
    for o in ops:
        used |= reach_frags(doc, o["sels"])
    doc["frags"] = [f for f in frags if f["name"] in used]
    rng.shuffle(doc["frags"])
    if rng.random() < 0.5:
        doc["frags"].reverse()
    declare_variables(doc, var_types)
    return doc


def walk_sels(sels, fn, scope=None):
    for s_ in sels:
        fn(s_)
        if s_["k"] in ("field", "inline"):
            walk_sels(s_["sels"], fn)


def spreads_in(sels):
    out = []
    walk_sels(sels, lambda x: out.append(x["name"]) if x["k"] == "spread" else None)
    return out


def reach_frags(doc, sels):
    byname = {f["name"]: f for f in doc["frags"]}
    seen, todo = set(), list(spreads_in(sels))
    while todo:
        n = todo.pop()
        if n in seen or n not in byname:
            continue
        seen.add(n)
        todo += spreads_in(byname[n]["sels"])
    return seen


def vars_in_lit(v, acc):
    if v[0] == "var":
        acc.append(v[1])
    elif v[0] == "list":
        for i in v[1]:
            vars_in_lit(i, acc)
    elif v[0] == "obj":
        for _n, i in v[1]:
            vars_in_lit(i, acc)


def vars_in_dirs(dirs, acc):
    for d in dirs:
        for _n, v in d["args"]:
            vars_in_lit(v, acc)


def vars_in_sels(sels, acc):
    def fn(x):
        vars_in_dirs(x["dirs"], acc)
        if x["k"] == "field":
            for _n, v in x["args"]:
                vars_in_lit(v, acc)
    walk_sels(sels, fn)


def op_vars(doc, o):
    acc = []
    vars_in_dirs(o["dirs"], acc)
    vars_in_sels(o["sels"], acc)
    byname = {f["name"]: f for f in doc["frags"]}
    for n in sorted(reach_frags(doc, o["sels"])):
        vars_in_dirs(byname[n]["dirs"], acc)
        vars_in_sels(byname[n]["sels"], acc)
    out = []
    for v in acc:
        if v not in out:
            out.append(v)
    return out


def declare_variables(doc, var_types):
    for o in doc["ops"]:
        o["vars"] = [{"name": v, "type": var_types[v][0], "default": var_types[v][1]} for v in op_vars(doc, o)]


# ------------------------------------------------------------------ printing
def dirs_text(dirs):
    out = []
    for d in dirs:
        a = "(" + ", ".join("%s: %s" % (n, lit_sdl(v)) for n, v in d["args"]) + ")" if d["args"] else ""
        out.append("@%s%s" % (d["name"], a))
    return (" " + " ".join(out)) if out else ""


def sel_text(x):
    if x["k"] == "field":
        a = "(" + ", ".join("%s: %s" % (n, lit_sdl(v)) for n, v in x["args"]) + ")" if x["args"] else ""
        head = ("%s: " % x["alias"] if x.get("alias") else "") + x["name"] + a + dirs_text(x["dirs"])
        if x["sels"]:
            head += " { %s }" % " ".join(sel_text(y) for y in x["sels"])
        return head
    if x["k"] == "spread":
        return "...%s%s" % (x["name"], dirs_text(x["dirs"]))
    return "...%s%s { %s }" % (" on %s" % x["tc"] if x["tc"] else "", dirs_text(x["dirs"]),
                               " ".join(sel_text(y) for y in x["sels"]))


def doc_text(doc):
    parts = []
    for o in doc["ops"]:
        decl = ""
        if o["vars"]:
            decl = "(" + ", ".join("$%s: %s%s" % (v["name"], type_sdl(v["type"]),
                                                  " = " + lit_sdl(v["default"]) if v.get("default") is not None else "")
                                   for v in o["vars"]) + ")"
        if o["name"] is None and not decl and not o["dirs"] and o["kind"] == "query":
            head = ""
        else:
            head = "%s %s%s%s " % (o["kind"], o["name"] or "", decl, dirs_text(o["dirs"]))
        parts.append("%s{ %s }" % (head, " ".join(sel_text(x) for x in o["sels"])))
    for f in doc["frags"]:
        parts.append("fragment %s on %s%s { %s }" % (f["name"], f["tc"], dirs_text(f["dirs"]),
                                                     " ".join(sel_text(x) for x in f["sels"])))
    if doc.get("extra"):
        parts.append(doc["extra"])
    return "\n".join(parts)


def variables_for(rng, s, doc, opname):
    """runtime values for the variables of the selected operation"""
    out = {}
    for o in doc["ops"]:
        if o["name"] == opname or len(doc["ops"]) == 1:
            for v in o["vars"]:
                if v["type"][0] != "nonnull" and rng.random() < 0.2:
                    continue
                try:
                    out[v["name"]] = gen.gen_json(rng, s, v["type"], good=True)
                except ValueError:          # mutated declaration with an output type: any value
                    out[v["name"]] = None
    return out


# ------------------------------------------------------------------ violation catalogue
def all_sites(doc):
    """(selection list, index, node, scope type, owner) for every selection of the document"""
    out = []

    def rec(sels, scope, owner, s):
        for i, x in enumerate(sels):
            out.append((sels, i, x, scope, owner))
            if x["k"] == "field":
                inner = None
                if scope:
                    if x["name"] == "__typename":
                        inner = "String"
                    else:
                        for f in execgen.fields_of(s, scope) if scope in s["types"] else []:
                            if f["name"] == x["name"]:
                                inner = named_of(f["type"])
                rec(x["sels"], inner, owner, s)
            elif x["k"] == "inline":
                rec(x["sels"], x["tc"] or scope, owner, s)
    return out, rec


def sites(doc, s):
    out, rec = all_sites(doc)
    for o in doc["ops"]:
        root = {"query": s["query"], "mutation": s.get("mutation"), "subscription": s.get("subscription")}[o["kind"]]
        rec(o["sels"], root, ("op", o), s)
    for f in doc["frags"]:
        rec(f["sels"], f["tc"], ("frag", f), s)
    return out


def selsets(doc, s):
    """every selection set (list) with its scope and owner"""
    out = []
    for o in doc["ops"]:
        root = {"query": s["query"], "mutation": s.get("mutation"), "subscription": s.get("subscription")}[o["kind"]]
        out.append((o["sels"], root, ("op", o)))
    for f in doc["frags"]:
        out.append((f["sels"], f["tc"], ("frag", f)))
    for sels, i, x, scope, owner in sites(doc, s):
        if x["k"] == "field" and x["sels"]:
            inner = None
            for f in (execgen.fields_of(s, scope) if scope in s["types"] else []):
                if f["name"] == x["name"]:
                    inner = named_of(f["type"])
            out.append((x["sels"], inner, owner))
        elif x["k"] == "inline":
            out.append((x["sels"], x["tc"] or scope, owner))
    return out


def dir_holders(doc, s):
    """(holder dict with 'dirs', location name)"""
    out = [(o, o["kind"].upper()) for o in doc["ops"]] + [(f, "FRAGMENT_DEFINITION") for f in doc["frags"]]
    for _sels, _i, x, _scope, _owner in sites(doc, s):
        out.append((x, {"field": "FIELD", "spread": "FRAGMENT_SPREAD", "inline": "INLINE_FRAGMENT"}[x["k"]]))
    return out


def arg_holders(doc, s):
    """(args list, definitions list or None, description)"""
    out = []
    dd = {d["name"]: d for d in s.get("directives", [])}
    dd["skip"] = dd["include"] = {"args": [{"name": "if", "type": NN(N("Boolean")), "default": None}]}
    for h, _loc in dir_holders(doc, s):
        for d in h["dirs"]:
            out.append((d["args"], dd.get(d["name"], {}).get("args"), "directive @%s" % d["name"], d))
    for _sels, _i, x, scope, _owner in sites(doc, s):
        if x["k"] == "field":
            defs = None
            for f in (execgen.fields_of(s, scope) if scope in s["types"] else []):
                if f["name"] == x["name"]:
                    defs = f.get("args", [])
            out.append((x["args"], defs, "field %s.%s" % (scope, x["name"]), x))
    return out


def lit_positions(v, t, s, path=()):
    """(path, literal, expected type) for every sub-literal, path = indices / field names"""
    out = [(path, v, t)]
    tt = t
    while tt and tt[0] == "nonnull":
        tt = tt[1]
    if v[0] == "list":
        it = tt[1] if tt and tt[0] == "list" else tt
        for i, x in enumerate(v[1]):
            out += lit_positions(x, it, s, path + (i,))
    elif v[0] == "obj":
        d = s["types"].get(named_of(t)) if t else None
        for i, (n, x) in enumerate(v[1]):
            ft = None
            if d and d["kind"] == "INPUT":
                for f in d["fields"]:
                    if f["name"] == n:
                        ft = f["type"]
            out += lit_positions(x, ft, s, path + (i,))
    return out


def lit_replace(v, path, new):
    if not path:
        return new
    if v[0] == "list":
        items = list(v[1])
        items[path[0]] = lit_replace(items[path[0]], path[1:], new)
        return ("list", items)
    fields = list(v[1])
    fields[path[0]] = (fields[path[0]][0], lit_replace(fields[path[0]][1], path[1:], new))
    return ("obj", fields)


def wrong_literal(rng, s, t):
    """a literal that is NOT acceptable for type t (None if none is known)"""
    if t is None:
        return None
    if t[0] == "nonnull":
        return ("null",) if rng.random() < 0.4 else wrong_literal(rng, s, t[1])
    if t[0] == "list":
        inner = wrong_literal(rng, s, t[1])
        if inner is None:
            return None
        return ("list", [inner]) if rng.random() < 0.6 else inner if inner != ("null",) else None
    name = t[1]
    d = s["types"].get(name)
    if d is None or d["kind"] == "SCALAR":
        if name in gen.BUILTIN_SCALARS:
            v = gen.gen_scalar_literal(rng, name, False)
            return v
        return None
    if d["kind"] == "ENUM":
        return rng.choice([("enum", "NOPE_"), ("str", d["values"][0]), ("int", 1), ("bool", True)])
    return rng.choice([("int", 1), ("str", "x"), ("obj", [("zz_unknown", ("int", 1))]), ("bool", True)])


def mutants(rng, s, doc, limit_per_rule=6):
    """list of (rule tag, site description, mutated document)"""
    out = []

    def add(rule, where, fn):
        d2 = copy.deepcopy(doc)
        try:
            ok = fn(d2)
        except (IndexError, KeyError, ValueError):
            ok = False
        if ok is not False:
            out.append((rule, where, d2))

    def nth_site(d2, n):
        return sites(d2, s)[n]

    all_s = sites(doc, s)
    idx = list(range(len(all_s)))
    rng.shuffle(idx)
    field_idx = [i for i in idx if all_s[i][2]["k"] == "field"]
    named_ops = [i for i, o in enumerate(doc["ops"]) if o["name"]]

    # ---- operations
    if len(named_ops) >= 2:
        a, b = rng.sample(named_ops, 2)
        add("operation-name-uniqueness", "op %d renamed like op %d" % (a, b),
            lambda d: d["ops"][a].__setitem__("name", d["ops"][b]["name"]))
    if len(doc["ops"]) >= 2:
        k = rng.randrange(len(doc["ops"]))
        add("lone-anonymous-operation", "op %d made anonymous" % k, lambda d: d["ops"][k].__setitem__("name", None))
    else:
        add("lone-anonymous-operation", "extra anonymous operation appended",
            lambda d: d["ops"].append({"kind": "query", "name": None, "vars": [], "dirs": [],
                                       "sels": [{"k": "field", "alias": None, "name": "__typename", "args": [], "dirs": [], "sels": []}]}))
    subs = [i for i, o in enumerate(doc["ops"]) if o["kind"] == "subscription"]
    sub_root = s.get("subscription")
    for i in subs:
        flds = execgen.fields_of(s, sub_root)
        other = {"k": "field", "alias": "zz_second", "name": "__typename", "args": [], "dirs": [], "sels": []}
        add("single-root-field", "second root field on subscription op %d (position %d among subscriptions)" % (i, subs.index(i)),
            lambda d, i=i: d["ops"][i]["sels"].append(copy.deepcopy(other)))
        add("single-root-field", "second root field inside a root inline fragment, op %d" % i,
            lambda d, i=i: d["ops"][i].__setitem__("sels", [{"k": "inline", "tc": None, "dirs": [],
                                                             "sels": d["ops"][i]["sels"] + [copy.deepcopy(other)]}]))

    # ---- fields
    for n in field_idx[:limit_per_rule]:
        x = all_s[n][2]
        if x["name"].startswith("__"):
            continue
        add("field-selections-on-objects-interfaces-and-unions-types", "field %s renamed to nope_field (site %d)" % (x["name"], n),
            lambda d, n=n: nth_site(d, n)[2].update(name="nope_field", args=[]))
    for n in field_idx[:3]:
        add("field-selections-on-objects-interfaces-and-unions-types", "unknown meta-field __bogus added (site %d)" % n,
            lambda d, n=n: nth_site(d, n)[0].insert(nth_site(d, n)[1], {"k": "field", "alias": None, "name": "__bogus",
                                                                         "args": [], "dirs": [], "sels": []}))
    comp_fields = [n for n in field_idx if all_s[n][2]["sels"]]
    leaf_fields = [n for n in field_idx if not all_s[n][2]["sels"] and all_s[n][2]["name"] != "__typename"]
    for n in comp_fields[:limit_per_rule]:
        add("leaf-field-selections", "sub-selection of composite field dropped (site %d)" % n,
            lambda d, n=n: nth_site(d, n)[2].__setitem__("sels", []))
    for n in leaf_fields[:limit_per_rule]:
        add("leaf-field-selections", "sub-selection added to a leaf field (site %d)" % n,
            lambda d, n=n: nth_site(d, n)[2].__setitem__("sels", [{"k": "field", "alias": None, "name": "__typename",
                                                                   "args": [], "dirs": [], "sels": []}]))

    # ---- arguments (fields and directives)
    holders = arg_holders(doc, s)
    hidx = list(range(len(holders)))
    rng.shuffle(hidx)
    for h in hidx[:limit_per_rule]:
        add("argument-names", "unknown argument on %s" % holders[h][2],
            lambda d, h=h: arg_holders(d, s)[h][0].append(("zz_unknown", ("int", 1))))
    # an argument that only an IMPLEMENTATION of the interface declares, on the field selected through the interface
    n_impl = 0
    for h in hidx:
        _args, defs, desc, node = holders[h]
        if not desc.startswith("field ") or defs is None or n_impl >= limit_per_rule:
            continue
        scope = desc[len("field "):].rsplit(".", 1)[0]
        if s["types"].get(scope, {}).get("kind") != "INTERFACE":
            continue
        known = {a["name"] for a in defs}
        extra = [a["name"] for tn, d in s["types"].items() if d["kind"] == "OBJECT" and scope in d.get("interfaces", [])
                 for f in d["fields"] if f["name"] == node["name"] for a in f.get("args", []) if a["name"] not in known]
        if extra:
            n_impl += 1
            add("argument-names", "argument %s of an implementation used on %s" % (extra[0], desc),
                lambda d, h=h, nm=extra[0]: arg_holders(d, s)[h][0].append((nm, ("null",))))
    for h in [h for h in hidx if holders[h][0]][:limit_per_rule]:
        add("argument-uniqueness", "argument duplicated on %s" % holders[h][2],
            lambda d, h=h: arg_holders(d, s)[h][0].append(copy.deepcopy(arg_holders(d, s)[h][0][0])))
    for h in hidx:
        args, defs, desc, _node = holders[h]
        if not defs:
            continue
        req = [a["name"] for a in defs if a["type"][0] == "nonnull" and a.get("default") is None]
        present = [n for n, _v in args if n in req]
        if present:
            add("required-arguments", "required argument %s removed from %s" % (present[0], desc),
                lambda d, h=h, nm=present[0]: arg_holders(d, s)[h][0].__setitem__(
                    slice(None), [(n, v) for n, v in arg_holders(d, s)[h][0] if n != nm]))
    # ---- values
    nval = 0
    for h in hidx:
        args, defs, desc, _node = holders[h]
        if not defs or nval > limit_per_rule * 3:
            continue
        for ai, (an, av) in enumerate(args):
            at = next((a["type"] for a in defs if a["name"] == an), None)
            if at is None:
                continue
            for path, sub, t in lit_positions(av, at, s):
                if sub[0] == "var" or t is None:
                    continue
                w = wrong_literal(rng, s, t)
                if w is None:
                    continue
                nval += 1
                add("values-of-correct-type", "wrong literal %s at %s of argument %s on %s" % (lit_sdl(w), list(path), an, desc),
                    lambda d, h=h, ai=ai, path=path, w=w: arg_holders(d, s)[h][0].__setitem__(
                        ai, (arg_holders(d, s)[h][0][ai][0], lit_replace(arg_holders(d, s)[h][0][ai][1], path, w))))
                if sub[0] == "obj" and sub[1]:
                    add("input-object-field-uniqueness", "input field duplicated at %s of argument %s on %s" % (list(path), an, desc),
                        lambda d, h=h, ai=ai, path=path, sub=sub: arg_holders(d, s)[h][0].__setitem__(
                            ai, (arg_holders(d, s)[h][0][ai][0],
                                 lit_replace(arg_holders(d, s)[h][0][ai][1], path, ("obj", list(sub[1]) + [sub[1][0]])))))
                    dd = s["types"].get(named_of(t))
                    if dd and dd["kind"] == "INPUT":
                        add("values-of-correct-type", "unknown input field at %s of argument %s on %s" % (list(path), an, desc),
                            lambda d, h=h, ai=ai, path=path, sub=sub: arg_holders(d, s)[h][0].__setitem__(
                                ai, (arg_holders(d, s)[h][0][ai][0],
                                     lit_replace(arg_holders(d, s)[h][0][ai][1], path, ("obj", list(sub[1]) + [("zz_unknown", ("int", 1))])))))
                        reqf = [f["name"] for f in dd["fields"] if f["type"][0] == "nonnull" and f.get("default") is None]
                        pres = [n for n, _v in sub[1] if n in reqf]
                        if pres:
                            add("values-of-correct-type", "required input field %s removed at %s of argument %s on %s" % (pres[0], list(path), an, desc),
                                lambda d, h=h, ai=ai, path=path, sub=sub, nm=pres[0]: arg_holders(d, s)[h][0].__setitem__(
                                    ai, (arg_holders(d, s)[h][0][ai][0],
                                         lit_replace(arg_holders(d, s)[h][0][ai][1], path, ("obj", [(n, v) for n, v in sub[1] if n != nm])))))
    # variable defaults holding object literals
    for oi, o in enumerate(doc["ops"]):
        for vi, v in enumerate(o["vars"]):
            if v.get("default") is not None:
                for path, sub, t in lit_positions(v["default"], v["type"], s):
                    if sub[0] == "obj" and sub[1]:
                        add("input-object-field-uniqueness", "input field duplicated in the default of $%s" % v["name"],
                            lambda d, oi=oi, vi=vi, path=path, sub=sub: d["ops"][oi]["vars"][vi].__setitem__(
                                "default", lit_replace(d["ops"][oi]["vars"][vi]["default"], path, ("obj", list(sub[1]) + [sub[1][0]]))))

    # ---- fragments
    if doc["frags"]:
        k = rng.randrange(len(doc["frags"]))
        add("fragment-name-uniqueness", "fragment %s defined twice" % doc["frags"][k]["name"],
            lambda d: d["frags"].append(copy.deepcopy(d["frags"][k])))
        add("fragment-spread-type-existence", "type condition of fragment %s -> Nope" % doc["frags"][k]["name"],
            lambda d: d["frags"][k].__setitem__("tc", "Nope_Type"))
        add("fragments-on-composite-types", "type condition of fragment %s -> Int" % doc["frags"][k]["name"],
            lambda d: d["frags"][k].__setitem__("tc", "Int"))
        add("fragments-on-composite-types", "type condition of fragment %s -> input object" % doc["frags"][k]["name"],
            lambda d: d["frags"][k].__setitem__("tc", "In0"))
    inl = [n for n in idx if all_s[n][2]["k"] == "inline" and all_s[n][2]["tc"]]
    for n in inl[:3]:
        add("fragment-spread-type-existence", "inline type condition -> Nope (site %d)" % n,
            lambda d, n=n: nth_site(d, n)[2].__setitem__("tc", "Nope_Type"))
        add("fragments-on-composite-types", "inline type condition -> String (site %d)" % n,
            lambda d, n=n: nth_site(d, n)[2].__setitem__("tc", "String"))
    add("fragment-must-be-used", "unused fragment appended",
        lambda d: d["frags"].append({"name": "ZZUnused", "tc": s["query"], "dirs": [],
                                     "sels": [{"k": "field", "alias": None, "name": "__typename", "args": [], "dirs": [], "sels": []}]}))
    ss = selsets(doc, s)
    sidx = list(range(len(ss)))
    rng.shuffle(sidx)
    for n in sidx[:limit_per_rule]:
        add("fragment-spread-target-defined", "spread of an undefined fragment (selection set %d, in %s)" % (n, ss[n][2][0]),
            lambda d, n=n: selsets(d, s)[n][0].append({"k": "spread", "name": "ZZMissing", "dirs": []}))
    # cycles: a back edge from a fragment to itself or to a fragment that reaches it
    byname = {f["name"]: f for f in doc["frags"]}
    ncyc = 0
    for n in sidx:
        sels, scope, owner = ss[n]
        if owner[0] != "frag" or ncyc >= limit_per_rule:
            continue
        fname = owner[1]["name"]
        ancestors = [g["name"] for g in doc["frags"] if fname in reach_frags(doc, g["sels"])] + [fname]
        target = rng.choice(ancestors)
        ncyc += 1
        add("fragment-spreads-must-not-form-cycles", "back edge %s -> %s (selection set %d)" % (fname, target, n),
            lambda d, n=n, target=target: selsets(d, s)[n][0].append({"k": "spread", "name": target, "dirs": []}))
    # impossible spreads
    comps = [c for c in s["types"] if is_composite(s, c)]
    nimp = 0
    for n in sidx:
        sels, scope, owner = ss[n]
        if not scope or scope not in s["types"] or not is_composite(s, scope) or nimp >= limit_per_rule:
            continue
        disjoint = [c for c in comps if not (set(possible(s, c)) & set(possible(s, scope)))]
        if not disjoint:
            continue
        c = rng.choice(disjoint)
        nimp += 1
        add("fragment-spread-is-possible", "inline fragment on %s in scope %s (selection set %d)" % (c, scope, n),
            lambda d, n=n, c=c: selsets(d, s)[n][0].append({"k": "inline", "tc": c, "dirs": [], "sels": [
                {"k": "field", "alias": None, "name": "__typename", "args": [], "dirs": [], "sels": []}]}))

        def named(d, n=n, c=c):
            d["frags"].append({"name": "ZZImp", "tc": c, "dirs": [], "sels": [
                {"k": "field", "alias": None, "name": "__typename", "args": [], "dirs": [], "sels": []}]})
            selsets(d, s)[n][0].append({"k": "spread", "name": "ZZImp", "dirs": []})
        add("fragment-spread-is-possible", "named fragment on %s spread in scope %s (selection set %d)" % (c, scope, n), named)

    if "UD0" in s["types"] and "UD1" in s["types"]:
        tn = {"k": "field", "alias": None, "name": "__typename", "args": [], "dirs": [], "sels": []}
        qops = [i for i, o in enumerate(doc["ops"]) if o["kind"] == "query"]
        if qops:
            i0 = qops[0]

            def abs_named(d):
                d["frags"].append({"name": "ZZImpAbs", "tc": "UD1", "dirs": [], "sels": [dict(tn)]})
                d["ops"][i0]["sels"].append({"k": "field", "alias": "zzud", "name": "qud0", "args": [], "dirs": [],
                                            "sels": [{"k": "spread", "name": "ZZImpAbs", "dirs": []}]})
            add("fragment-spread-is-possible", "named fragment on union UD1 spread below a field of the disjoint union UD0", abs_named)

            def abs_inline(d):
                d["ops"][i0]["sels"].append({"k": "field", "alias": "zzud", "name": "qud1", "args": [], "dirs": [],
                                            "sels": [dict(tn), {"k": "inline", "tc": "UD0", "dirs": [], "sels": [dict(tn)]}]})
            add("fragment-spread-is-possible", "inline fragment on union UD0 below a field of the disjoint union UD1", abs_inline)

            def abs_nested(d):
                d["frags"].append({"name": "ZZOuter", "tc": "UD0", "dirs": [], "sels": [dict(tn), {"k": "spread", "name": "ZZInner", "dirs": []}]})
                d["frags"].append({"name": "ZZInner", "tc": "UD1", "dirs": [], "sels": [dict(tn)]})
                d["ops"][i0]["sels"].append({"k": "field", "alias": "zzud", "name": "qud0", "args": [], "dirs": [],
                                            "sels": [{"k": "spread", "name": "ZZOuter", "dirs": []}]})
            add("fragment-spread-is-possible", "fragment on UD1 spread inside a fragment on the disjoint union UD0", abs_nested)
    # ---- directives
    dh = dir_holders(doc, s)
    didx = list(range(len(dh)))
    rng.shuffle(didx)
    for n in didx[:limit_per_rule]:
        add("directives-are-defined", "unknown directive at %s (holder %d)" % (dh[n][1], n),
            lambda d, n=n: dir_holders(d, s)[n][0]["dirs"].append({"name": "zz_nope", "args": []}))
    for n in didx[:limit_per_rule * 2]:
        loc = dh[n][1]
        bad = [d_ for d_ in s.get("directives", []) if loc not in d_["locations"]]
        cand = [{"name": d_["name"], "args": [(a["name"], ("int", 1)) for a in d_["args"] if a["type"][0] == "nonnull"]} for d_ in bad]
        if loc in ("QUERY", "MUTATION", "SUBSCRIPTION", "FRAGMENT_DEFINITION"):
            cand.append({"name": "skip", "args": [("if", ("bool", False))]})
        cand.append({"name": "deprecated", "args": []})
        c = rng.choice(cand)
        add("directives-are-in-valid-locations", "@%s at %s (holder %d)" % (c["name"], loc, n),
            lambda d, n=n, c=c: dir_holders(d, s)[n][0]["dirs"].append(copy.deepcopy(c)))
    for n in [n for n in didx if dh[n][0]["dirs"]][:limit_per_rule]:
        add("directives-are-unique-per-location", "directive repeated at %s (holder %d)" % (dh[n][1], n),
            lambda d, n=n: dir_holders(d, s)[n][0]["dirs"].append(copy.deepcopy(dir_holders(d, s)[n][0]["dirs"][0])))

    # ---- variables
    for oi, o in enumerate(doc["ops"]):
        if o["vars"]:
            add("variable-uniqueness", "variable $%s declared twice on op %d" % (o["vars"][0]["name"], oi),
                lambda d, oi=oi: d["ops"][oi]["vars"].append(copy.deepcopy(d["ops"][oi]["vars"][0])))
            vi = rng.randrange(len(o["vars"]))
            objs = [t for t, td in s["types"].items() if td["kind"] in ("OBJECT", "INTERFACE", "UNION")]
            add("variables-are-input-types", "type of $%s -> output type" % o["vars"][vi]["name"],
                lambda d, oi=oi, vi=vi: d["ops"][oi]["vars"][vi].update(type=N(rng.choice(objs)), default=None))
            add("all-variable-uses-defined", "declaration of $%s removed from op %d" % (o["vars"][vi]["name"], oi),
                lambda d, oi=oi, vi=vi: d["ops"][oi]["vars"].pop(vi))
            # incompatible declared type
            v = o["vars"][vi]
            t = v["type"]
            base = named_of(t)
            other = "String" if base != "String" else "Int"
            variants = [("named type %s -> %s" % (base, other), _rename_named(t, other))]
            variants.append(("wrapped in a list", L(t)))
            if t[0] == "list" or (t[0] == "nonnull" and t[1][0] == "list"):
                variants.append(("list removed", N(base)))
            for what, nt in variants:
                add("all-variable-usages-are-allowed", "declared type of $%s: %s (op %d)" % (v["name"], what, oi),
                    lambda d, oi=oi, vi=vi, nt=nt: d["ops"][oi]["vars"][vi].update(type=nt, default=None))
        add("all-variables-used", "unused variable declared on op %d" % oi,
            lambda d, oi=oi: d["ops"][oi]["vars"].append({"name": "zz_unused", "type": N("Int"), "default": None}))
    nund = 0
    for h in hidx:
        args, defs, desc, _node = holders[h]
        if not defs or nund >= limit_per_rule:
            continue
        free = [a for a in defs if a["name"] not in [n for n, _v in args]]
        if free:
            nund += 1
            a = free[0]
            add("all-variable-uses-defined", "undefined variable as argument %s on %s" % (a["name"], desc),
                lambda d, h=h, a=a: arg_holders(d, s)[h][0].append((a["name"], ("var", "zz_undefined"))))
        for ai, (an, av) in enumerate(args):
            at = next((a_["type"] for a_ in defs if a_["name"] == an), None)
            for path, sub, t in lit_positions(av, at, s):
                if path and sub[0] not in ("var",) and t is not None:
                    add("all-variable-uses-defined", "undefined variable nested at %s of argument %s on %s" % (list(path), an, desc),
                        lambda d, h=h, ai=ai, path=path: arg_holders(d, s)[h][0].__setitem__(
                            ai, (arg_holders(d, s)[h][0][ai][0], lit_replace(arg_holders(d, s)[h][0][ai][1], path, ("var", "zz_undefined")))))
                    break
    add("executable-definitions", "type definition appended to the document",
        lambda d: d.__setitem__("extra", "type ZZFoo { a: Int }"))
    return out


def _rename_named(t, name):
    if t[0] == "named":
        return N(name)
    return (t[0], _rename_named(t[1], name))
