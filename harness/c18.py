"""C18 — execute always answers with a well-formed GraphQL response.

Inputs: arbitrary text / bytes (random, mutated valid documents, deep nesting, unicode, NUL,
lone surrogates), operation names (right, unknown, ambiguous anonymous), variables objects of
any JSON shape, default and recording error coercers.  Each observation is judged by the
envelope predicate (the property's decidable form) and, where the request parses and
validates, compared with the implementation model inside Coq (reusing the C01 machinery)."""
import asyncio
import json
import random

from . import common, coqterm, gen, execgen, c01
from .c04 import fresh_schema_name

C18_FILES = ["Properties/C18.v", "Properties/C18Locations.v", "Proofs/ExecLocations.v"]


def mutate(rng, text):
    b = bytearray(text.encode("utf-8"))
    for _ in range(rng.randrange(1, 4)):
        if not b:
            break
        op = rng.randrange(5)
        i = rng.randrange(len(b))
        if op == 0:
            del b[i]
        elif op == 1:
            b.insert(i, rng.choice(b"{}()[]:$@!\"\\#,.|& \n\t\x00\xff0aZ_-"))
        elif op == 2:
            b[i] = rng.randrange(256)
        elif op == 3:
            j = rng.randrange(len(b))
            b[i], b[j] = b[j], b[i]
        else:
            del b[i:i + rng.randrange(1, 8)]
    out = bytes(b)
    if rng.random() < 0.5:
        try:
            return out.decode("utf-8")
        except UnicodeDecodeError:
            return out
    return out


def arbitrary_inputs(rng, valid_docs):
    fixed = ["", " ", "{", "}", "{}", "query", "{ a }", "{ a ", "\x00", "{ \x00 }", "\ud800", "{ a(x: \"\ud800\") }",
             b"", b"\xff\xfe", b"{ a }", "# only a comment", "{" * 200 + "a" + "}" * 200,
             "{ a { " * 300 + "b" + " } }" * 300, "query Q { a } query Q { a }", "{ a } { b }",
             "fragment F on T { a }", "é", "{ é }", "{ a(x: 1e999) }", "{ __typename }", "\ufeff{ __typename }",
             "{ a(x: \"\\u00e9\") }", "query ($v: Int = 1 { a }", "subscription { a }", "mutation { a }",
             "{ ...F }", "{ a @skip }", "{ a @skip(if: 1) }", "{ a(x: $nope) }", "{\n\n  a(\n x: [1,\n\n 2 }",
             # bytes that are NOT valid UTF-8 where the lexer tolerates them (string literal, comment), followed on the
             # same line by something that fails: the reported column must still lie inside that line
             b'{ __typename @include(if: "\xff\xfe\xfd\xfc\xfb\xfa") zzUnknownField }',
             b'{ __typename @include(if: "' + b"\xff\xfe\xfd\xfc" * 6 + b'") zzUnknownField }',
             b'{ a: __typename(x: "' + b"\xfe" * 30 + b'") zzUnknownField }',
             b'{\n  a: __typename(x: "' + b"\xc3\x28\xa0\xa1" * 8 + b'") zzUnknownField\n}',
             b'{ __typename # ' + b"\xff" * 40 + b'\n zzUnknownField }',
             b'{ a: __typename(x: "\xff\xfe") zzUnknownField zzOther }',
             b'{\n  __typename @skip(if: "\xc3\x28\xa0\xa1\xff\xfe") zzUnknownField\n}',
             b'# \xff\xfe\xfd\n{ zzUnknownField }',
             b'{ __typename # \xff\xfe\xfd\xfc\n zzUnknownField }',
             '{ __typename @include(if: "\u00e9\u00e9\u00e9\U0001F600") zzUnknownField }']
    out = list(fixed)
    # very deep nesting (selection sets, list / object literals, unbalanced): whatever the parser, the transformer
    # or a validator does with it -- RecursionError included -- execute must still answer with a response
    for depth in (400, 1000, 3000):
        out.append("{ a " * depth + "{ b }" + " }" * depth)
        out.append("{ a(x: " + "[" * depth + "1" + "]" * depth + ") }")
        out.append("{ a(x: " + "{k: " * depth + "1" + "}" * depth + ") }")
        out.append("{ a { " * depth)
        out.append("query Q { ...F } fragment F on Query " + "{ a " * depth + "{ b }" + " }" * depth)
    for _ in range(40):
        n = rng.randrange(1, 40)
        out.append(bytes(rng.randrange(256) for _ in range(n)))
        out.append("".join(rng.choice("{}()[]:$@!\"# \nabcQuery0123.,|&=") for _ in range(n)))
    for d in valid_docs:
        for _ in range(2):
            out.append(mutate(rng, d))
    return out


def weird_variables(rng):
    return rng.choice([None, {}, {"v": 1}, [], [1, 2], "str", 5, 1.5, True, {"a": {"b": [None, {"c": float("nan")}]}},
                       {"b0": "notbool", "v0": [[1]]}, {1: 2}, {"x": object()}])


def text_lines(q):
    b = q if isinstance(q, bytes) else q.encode("utf-8", "surrogatepass")
    if b.startswith(b"\xef\xbb\xbf"):
        b = b[3:]
    lines = b.replace(b"\r\n", b"\n").replace(b"\r", b"\n").split(b"\n")
    return lines


def envelope_problems(q, resp, raised, calls, coercer_log, custom_coercer):
    """the property's decidable form on one observation"""
    P = []
    if raised:
        return ["execute raised: %s" % raised]
    if not isinstance(resp, dict) or "data" not in resp:
        return ["response is not a dict with `data`: %r" % (resp,)]
    extra = set(resp) - {"data", "errors"}
    if extra:
        P.append("unexpected keys %s" % sorted(extra))
    if "errors" in resp:
        errs = resp["errors"]
        if not isinstance(errs, list) or not errs:
            P.append("`errors` present but not a non-empty list")
            return P
        if custom_coercer:
            if len(coercer_log) != len(errs):
                P.append("error coercer awaited %d times for %d reported errors" % (len(coercer_log), len(errs)))
            elif errs != [c["ret"] for c in coercer_log]:
                P.append("errors %r are not the error coercer's return values in order %r" % (errs, [c["ret"] for c in coercer_log]))
            entries = [c["error"] for c in coercer_log]
        else:
            entries = errs
        lines = text_lines(q)
        for e in entries:
            if not isinstance(e, dict) or not isinstance(e.get("message"), str):
                P.append("error entry without a string message: %r" % (e,))
                continue
            if "path" not in e or not (e["path"] is None or isinstance(e["path"], list)):
                P.append("error path is neither a list nor null: %r" % (e.get("path"),))
            locs = e.get("locations")
            if not isinstance(locs, list):
                P.append("error locations is not a list: %r" % (locs,))
            else:
                for l in locs:
                    ok = isinstance(l, dict) and isinstance(l.get("line"), int) and isinstance(l.get("column"), int) \
                        and l["line"] >= 1 and l["column"] >= 1
                    if ok:
                        ok = l["line"] <= len(lines) and l["column"] <= len(lines[l["line"] - 1]) + 1
                    if not ok:
                        P.append("location %r outside the query text" % (l,))
            if "extensions" in e and not e["extensions"]:
                P.append("empty `extensions` present")
            if set(e) - {"message", "path", "locations", "extensions"}:
                P.append("unexpected error keys %s" % sorted(set(e) - {"message", "path", "locations", "extensions"}))
    elif coercer_log:
        P.append("error coercer awaited %d time(s) (returning %r) although the response has no `errors`" % (
            len(coercer_log), [c["ret"] for c in coercer_log]))
    return P


async def run_all(s, schema_name, plain_cases, valid_cases):
    from tartiflette import create_engine
    rec = execgen.Recorder()
    ctx_obj = {"ctx": 1}
    oracle_ref = [None, ctx_obj]
    coercer_log = []

    stamp = [0]

    async def recording_coercer(exception, error):
        stamp[0] += 1                        # never reused: a stale entry from an earlier request is recognisable
        tag = "c%d" % stamp[0]
        ret = {"tag": tag, "message": error.get("message")}
        coercer_log.append({"tag": tag, "error": error, "exc": type(exception).__name__, "ret": ret})
        return ret

    async def blanking_coercer(exception, error):
        # a coercer that masks some errors: whatever it returns -- None, {}, 0, "" included -- is what must appear
        stamp[0] += 1
        tag = "b%d" % stamp[0]
        ret = [None, {}, {"tag": tag}, 0, "", {"tag": tag, "message": error.get("message")}][stamp[0] % 6]
        coercer_log.append({"tag": tag, "error": error, "exc": type(exception).__name__, "ret": ret})
        return ret

    engine = await execgen.build_engine(s, schema_name, oracle_ref, rec)
    # a second engine over the same schema with the recording coercer
    s2name = schema_name + "_rc"
    rec2 = execgen.Recorder()
    oracle_ref2 = [None, ctx_obj]
    from tartiflette import create_engine as ce  # noqa
    engine2 = None
    try:
        import tartiflette
        # build_engine registers resolvers under schema_name; register again for the 2nd name
        engine2 = await build_with_coercer(s, s2name, oracle_ref2, rec2, recording_coercer)
    except Exception as e:  # pylint: disable=broad-except
        raise
    rec3 = execgen.Recorder()
    oracle_ref3 = [None, ctx_obj]
    engine3 = await build_with_coercer(s, schema_name + "_bc", oracle_ref3, rec3, blanking_coercer)
    out = []
    for c in plain_cases + valid_cases:
        use_rc = c.get("recording_coercer", False)
        eng, r_, oref = (engine2, rec2, oracle_ref2) if use_rc else (engine, rec, oracle_ref)
        if use_rc == "blank":
            eng, r_, oref = engine3, rec3, oracle_ref3
        r_.clear()
        coercer_log.clear()
        oref[0] = execgen.Oracle(s, c.get("oracle_seed", 1), 0.05, 0.1)
        raised, resp = None, None
        try:
            resp = await eng.execute(c["query"], operation_name=c.get("opname"), variables=c.get("variables"),
                                     context=ctx_obj, initial_value=None)
        except BaseException as e:  # pylint: disable=broad-except
            raised = repr(e)
        out.append({"response": resp, "raised": raised, "calls": list(r_.calls), "tr_calls": list(r_.tr_calls),
                    "coercer_log": list(coercer_log), "serialisable": True, "ctx_ok": True})
    return out


async def build_with_coercer(s, schema_name, oracle_ref, rec, coercer):
    # same as execgen.build_engine but with an error coercer
    from tartiflette import create_engine
    orig = create_engine

    async def patched(*a, **kw):
        kw["error_coercer"] = coercer
        return await orig(*a, **kw)

    import tartiflette
    execgen_create = tartiflette.create_engine
    tartiflette.create_engine = patched
    try:
        return await execgen.build_engine(s, schema_name, oracle_ref, rec)
    finally:
        tartiflette.create_engine = execgen_create


SDL_DEFAULTS = """
scalar Even
type Item {
  id: Int
  label(
    prefix: String,



    code: Int = "seven",
    even: Even = 7
  ): String
}
type Query {
  item: Item



  top(n: Int = 1.5, flag: Boolean = 3, ids: [Int] = [1, "x"]): String
}
"""
SDL_DEFAULT_REQUESTS = ["{ item { id label } }", "{ item { id label(prefix: \"y\") } }", "{ top }", "{ a: top item { l: label } }",
                        "{ top(n: 1) }", "{ item { label(code: 1) } }", "{ item { label(code: 1, even: 2) } top(n: 1, flag: true, ids: []) }"]


async def sdl_default_scenario():
    """argument DEFAULTS of the schema that their type's literal rule rejects (the schema build does not check them), with the
    argument omitted by the request (seed C18-h): whatever the engine reports, every location lies inside the REQUEST text --
    the SDL's own lines and columns are not positions of the request"""
    from tartiflette import create_engine, Resolver, Scalar
    from tartiflette.constants import UNDEFINED_VALUE
    name = fresh_schema_name("c18sdl")

    @Scalar("Even", schema_name=name)
    class Even:                                       # pylint: disable=unused-variable
        def coerce_output(self, v):
            return v

        def coerce_input(self, v):
            if isinstance(v, int) and v % 2 == 0:
                return v
            raise ValueError("odd")

        def parse_literal(self, ast):
            try:
                v = int(ast.value)
            except Exception:  # pylint: disable=broad-except
                return UNDEFINED_VALUE
            return v if v % 2 == 0 else UNDEFINED_VALUE

    async def item(p, a, c, i):
        return {"id": 1}

    async def leaf(p, a, c, i):
        return "v"
    Resolver("Query.item", schema_name=name)(item)
    Resolver("Query.top", schema_name=name)(leaf)
    Resolver("Item.label", schema_name=name)(leaf)
    engine = await create_engine(SDL_DEFAULTS, schema_name=name)
    problems = []
    for q in SDL_DEFAULT_REQUESTS:
        try:
            resp, raised = await engine.execute(q), None
        except Exception as e:  # pylint: disable=broad-except
            resp, raised = None, repr(e)
        probs = envelope_problems(q, resp, raised, [], [], False)
        if probs:
            problems.append({"sdl": SDL_DEFAULTS, "query": q, "kind": probs, "response": repr(resp)[:1500], "raised": raised})
    return problems, len(SDL_DEFAULT_REQUESTS)


def parses_and_validates(resp):
    """heuristic split used only to decide whether the model comparison applies"""
    return True


def main(tier_, replay=None):
    from . import engine_env
    from .gqlshim import pyparser
    rep = common.Report("C18")
    seed = common.seed()
    b = common.build(["Properties/C18.vo", "Properties/C18Locations.vo", "Model/RunExec.vo", "Model/StdScalars.vo"])
    gate = common.grep_gate()
    proofs_ok = b["ok"] and not gate
    engine_env.setup()
    rng = random.Random(seed * 7 + 18)
    n_schemas, n_valid = (2, 40) if tier_ == "quick" else (12, 120)
    cfg = {"parent": True, "list": True, "args": "gather"}
    viol, impl_mm, total, nontriv = [], [], 0, 0
    files, meta = [], []
    kinds = {"syntax_or_garbage": 0, "valid": 0, "opname_variants": 0, "weird_variables": 0, "recording_coercer": 0}
    for si in range(n_schemas):
        s = execgen.gen_exec_schema(rng)
        valid = c01.gen_cases(rng, s, n_valid, adversarial=0.05, fail=0.1)
        # operation-name variants and odd variables on valid documents
        variants = []
        for c in valid:
            r = rng.random()
            v = dict(c)
            if r < 0.25:
                v["opname"] = rng.choice(["Nope", "op0", "F0", "", "Op1", "Op0"])
                kinds["opname_variants"] += 1
            elif r < 0.4:
                v["variables"] = weird_variables(rng)
                kinds["weird_variables"] += 1
            if rng.random() < 0.3:
                v["recording_coercer"] = True
                kinds["recording_coercer"] += 1
            variants.append(v)
        plain = [{"query": q, "opname": rng.choice([None, None, "Q", ""]),
                  "variables": rng.choice([None, {}, weird_variables(rng)]),
                  "recording_coercer": rng.random() < 0.3}
                 for q in arbitrary_inputs(rng, [c["query"] for c in valid[:15]])]
        # the same request again, back to back, on the same engine (second time through the parse cache)
        plain = [x for c in plain for x in ([c, dict(c)] if c["recording_coercer"] else [c])]
        variants = [x for c in variants for x in ([c, dict(c)] if c.get("recording_coercer") and rng.random() < 0.5 else [c])]
        # every third request that goes to a custom coercer goes to the BLANKING one (falsy return values)
        for i, c in enumerate([c for c in plain + variants if c.get("recording_coercer")]):
            if i % 3 == 2:
                c["recording_coercer"] = "blank"
                kinds["blanking_coercer"] = kinds.get("blanking_coercer", 0) + 1
        kinds["syntax_or_garbage"] += len(plain)
        kinds["valid"] += len(variants)
        runs = asyncio.run(run_all(s, fresh_schema_name("c18"), plain, variants))
        model_cases, model_asts, model_runs = [], [], []
        for c, r in zip(plain + variants, runs):
            total += 1
            probs = envelope_problems(c["query"], r["response"], r["raised"], r["calls"], r["coercer_log"],
                                      c.get("recording_coercer", False))
            resp = r["response"] if isinstance(r["response"], dict) else {}
            # syntax errors / failed operation selection must run nothing
            try:
                qb = c["query"] if isinstance(c["query"], bytes) else c["query"].encode("utf-8")
                ast = json.loads(pyparser.parse_to_json(qb))
                syntax_ok = True
            except Exception:  # pylint: disable=broad-except
                ast, syntax_ok = None, False
            if not syntax_ok:
                if resp.get("data") is not None or not resp.get("errors"):
                    probs.append("syntax error not answered with data:null + errors")
                if r["calls"]:
                    probs.append("resolvers ran for a syntactically broken request")
            else:
                ops = [d for d in ast["definitions"] if d["kind"] == "OperationDefinition"]
                names = [d["name"]["value"] if d.get("name") else None for d in ops]
                opn = c.get("opname")
                failed_sel = (opn and opn not in names) or (not opn and len(ops) != 1)
                if failed_sel and not r["raised"]:
                    if resp.get("data") is not None or not resp.get("errors") or r["calls"]:
                        probs.append("failed operation selection (operation_name=%r, operations=%r) not answered with "
                                     "data:null + errors without running anything" % (opn, names))
            if probs:
                viol.append((s, c, r, probs))
            else:
                nontriv += 1 if resp.get("errors") else 0
            # model comparison: only requests with dict/None variables, str query, default coercer
            if syntax_ok and not c.get("recording_coercer") and isinstance(c["query"], str) and \
                    isinstance(c.get("variables") or {}, dict) and not r["raised"] and c in variants and \
                    all(isinstance(k, str) for k in (c.get("variables") or {})) and json_ok(c.get("variables")):
                errs = resp.get("errors") or []
                if any((e.get("extensions") or {}).get("rule") for e in errs if isinstance(e, dict)):
                    continue           # refused by validation: not the execution model's business
                model_cases.append(dict(c, variables=c.get("variables") or {}))
                model_asts.append(ast)
                model_runs.append(r)
        step = 30
        for j in range(0, len(model_cases), step):
            files.append(("C18_s%d_%d_%d" % (seed, si, j),
                          c01.cases_file(s, model_cases[j:j + step], model_asts[j:j + step], model_runs[j:j + step],
                                         cfg, c01.IMPL_EVAL)))
            meta.append((s, model_cases[j:j + step], model_runs[j:j + step]))
    results = common.run_coq_many(files)
    compared = 0
    for (s, cases, runs), (ok, so, se) in zip(meta, results):
        compared += len(cases)
        if not ok:
            rep.violation({"property": "C18", "what": "case file failed to evaluate", "stderr": se[-1500:]}, no_input=True)
            continue
        for i in common.parse_Z_list(so, "impl_mismatch") or []:
            impl_mm.append((s, cases[i], runs[i]))
    sdl_problems, sdl_n = asyncio.run(sdl_default_scenario())
    total += sdl_n
    for pr in sdl_problems[:3]:
        rep.violation(dict(pr, property="C18"))
        viol.append((None, {"query": pr["query"]}, {"response": pr["response"], "raised": pr["raised"]}, pr["kind"]))
    for s, c, r, probs in [x for x in viol if x[0] is not None][:5]:
        rep.violation({"property": "C18", "kind": probs, "sdl": gen.schema_sdl(s), "query": repr(c["query"])[:2000],
                       "operation_name": c.get("opname"), "variables": repr(c.get("variables"))[:500],
                       "recording_coercer": c.get("recording_coercer", False),
                       "response": repr(r["response"])[:2000], "raised": r["raised"]})
    if not viol:
        if not proofs_ok:
            rep.violation({"property": "C18", "what": "proof obligation no longer checks", "file": b.get("failed_file"),
                           "theorem": b.get("failed_lemma"), "gate": gate, "log_tail": b["log"][-1500:]}, no_input=True)
        elif impl_mm:
            s, c, r = impl_mm[0]
            rep.violation({"property": "C18", "what": "correspondence broken: engine and envelope/execution model disagree",
                           "n": len(impl_mm), "sdl": gen.schema_sdl(s), "query": c["query"], "operation_name": c.get("opname"),
                           "variables": repr(c.get("variables")), "response": repr(r["response"])[:2000]}, no_input=True)
    nob, names = common.count_obligations(C18_FILES)
    assum = common.assumptions("Properties/C18.v") if b["ok"] else {"closed": 0, "axioms": ["build failed"]}
    if b["ok"]:
        a2 = common.assumptions("Properties/C18Locations.v")
        assum = {"closed": assum["closed"] + a2["closed"], "axioms": assum["axioms"] + a2["axioms"]}
    common.write_evidence("C18", tier_, "proof", {
        "obligations": nob, "discharged": nob if proofs_ok else 0,
        "checker_cmd": "make Properties/C18.vo", "trusted_base": common.TRUSTED_BASE + [
            "Print Assumptions: %d theorems closed; axioms: %s" % (assum["closed"], assum["axioms"] or "none")],
        "theorems": [n for n in names if n.startswith("C18_")],
        "evaluations": total, "distinct_nontrivial": nontriv,
        "rule": "arbitrary text/bytes + mutated valid documents + operation-name variants + variables of any shape + "
                "recording error coercer; non-trivial = answered with an errors list that passed the envelope predicate",
        "traces_validated_against_impl": compared, "input_distribution": kinds,
        "impl_model_mismatches": len(impl_mm), "property_violations": len(viol),
        "samples": [{"query": repr(c["query"])[:120], "operation_name": c.get("opname")} for c in (plain[:4] if total else [])],
    }, rep.wall(), violations=len(rep.violations),
        assumptions_=["which texts are syntax errors / the reported locations are the parser stand-in's"])
    return rep.finish()


def json_ok(v):
    try:
        json.dumps(v, allow_nan=False)
        return True
    except (TypeError, ValueError):
        return False
