"""C09 — mutation root fields run serially, in document order."""
import asyncio
import json
import random

from . import common, gen, execgen, c01, c08, sched
from .c04 import fresh_schema_name

C09_FILES = ["Properties/C09.v", "Proofs/AsyncProofs.v", "Proofs/SerialChain.v"]


def root_keys(ast, opname=None):
    """response keys of the root fields in collection order (flattening root fragments is done by the model;
    here: keys as they first appear in the response `data` are checked against the model's)"""
    return None


def serial_problems(run, data):
    """every event of root field i precedes the start of root field i+1 (roots ordered as in data)"""
    if not isinstance(data, dict):
        order = []
    else:
        order = list(data.keys())
    seen_roots, P = [], []
    for kind, path in run["log"]:
        root = path[0]
        if root not in seen_roots:
            seen_roots.append(root)
        if seen_roots[-1] != root:
            P.append("%s of %r logged after root field %r had started" % (kind, list(path), seen_roots[-1]))
            break
    # roots start in response-key order
    started_order = [r for r in seen_roots if r in order]
    if started_order != [k for k in order if k in started_order]:
        P.append("root fields started in order %r but the response lists %r" % (seen_roots, order))
    return P


def main(tier_, replay=None):
    from . import engine_env
    rep = common.Report("C09")
    seed = common.seed()
    b = common.build(["Properties/C09.vo", "Model/RunExec.vo", "Model/StdScalars.vo"])
    gate = common.grep_gate()
    proofs_ok = b["ok"] and not gate
    engine_env.setup()
    rng = random.Random(seed * 40503 + 9)
    n_schemas, n_cases, limit, per_fault = (2, 6, 8, 4) if tier_ == "quick" else (10, 14, 40, 12)
    strategies = ["last", "deepest", "shallowest-last", "random", "first"]
    viol, mism, total_runs, schedules = [], [], 0, set()
    files, meta = [], []
    for si in list(range(n_schemas + 1)) + [-1]:       # the shared-root schema LAST: the random stream of the others is as before
        if si == 0:
            s = c08.handwritten_schema()
            base = c08.handwritten_cases(rng, c08.HAND_MUTATIONS)
        elif si == -1:
            # one object type as query AND mutation root (own random stream: the main one is untouched)
            s = c08.shared_root_schema()
            base = c08.handwritten_cases(random.Random(seed * 977 + 99), [q.replace("on Mutation", "on Query") for q in c08.HAND_MUTATIONS[:3]])
        else:
            s = execgen.gen_exec_schema(rng, with_mutation=True, n_objects=rng.randrange(2, 4))
            base = c08.small_cases(rng, s, n_cases, kinds=("mutation",))
        # the selected mutation inside a document that also holds other operations (before / after it)
        import re
        for c in list(base):
            m = re.match(r"^mutation\s*(\w+)?", c["query"])
            if not m:
                continue
            name = m.group(1)
            q = c["query"] if name else re.sub(r"^mutation", "mutation W", c["query"], count=1)
            name = name or "W"
            if rng.random() < 0.5:
                base.append(dict(c, query=q + " query ZR { __typename }", opname=name))
            else:
                base.append(dict(c, query="query ZR { __typename } " + q + " query ZS { __typename }", opname=name))
        cases = asyncio.run(c08.fault_variants(s, base[:len(c08.HAND_MUTATIONS)] if si == 0 else base,
                                               random.Random(seed * 977 + 98) if si == -1 else rng, 2 if si == -1 else per_fault,
                                               root_kinds=("raise_coercible",) if si == 0 else ()))
        if si == 0:
            cases += asyncio.run(c08.fault_variants(s, base[len(c08.HAND_MUTATIONS):], rng, per_fault))

        async def go():
            out = []
            for cfg in (c08.CONFIGS[0], c08.CONFIGS[3], c08.CONFIGS[4]):
                eng = await sched.build_gated_engine(s, fresh_schema_name("c09"), None, None, cfg)
                for c in cases:
                    if cfg is c08.CONFIGS[0]:
                        rs, _ex = await sched.enumerate_schedules(eng, s, c, limit, rng)
                        out += [(c, r, cfg) for r in rs]
                    for st in strategies:
                        out.append((c, await sched.run_scheduled(eng, s, c, sched.strategy(st, rng)), cfg))
            return out

        runs = asyncio.run(go())
        items = []
        for c, r, cfg in runs:
            total_runs += 1
            schedules.add((si, c["query"], json.dumps(c.get("faults")), json.dumps(cfg, sort_keys=True), tuple(map(repr, r["picks"]))))
            probs = list(r["problems"]) + ([r["raised"]] if r["raised"] else [])
            probs += serial_problems(r, r["response"].get("data"))
            if probs:
                viol.append((s, c, r, cfg, probs))
            items.append((c, gen.parse_query(c["query"]), r, cfg))
        step = 40
        for j in range(0, len(items), step):
            files.append(("C09_s%d_%s_%d" % (seed, "sr" if si < 0 else str(si), j), c08.sched_cases_file(s, items[j:j + step])))
            meta.append((s, items[j:j + step]))
    results = common.run_coq_many(files)
    for (s, items), (ok, so, se) in zip(meta, results):
        if not ok:
            rep.violation({"property": "C09", "what": "case file failed to evaluate", "stderr": se[-1500:]}, no_input=True)
            continue
        verdicts = c01.parse_int_list(so, "verdicts") or []
        for i, v in enumerate(verdicts):
            if v & 1:
                c, _a, r, cfg = items[i]
                viol.append((s, c, r, cfg, ["data differs from the specification executor (a failing nullable root must not "
                                            "stop the following ones; a failing non-null root nulls data; document order)"]))
        for i in (common.parse_Z_list(so, "sched_mismatch") or []) + (common.parse_Z_list(so, "seq_models_disagree") or []):
            mism.append((s,) + items[i])
    for s, c, r, cfg, why in viol[:5]:
        rep.violation({"property": "C09", "kind": why, "sdl": gen.schema_sdl(s), "query": c["query"],
                       "variables": c["variables"], "oracle_seed": c["oracle_seed"], "faults": c.get("faults"),
                       "configuration": cfg, "schedule (released response paths, in order)": [list(p) for p in r["picks"]],
                       "response": repr(r["response"])[:2000], "start_finish_log": [(k, list(p)) for k, p in r["log"]][:80]})
    if not viol:
        if not proofs_ok:
            rep.violation({"property": "C09", "what": "proof obligation no longer checks", "file": b.get("failed_file"),
                           "theorem": b.get("failed_lemma"), "gate": gate, "log_tail": b["log"][-1500:]}, no_input=True)
        elif mism:
            s, c, _a, r, cfg = mism[0]
            rep.violation({"property": "C09", "what": "correspondence broken: engine under this schedule and the async model disagree",
                           "n": len(mism), "sdl": gen.schema_sdl(s), "query": c["query"], "faults": c.get("faults"),
                           "configuration": cfg, "schedule": [list(p) for p in r["picks"]],
                           "response": repr(r["response"])[:2000]}, no_input=True)
    nob, names = common.count_obligations(C09_FILES)
    assum = common.assumptions("Properties/C09.v") if b["ok"] else {"closed": 0, "axioms": ["build failed"]}
    common.write_evidence("C09", tier_, "proof", {
        "obligations": nob, "discharged": nob if proofs_ok else 0,
        "checker_cmd": "make Properties/C09.vo", "trusted_base": common.TRUSTED_BASE + [
            "Print Assumptions: %d theorems closed; axioms: %s" % (assum["closed"], assum["axioms"] or "none")],
        "theorems": [n for n in names if n.startswith("C09_")],
        "evaluations": total_runs, "distinct_nontrivial": len(schedules),
        "rule": "mutation documents (several root fields, aliases, fragments at the root, nested lists) x placements of "
                "failures x pick sequences (enumeration + adversarial: last-started, deepest, shallowest-last, random) in 3 "
                "configurations; non-trivial = distinct (request, faults, configuration, schedule)",
        "traces_validated_against_impl": total_runs, "impl_model_mismatches": len(mism), "property_violations": len(viol),
        "samples": [{"query": c["query"], "faults": c.get("faults"), "schedule": [list(p) for p in r["picks"]]}
                    for (_s, items) in meta[:1] for (c, _a, r, cfg) in items[:3]],
    }, rep.wall(), violations=len(rep.violations),
        assumptions_=["asyncio runtime outside the model"])
    return rep.finish()
