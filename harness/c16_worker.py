"""Subprocess worker for C16 (and C15): answers ONE request on a fresh engine in a fresh interpreter, so the
answer cannot depend on anything the calling process served before.  argv[1] = JSON {query, query_is_bytes,
variables, opname, oracle_seed}; prints "RESULT <json>"."""
import asyncio
import json
import os
import sys
from collections import OrderedDict

sys.path.insert(0, os.path.join(os.path.dirname(os.path.abspath(__file__)), ".."))
from harness import engine_env  # noqa: E402

engine_env.setup()
from harness import execgen  # noqa: E402
from harness.gen import N  # noqa: E402


def fixed_schema():
    types = OrderedDict()
    from harness.gen import L
    types["Cat"] = {"kind": "OBJECT", "interfaces": [], "fields": [{"name": "name", "type": N("String"), "args": []},
                                                                 {"name": "meow", "type": N("Int"), "args": []}]}
    types["Dog"] = {"kind": "OBJECT", "interfaces": [], "fields": [{"name": "name", "type": N("String"), "args": []},
                                                                 {"name": "woof", "type": N("Int"), "args": []}]}
    types["Pet"] = {"kind": "UNION", "members": ["Cat", "Dog"]}

    def echo(n, t):
        return {"name": n, "type": N("Int"), "args": [{"name": "v", "type": t, "default": None}]}
    types["Query"] = {"kind": "OBJECT", "interfaces": [], "fields": [
        {"name": "ping", "type": N("Int"), "args": []}, {"name": "pets", "type": L(N("Pet")), "args": []},
        echo("echoInt", N("Int")), echo("echoStr", N("String")), echo("echoBool", N("Boolean")), echo("echoList", L(N("Int")))]}
    s = {"types": types, "query": "Query", "mutation": None, "subscription": None,
         "resolvers": {("Query", f["name"]) for f in types["Query"]["fields"]}, "type_resolvers": set(),
         "field_type_resolvers": set()}
    return execgen.add_error_path_types(s)


async def main():
    c = json.loads(sys.argv[1])
    s = fixed_schema()
    import tartiflette
    orig = tartiflette.create_engine

    async def patched(*a, **k):
        k["query_cache_decorator"] = None
        return await orig(*a, **k)

    tartiflette.create_engine = patched
    rec, oref = execgen.Recorder(), [None, {"ctx": 1}]
    eng = await execgen.build_engine(s, "c16_isolated", oref, rec)
    oref[0] = execgen.Oracle(s, c["oracle_seed"], 0.05, 0.08)
    q = c["query"].encode("utf-8") if c.get("query_is_bytes") else c["query"]
    resp = await eng.execute(q, operation_name=c.get("opname"), variables=c["variables"], context=oref[1])
    print("RESULT " + json.dumps(resp, sort_keys=True, default=repr))


if __name__ == "__main__":
    asyncio.run(main())
