"""Make the repository's engine importable in this process: PYTHONPATH=/repo first, and the
stand-in for the absent libgraphqlparser installed before the first `import tartiflette`."""
import os
import sys

from .common import REPO


def setup():
    repo = str(REPO)
    if sys.path[0] != repo:
        sys.path.insert(0, repo)
    os.environ.setdefault("PYTHONHASHSEED", "0")
    from .gqlshim.install import install

    install()
    import tartiflette  # noqa: F401

    assert os.path.realpath(tartiflette.__file__).startswith(os.path.realpath(repo)), (
        "tartiflette imported from %s, not from %s" % (tartiflette.__file__, repo))
    return tartiflette
