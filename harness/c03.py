"""C03 — returned data conforms to schema and selection whatever resolvers return."""
from . import c01

C03_FILES = ["Properties/C03.v", "Proofs/ExecConform.v", "Proofs/ExecJson.v", "Proofs/BuiltinLeaves.v"]


def extra(c, r):
    why = []
    if r["raised"]:
        why.append("execute raised: %s" % r["raised"])
    if not r["serialisable"]:
        why.append("response is not JSON-serialisable")
    return why


def main(tier_, replay=None):
    return c01.run_property(
        "C03", tier_, bits=16 | 64, explore_kwargs=dict(adversarial=0.3, fail=0.1),
        property_files=C03_FILES, extra_python_check=extra,
        rule="generated requests with resolver outputs drawn from the adversarial universe (wrong kinds, "
             "NaN/inf/huge numbers, numeric strings, bytes/tuples/sets, objects, exception instances, unknown "
             "runtime types) at rate 0.3; non-trivial = data not null")
