"""Gated scheduler driver: resolvers block on harness-owned futures; the driver releases one
blocked call site at a time and waits for loop quiescence, so a schedule is exactly a sequence of
released response paths."""
import warnings
warnings.filterwarnings("ignore", message="coroutine .* was never awaited", category=RuntimeWarning)
import asyncio
import json

from . import execgen


class GatedRecorder(execgen.Recorder):
    def __init__(self):
        super().__init__()
        self.gates = {}           # site key -> future
        self.log = []             # ("start"|"finish", site key)
        self.info_changed = []    # (site key, the path its ResolveInfo shows after the resolver resumed)
        self.prefix = ()

    def clear(self):
        super().clear()
        self.gates.clear()
        self.log.clear()
        self.info_changed = []


async def build_gated_engine(s, schema_name, oracle_ref, rec, cfg):
    """like execgen.build_engine, but every resolver awaits a gate before returning"""
    from tartiflette import create_engine, Resolver, TypeResolver, Scalar
    DemoError = execgen.make_user_error_class()

    def mk(tname, f):
        fname, ftype = f["name"], f["type"]
        kw = dict(schema_name=schema_name, parent_concurrently=cfg["parent"], list_concurrently=cfg["list"])
        if "mixed" in cfg:
            # per-field settings: siblings of one selection set are a MIX of concurrent, sequential and "engine default"
            kw["parent_concurrently"], kw["list_concurrently"] = execgen.mixed_field_setting(tname, fname, cfg["mixed"])
        if cfg.get("args") == "sync":
            from tartiflette.resolver.default import sync_arguments_coercer
            kw["arguments_coercer"] = sync_arguments_coercer
        if (tname, fname) in s["field_type_resolvers"]:
            def ftr(result, ctx, info, abstract_type):
                out = execgen.read_tr(result)
                ctx["rec"].tr_calls.append({"path": info.path.as_list(), "abstract": abstract_type.name,
                                            "value": result, "ret": out})
                return out
            kw["type_resolver"] = ftr

        @Resolver("%s.%s" % (tname, fname), **kw)
        async def r(parent, args, ctx, info):
            rc = ctx["rec"]
            path = info.path.as_list()
            key = tuple(path)
            out = ctx["oracle"].resolve(tname, fname, ftype, path, args)
            entry = {"path": path, "ptype": tname, "field": fname, "source": parent, "args": dict(args)}
            if out[0] == "ret":
                v = execgen.realise(out[1])
                entry["ret"] = ("ret", v)
            else:
                entry["ret"] = out
            rc.calls.append(entry)
            rc.log.append(("start", key))
            fut = asyncio.get_event_loop().create_future()
            if key in rc.gates and not rc.gates[key].done():
                rc.log.append(("double-start", key))
            rc.gates[key] = fut
            await fut
            rc.log.append(("finish", key))
            # a resolver may read its ResolveInfo at any time: what it was handed must still describe ITS execution
            after = info.path.as_list()
            if after != path or info.field_name != fname:
                rc.info_changed.append((key, tuple(after)))
                raise RuntimeError("%sinfo of %s reads %s after the resolver resumed" % (execgen.USER_PREFIX, path, after))
            if out[0] == "ret":
                return entry["ret"][1]
            if out[2]:
                raise DemoError(out[1], extensions={"code": 7} if out[3] else None)
            if len(out) > 4:
                raise execgen.PlainCoercible(out[1])
            raise RuntimeError(out[1])
        return r

    for tname, fname in sorted(s["resolvers"]):
        f = [x for x in s["types"][tname]["fields"] if x["name"] == fname][0]
        mk(tname, f)
    for a in sorted(s["type_resolvers"]):
        def mktr(a):
            @TypeResolver(a, schema_name=schema_name)
            def tr(result, ctx, info, abstract_type):
                out = execgen.read_tr(result)
                ctx["rec"].tr_calls.append({"path": info.path.as_list(), "abstract": abstract_type.name,
                                            "value": result, "ret": out})
                return out
        mktr(a)
    if "Any" in s["types"]:
        @Scalar("Any", schema_name=schema_name)
        class AnyScalar:
            def coerce_output(self, v):
                return v

            def coerce_input(self, v):
                return v

            def parse_literal(self, ast):
                from tartiflette.constants import UNDEFINED_VALUE
                return ast.value if type(ast).__name__ in (
                    "IntValueNode", "FloatValueNode", "StringValueNode", "BooleanValueNode", "EnumValueNode") else UNDEFINED_VALUE
    if "Odd" in s["types"]:
        @Scalar("Odd", schema_name=schema_name)
        class OddScalar:
            def coerce_output(self, v):
                if isinstance(v, int) and not isinstance(v, bool) and v == 99:
                    return None              # a null produced DURING result coercion (99 is this scalar's "no value")
                if isinstance(v, int) and not isinstance(v, bool) and v % 2 == 1:
                    return v
                raise ValueError("not odd")

            def coerce_input(self, v):
                if isinstance(v, int) and not isinstance(v, bool) and v % 2 == 1:
                    return v
                raise ValueError("not odd")


            def parse_literal(self, ast):
                from tartiflette.constants import UNDEFINED_VALUE
                if type(ast).__name__ == "IntValueNode" and int(ast.value) % 2 == 1:
                    return int(ast.value)
                return UNDEFINED_VALUE
    kw = {}
    if cfg.get("args") == "sync":
        from tartiflette.resolver.default import sync_arguments_coercer
        kw["custom_default_arguments_coercer"] = sync_arguments_coercer
    return await create_engine(execgen.gen.schema_sdl(s), schema_name=schema_name,
                               coerce_parent_concurrently=cfg["parent"], coerce_list_concurrently=cfg["list"], **kw)


async def quiesce(loop, limit=20000):
    for _ in range(limit):
        await asyncio.sleep(0)
        if len(loop._ready) == 0:
            return True
    return False


async def run_scheduled(engine, s, case, chooser, max_steps=400):
    """Runs one request under the schedule chosen by `chooser(pending_sorted, step)`.
    Returns dict(response, picks, options (pending set at each step), log, calls, tr_calls, problems)."""
    loop = asyncio.get_event_loop()
    rec = GatedRecorder()
    ctx = {"rec": rec, "oracle": execgen.Oracle(s, case["oracle_seed"], case.get("adversarial", 0.03),
                                                case.get("fail", 0.08),
                                                faults={tuple(p): k for p, k in (case.get("faults") or [])})}
    before = set(asyncio.all_tasks())
    task = loop.create_task(engine.execute(case["query"], operation_name=case.get("opname"),
                                           variables=case["variables"], context=ctx,
                                           initial_value=execgen.realise(case.get("root"))))
    picks, options, problems = [], [], []
    for step in range(max_steps):
        if not await quiesce(loop):
            problems.append("event loop never became quiescent")
            break
        if task.done():
            break
        pend = sorted((k for k, f in rec.gates.items() if not f.done()), key=repr)
        if not pend:
            problems.append("deadlock: execute has not returned and no resolver is pending")
            task.cancel()
            break
        p = chooser(pend, step)
        picks.append(p)
        options.append(pend)
        rec.gates[p].set_result(None)
    else:
        problems.append("no termination within %d releases" % max_steps)
        task.cancel()
    resp, raised = None, None
    if task.done() and not task.cancelled():
        try:
            resp = task.result()
        except Exception as e:  # pylint: disable=broad-except
            raised = repr(e)
    # what is still alive / pending when execute has returned
    await quiesce(loop)
    pending_after = sorted((k for k, f in rec.gates.items() if not f.done()), key=repr)
    if pending_after:
        problems.append("execute returned while started resolvers were still pending: %r" % (pending_after[:4],))
        for k in pending_after:          # let them finish so that nothing leaks into the next run
            rec.gates[k].set_result(None)
        await quiesce(loop)
    alive = [t for t in asyncio.all_tasks() if t not in before and t is not asyncio.current_task() and not t.done()]
    if alive:
        problems.append("%d asyncio task(s) alive after execute returned" % len(alive))
        for t in alive:
            t.cancel()
        await quiesce(loop)
    starts = [k for kind, k in rec.log if kind == "start"]
    finishes = [k for kind, k in rec.log if kind == "finish"]
    if len(set(starts)) != len(starts) or any(kind == "double-start" for kind, _ in rec.log):
        problems.append("a resolver was started twice")
    if rec.info_changed:
        problems.append("the ResolveInfo handed to the resolver at %r shows path %r after the resolver resumed (it was modified "
                        "while the resolver was suspended)" % (list(rec.info_changed[0][0]), list(rec.info_changed[0][1])))
    if sorted(map(repr, starts)) != sorted(map(repr, finishes)) and not pending_after:
        problems.append("started and finished resolver sets differ")
    return {"response": resp if resp is not None else {"data": None}, "raised": raised, "picks": picks,
            "options": options, "log": list(rec.log), "calls": list(rec.calls), "tr_calls": list(rec.tr_calls),
            "problems": problems, "serialisable": True, "ctx_ok": True, "starts": starts, "finishes": finishes}


def strategy(name, rng):
    if name == "first":
        return lambda pend, step: pend[0]
    if name == "last":
        return lambda pend, step: pend[-1]
    if name == "deepest":
        return lambda pend, step: max(pend, key=lambda p: (len(p), repr(p)))
    if name == "shallowest-last":
        return lambda pend, step: max(pend, key=lambda p: (-len(p), repr(p)))
    return lambda pend, step: rng.choice(pend)


async def enumerate_schedules(engine, s, case, limit, rng):
    """systematic exploration of pick sequences (prefix + first-pending default), bounded by limit"""
    seen, out = set(), []
    work = [()]
    while work and len(out) < limit:
        prefix = work.pop()

        def chooser(pend, step, prefix=prefix):
            if step < len(prefix) and prefix[step] in pend:
                return prefix[step]
            return pend[0]

        r = await run_scheduled(engine, s, case, chooser)
        key = tuple(r["picks"])
        if key in seen:
            continue
        seen.add(key)
        out.append(r)
        for i in range(len(prefix), len(r["picks"])):
            for alt in r["options"][i]:
                if alt != r["picks"][i]:
                    work.append(tuple(r["picks"][:i]) + (alt,))
    return out, not work
