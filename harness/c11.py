"""C11 — introspection describes exactly the schema that was supplied.

Round trip: schema model (every type kind, wrappers, arguments / input fields with defaults,
interfaces with several implementers declared before and after them, unions, `extend`
definitions of every kind incl. `extend schema` without operations, custom and type-system
directives, @deprecated with and without reason on fields and enum values, @nonIntrospectable
fields) -> SDL text supplied FOUR ways (string, one file, list of files, directory; files with
and without trailing newline, ending in a comment line) -> real engine -> standard introspection
query -> compared inside Coq with Model/Introspect.v applied to the schema object the build
model produces.  Also on the engine alone: the four ways agree, `__type(name:)` equals the entry
of `__schema.types` and is null for unknown names, includeDeprecated:false is the filtered list,
deprecation reasons match, a schema marked @nonIntrospectable refuses introspection."""
import asyncio
import json
import os
import random
import re
import shutil
import tempfile

from . import common, coqterm, gen, schemagen
from .c04 import fresh_schema_name
from .coqterm import coq_list, coq_string, coq_bool, coq_option
from .gen import N, L, NN

C11_FILES = ["Properties/C11.v", "Proofs/IntrospectProofs.v", "Proofs/IntrospectExt.v"]

TYPE_REF = "kind name ofType { kind name ofType { kind name ofType { kind name ofType { kind name ofType { kind name } } } } }"
INTROSPECTION = """
query I {
  __schema {
    queryType { name } mutationType { name } subscriptionType { name }
    types {
      kind name
      fields(includeDeprecated: true) { name isDeprecated deprecationReason args { name defaultValue type { %(T)s } } type { %(T)s } }
      shortFields: fields { name }
      fieldsNoDep: fields(includeDeprecated: false) { name }
      inputFields { name defaultValue type { %(T)s } }
      interfaces { name }
      enumValues(includeDeprecated: true) { name isDeprecated deprecationReason }
      enumNoDep: enumValues(includeDeprecated: false) { name }
      possibleTypes { name }
    }
    directives { name locations args { name defaultValue type { %(T)s } } }
  }
}
""" % {"T": TYPE_REF}
# the SAME selection on __type(name:): the answer must be the entry of __schema.types, whole
TYPE_SELECTION = INTROSPECTION[INTROSPECTION.index("types {") + len("types {"):INTROSPECTION.index("    directives {")].rsplit("}", 1)[0]


BACKSLASH_REASON = 'deprecated(reason: "use \\\\newField, \\\\told \\\\bad \\\\found \\\\rest a\\\\/b \\\\u0041 \\"q\\"")'


def decorate(rng, m):
    """@deprecated / @nonIntrospectable on members, `extend schema` without operations, an implementer declared
    before its interface"""
    for t in m["types"]:
        if t["kind"] in ("OBJECT", "INTERFACE"):
            for f in t["fields"]:
                r = rng.random()
                if r < 0.12:
                    f["dirs"] = ["deprecated"]
                elif r < 0.2:
                    f["dirs"] = ['deprecated(reason: "use %s2")' % f["name"]]
                elif r < 0.24:
                    f["dirs"] = [rng.choice(['deprecated(reason: "")', 'deprecated(reason: null)'])]
                    if rng.random() < 0.4:      # an escaped backslash in front of a letter that is also an escape
                        f["dirs"] = [BACKSLASH_REASON]
                elif r < 0.3 and len(t["fields"]) > 1:
                    f["dirs"] = ["nonIntrospectable"]
        if t["kind"] == "ENUM":
            t["value_dirs"] = {}
            for v in t["values"]:
                if rng.random() < 0.25:
                    t["value_dirs"][v] = [rng.choice(["deprecated", 'deprecated(reason: "gone")', 'deprecated(reason: "")',
                                                      'deprecated(reason: null)'])]
    for e in m["exts"]:
        if e.get("kind") == "OBJECT":
            for f in e.get("fields", []):
                if rng.random() < 0.3:
                    f["dirs"] = [rng.choice(["deprecated", 'deprecated(reason: "")', 'deprecated(reason: null)'])]
    if rng.random() < 0.5:
        m["exts"].insert(rng.randrange(len(m["exts"]) + 1), {"schema_ops": {}, "dirs": ["tsd2"]})
    # default values of every kind, strings that need escaping included (an input type nobody refers to)
    if not any(t["name"] == "ZDefaults" for t in m["types"]):
        ens = [t for t in m["types"] if t["kind"] == "ENUM" and t["values"]]
        fields = [
            {"name": "s1", "type": N("String"), "default": ("str", 'say "hi" \\ bye')},
            {"name": "s2", "type": N("String"), "default": ("str", "line\nbreak\ttab")},
            {"name": "s3", "type": N("String"), "default": ("str", "\u00e9t\u00e9 \u00fc")},
            {"name": "s4", "type": N("String"), "default": ("str", "")},
            {"name": "s5", "type": N("String"), "default": ("str", "C:\\temp\\new\\file\\bin\\res a\\/b \\u0041 \\\\x")},
            {"name": "s6", "type": N("String"), "default": ("str", "\\bword\\b")},
            {"name": "i1", "type": N("Int"), "default": ("int", -5)},
            {"name": "f1", "type": N("Float"), "default": ("float", 1e+20)},
            {"name": "f2", "type": N("Float"), "default": ("float", 1.5e-07)},
            {"name": "b1", "type": N("Boolean"), "default": ("bool", False)},
            {"name": "n1", "type": N("Int"), "default": ("null",)},
            {"name": "id1", "type": N("ID"), "default": ("int", 4)},
            {"name": "l1", "type": L(N("String")), "default": ("list", [("str", 'a"b'), ("null",), ("str", "c")])},
            {"name": "o1", "type": N("ZDefaults"), "default": ("obj", [("s1", ("str", 'in "side"')), ("l1", ("list", []))])},
            {"name": "plain", "type": N("Int"), "default": None}]
        if ens:
            fields.append({"name": "e1", "type": L(NN(N(ens[0]["name"]))), "default": ("list", [("enum", ens[0]["values"][0])])})
        for f in fields:
            f["dirs"] = []
        m["types"].append({"name": "ZDefaults", "kind": "INPUT", "dirs": [], "fields": fields})
    # an object declared textually before the interface it implements
    objs = [t for t in m["types"] if t["kind"] == "OBJECT" and t.get("interfaces")]
    if objs and rng.random() < 0.7:
        t = rng.choice(objs)
        m["types"].remove(t)
        m["types"].insert(0, t)
    return m


def supply(rng, m, way, tmp):
    pieces = schemagen.model_sdl(m, pieces=True)
    text = "\n".join(pieces) + "\n"
    if way == "string":
        return text
    if way == "file":
        p = os.path.join(tmp, "one.sdl")
        open(p, "w", encoding="utf-8").write(text if rng.random() < 0.5 else text.rstrip("\n"))
        return p
    k = rng.randrange(2, 5)
    cuts = sorted(rng.sample(range(1, len(pieces)), min(k - 1, len(pieces) - 1))) if len(pieces) > 1 else []
    chunks, prev = [], 0
    for c in cuts + [len(pieces)]:
        chunks.append(pieces[prev:c])
        prev = c
    paths = []
    d = os.path.join(tmp, way)
    os.makedirs(d, exist_ok=True)
    for i, ch in enumerate(chunks):
        body = "\n".join(ch)
        r = rng.random()
        if r < 0.35:
            body += "\n# end of part %d" % i           # last line is a comment, no trailing newline
        elif r < 0.7:
            body += "\n"
        ext = ".sdl" if (way == "files" or i % 2 == 0) else ".graphql"
        sub = os.path.join(d, "sub") if (way == "directory" and i == 1) else d
        os.makedirs(sub, exist_ok=True)
        p = os.path.join(sub, "part%02d%s" % (i, ext))
        open(p, "w", encoding="utf-8").write(body)
        paths.append(p)
    return paths if way == "files" else d


async def build(m, sdl_arg):
    from tartiflette import create_engine, Directive, Scalar
    name = fresh_schema_name("c11")
    for d in m["dirdefs"]:
        def mk(d):
            @Directive(d["name"], schema_name=name)
            class D:                # pylint: disable=unused-variable
                pass
        mk(d)
    for sc in set(m["scalar_impls"]):
        if sc in gen.BUILTIN_SCALARS:
            continue

        def mks(sc):
            @Scalar(sc, schema_name=name)
            class S:                # pylint: disable=unused-variable
                def coerce_output(self, v):
                    return v

                def coerce_input(self, v):
                    return v

                def parse_literal(self, ast):
                    return getattr(ast, "value", None)
        mks(sc)
    return await create_engine(sdl_arg, schema_name=name)


# ---- observed introspection -> Coq
def tref_coq(t):
    if t is None:
        return '(RNamed "?" "?")'
    if t["kind"] == "LIST":
        return "(RList %s)" % tref_coq(t.get("ofType"))
    if t["kind"] == "NON_NULL":
        return "(RNonNull %s)" % tref_coq(t.get("ofType"))
    return "(RNamed %s %s)" % (coq_string(t["kind"]), coq_string(t["name"]))


def value_tuple(v):
    """AST value node (parser stand-in) -> literal tuple of harness/gen.py, numbers cast as the SDL parser does"""
    k = v["kind"]
    if k == "IntValue":
        return ("int", int(v["value"]))
    if k == "FloatValue":
        return ("float", float(v["value"]))
    if k == "StringValue":
        return ("str", v["value"])
    if k == "BooleanValue":
        return ("bool", bool(v["value"]))
    if k == "NullValue":
        return ("null",)
    if k == "EnumValue":
        return ("enum", v["value"])
    if k == "ListValue":
        return ("list", [value_tuple(i) for i in v["values"]])
    if k == "ObjectValue":
        return ("obj", [(f["name"]["value"], value_tuple(f["value"])) for f in v["fields"]])
    raise ValueError(k)


def default_coq(text):
    """what `defaultValue` reports, read back as a GraphQL value"""
    if text is None:
        return "None"
    try:
        ast = gen.parse_query("{ f(x: %s) }" % text)
        node = ast["definitions"][0]["selectionSet"]["selections"][0]["arguments"][0]["value"]
        if len(ast["definitions"]) != 1 or len(ast["definitions"][0]["selectionSet"]["selections"]) != 1 or \
                len(ast["definitions"][0]["selectionSet"]["selections"][0]["arguments"]) != 1:
            raise ValueError("not one value")
        return "(Some %s)" % gen.lit_coq_sdl(value_tuple(node))
    except Exception:     # pylint: disable=broad-except
        return "(Some (LVar (0, 0)%%Z %s))" % coq_string("not a GraphQL value: " + str(text)[:80])


def iarg_coq(a):
    return "{| ia_name := %s; ia_type := %s; ia_default := %s |}" % (
        coq_string(a["name"]), tref_coq(a["type"]), default_coq(a.get("defaultValue")))


def itype_coq(t):
    fields = None
    if t.get("fields") is not None:
        fields = coq_list(["{| if_name := %s; if_args := %s; if_type := %s; if_deprecated := %s |}" % (
            coq_string(f["name"]), coq_list([iarg_coq(a) for a in f["args"]]), tref_coq(f["type"]), coq_bool(bool(f["isDeprecated"])))
            for f in t["fields"]])
    names = lambda l: None if l is None else coq_list([coq_string(x["name"]) for x in l])       # noqa: E731
    enum = None if t.get("enumValues") is None else coq_list(
        ["(%s, %s)" % (coq_string(v["name"]), coq_bool(bool(v["isDeprecated"]))) for v in t["enumValues"]])
    inp = None if t.get("inputFields") is None else coq_list([iarg_coq(a) for a in t["inputFields"]])
    return ("{| it_kind := %s; it_name := %s; it_fields := %s; it_interfaces := %s; it_possible := %s; it_enum := %s; "
            "it_input := %s |}") % (coq_string(t["kind"]), coq_string(t["name"]), coq_option(fields), coq_option(names(t.get("interfaces"))),
                                    coq_option(names(t.get("possibleTypes"))), coq_option(enum), coq_option(inp))


def ischema_coq(sc):
    nm = lambda x: coq_option(coq_string(x["name"]) if x else None)       # noqa: E731
    return "{| is_query := %s; is_mutation := %s; is_subscription := %s; is_types := %s; is_directives := %s |}" % (
        nm(sc.get("queryType")), nm(sc.get("mutationType")), nm(sc.get("subscriptionType")),
        coq_list([itype_coq(t) for t in sc["types"]]),
        coq_list(["(%s, %s, %s)" % (coq_string(d["name"]), coq_list([coq_string(l) for l in d["locations"]]),
                                    coq_list([iarg_coq(a) for a in d["args"]])) for d in sc["directives"]]))


def python_checks(m, sc, by_name_results):
    """engine-only consistency clauses of the property"""
    P = []
    reasons = {}

    def reason_of(d):
        if "reason: null" in d:
            return None
        m_ = re.search(r'"((?:[^"\\]|\\.)*)"', d)
        return json.loads('"%s"' % m_.group(1)) if m_ else "No longer supported"
    for holder in list(m["types"]) + [e for e in m["exts"] if "target" in e]:
        tn = holder.get("target") or holder["name"]
        for f in holder.get("fields", []) or []:
            for d in f.get("dirs", []) or []:
                if d.startswith("deprecated"):
                    reasons[(tn, f["name"])] = reason_of(d)
        for v, ds in (holder.get("value_dirs") or {}).items():
            for d in ds:
                if d.startswith("deprecated"):
                    reasons[(tn, v)] = reason_of(d)
    for t in sc["types"]:
        for key, nodep in (("fields", "fieldsNoDep"), ("enumValues", "enumNoDep")):
            if t.get(key) is not None:
                exp = [f["name"] for f in t[key] if not f["isDeprecated"]]
                got = [f["name"] for f in (t.get(nodep) or [])]
                if exp != got:
                    P.append("%s.%s(includeDeprecated: false) is %r, the non-deprecated entries are %r" % (t["name"], key, got, exp))
                for f in t[key]:
                    declared = (t["name"], f["name"]) in reasons
                    want = reasons.get((t["name"], f["name"]))
                    if bool(f["isDeprecated"]) != declared or (declared and f.get("deprecationReason") != want):
                        P.append("%s.%s: isDeprecated=%r reason=%r, declared %r" % (t["name"], f["name"], f["isDeprecated"],
                                                                                   f.get("deprecationReason"), want))
        if t.get("fields") is not None and [f["name"] for f in (t.get("fieldsNoDep") or [])] != [f["name"] for f in (t.get("shortFields") or [])]:
            P.append("%s: fields without argument differs from fields(includeDeprecated: false), its declared default" % t["name"])
    for n, r in by_name_results.items():
        entry = [t for t in sc["types"] if t["name"] == n]
        if n == "ZZUnknownType":
            if r is not None:
                P.append("__type(name: unknown) is not null")
        elif n.startswith("__"):
            continue          # meta types: reported by name, not listed (the engine's own)
        elif not entry or r is None or json.dumps(r, sort_keys=True) != json.dumps(entry[0], sort_keys=True):
            P.append("__type(name: %s) disagrees with the entry of __schema.types: %s vs %s" % (
                n, json.dumps(r, sort_keys=True)[:300], json.dumps(entry[0] if entry else None, sort_keys=True)[:300]))
    return P


def main(tier_, replay=None):
    from . import engine_env, c01
    rep = common.Report("C11")
    seed = common.seed()
    b = common.build(["Properties/C11.vo", "Model/Introspect.vo", "Model/RunValidate.vo"])
    gate = common.grep_gate()
    proofs_ok = b["ok"] and not gate
    engine_env.setup()
    rng = random.Random(seed * 32452843 + 11)
    n_models = 8 if tier_ == "quick" else 60
    tmp_root = tempfile.mkdtemp(prefix="c11_", dir="/tmp")
    viol, items, total = [], [], 0
    try:
        for mi in range(n_models):
            m, _s = schemagen.base_model(rng)
            decorate(rng, m)
            results = {}
            for way in ("string", "file", "files", "directory"):
                total += 1
                tmp = os.path.join(tmp_root, "m%d_%s" % (mi, way))
                os.makedirs(tmp, exist_ok=True)
                arg = supply(rng, m, way, tmp)

                async def go(arg=arg):
                    eng = await build(m, arg)
                    r = await eng.execute(INTROSPECTION)
                    names = [t["name"] for t in m["types"]][:6] + ["ZZUnknownType", "Int"]
                    by = {}
                    names = [t["name"] for t in m["types"]] + ["ZZUnknownType", "Int", "Boolean", "__Type", "__Schema"]
                    for n in names:
                        rr = await eng.execute('{ __type(name: "%s") { %s } }' % (n, TYPE_SELECTION))
                        by[n] = (rr.get("data") or {}).get("__type")
                    return r, by
                try:
                    r, by = asyncio.run(go())
                except Exception as e:      # pylint: disable=broad-except
                    viol.append((m, way, "the engine could not be built from a valid SDL: %s: %s" % (type(e).__name__, str(e)[:500]), None))
                    continue
                if r.get("errors") or not r.get("data"):
                    viol.append((m, way, "the introspection query failed: %r" % (r.get("errors"),), None))
                    continue
                sc = r["data"]["__schema"]
                results[way] = sc
                probs = python_checks(m, sc, by)
                if probs:
                    viol.append((m, way, probs[:5], sc))
            if results:
                def canon_schema(x):
                    x = json.loads(json.dumps(x))
                    x["types"] = sorted(x["types"], key=lambda t: t["name"])       # definition order follows the file order
                    for t in x["types"]:
                        for k in ("possibleTypes", "interfaces"):
                            if t.get(k) is not None:
                                t[k] = sorted(t[k], key=lambda y: y["name"])
                    x["directives"] = sorted(x["directives"], key=lambda d: d["name"])
                    return json.dumps(x, sort_keys=True)
                canon = {w: canon_schema(x) for w, x in results.items()}
                if len(set(canon.values())) > 1:
                    ways = list(canon)
                    other = [w for w in ways if canon[w] != canon[ways[0]]][0]
                    viol.append((m, other, "introspection differs between the SDL supplied as %s and as %s" % (ways[0], other),
                                 results[other]))
                for w, sc in results.items():
                    items.append((m, w, sc))
        # a schema marked @nonIntrospectable refuses introspection
        m, _s = schemagen.base_model(rng)
        m["schema_dirs"] = ["nonIntrospectable"]
        if not m["schema"]:
            m["schema"] = {"query": "Query"}

        async def closed():
            eng = await build(m, schemagen.model_sdl(m))
            return await eng.execute("{ __schema { types { name } } }")
        r = asyncio.run(closed())
        if (r.get("data") or {}).get("__schema") is not None:
            viol.append((m, "string", "a schema marked @nonIntrospectable answered an introspection query", None))
    finally:
        shutil.rmtree(tmp_root, ignore_errors=True)
    files, step = [], 8
    for j in range(0, len(items), step):
        rows = coq_list(["(%s, %s)" % (schemagen.model_coq(m), ischema_coq(sc)) for m, _w, sc in items[j:j + step]])
        files.append(("C11_s%d_%d" % (seed, j), coqterm.HEADER +
                      "From TV Require Import Model.Schema Model.ImplValidate Model.SchemaBuild Model.Introspect Model.RunValidate.\n"
                      "Definition cases : list (sdl * ischema) := %s.\n"
                      'Eval vm_compute in ("disagree", idx_where\' (fun c => negb (introspection_agree (fst c) (snd c))) cases 0).\n'
                      % rows))
    mism = []
    for (fname, _t), (ok, so, se), j in zip(files, common.run_coq_many(files), range(0, len(items), step)):
        if not ok:
            rep.violation({"property": "C11", "what": "case file failed to evaluate", "file": fname, "stderr": se[-1500:]}, no_input=True)
            continue
        for i in common.parse_Z_list(so, "disagree") or []:
            mism.append(items[j + i])
    for m, way, why, sc in viol[:5]:
        rep.violation({"property": "C11", "what": why, "sdl_supplied_as": way, "sdl": schemagen.model_sdl(m),
                       "introspection_types": [t["name"] for t in sc["types"]] if sc else None})
    if not viol and not rep.violations:
        if not proofs_ok:
            rep.violation({"property": "C11", "what": "proof obligation no longer checks", "file": b.get("failed_file"),
                           "theorem": b.get("failed_lemma"), "gate": gate, "log_tail": b["log"][-1500:]}, no_input=True)
        elif mism:
            m, way, sc = mism[0]
            # which types differ: evaluated in Coq
            ok, so, se = common.run_coq("C11_diff", coqterm.HEADER +
                                        "From TV Require Import Model.Schema Model.ImplValidate Model.SchemaBuild Model.Introspect.\n"
                                        'Eval vm_compute in ("diff", introspection_diff %s %s).\n' % (schemagen.model_coq(m), ischema_coq(sc)))
            rep.violation({"property": "C11", "what": "introspection differs from the declared schema (model of what the schema "
                           "object reports vs the engine's answer)", "n": len(mism), "sdl_supplied_as": way,
                           "sdl": schemagen.model_sdl(m), "differing_types": so[-600:] if ok else se[-600:],
                           "engine_types": {t["name"]: {"fields": [f["name"] for f in (t.get("fields") or [])],
                                                        "possibleTypes": [x["name"] for x in (t.get("possibleTypes") or [])],
                                                        "enumValues": [x["name"] for x in (t.get("enumValues") or [])],
                                                        "inputFields": [x["name"] for x in (t.get("inputFields") or [])]}
                                            for t in sc["types"] if not t["name"].startswith("__")}})
    nob, names = common.count_obligations(C11_FILES)
    assum = common.assumptions("Properties/C11.v") if b["ok"] else {"closed": 0, "axioms": ["build failed"]}
    common.write_evidence("C11", tier_, "proof", {
        "obligations": nob, "discharged": nob if proofs_ok else 0, "checker_cmd": "make Properties/C11.vo",
        "trusted_base": common.TRUSTED_BASE + [
            "Print Assumptions: %d theorems closed; axioms: %s" % (assum["closed"], assum["axioms"] or "none")],
        "theorems": [n for n in names if n.startswith("C11_")],
        "evaluations": total, "distinct_nontrivial": len({(schemagen.model_sdl(m), w) for m, w, _sc in items}),
        "rule": "schema models x 4 ways of supplying the SDL; non-trivial = distinct (SDL text, way) for which the engine built and answered the introspection query, "
                "result compared inside Coq with Model/Introspect.v",
        "traces_validated_against_impl": len(items), "impl_model_mismatches": len(mism), "property_violations": len(viol),
        "samples": [{"way": w, "types": len(sc["types"])} for _m, w, sc in items[:4]],
    }, rep.wall(), violations=len(rep.violations),
        assumptions_=["lark grammar and AST transformers, file reading and globbing are exercised, not modelled; the reported "
                      "defaultValue text is parsed back by the parser stand-in and compared as a value with the declared default"])
    return rep.finish()
