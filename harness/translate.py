#!/usr/bin/env python3
"""
Python-`ast` -> Gallina translator for tartiflette's built-in scalar modules and
utils/values.py.  Fail-closed: any construct outside the supported subset raises
Unsupported and no file is produced (the check then reports a broken tie).

Scheme (see DESIGN.md 2.2-T):
  * every Python value is a `pyval` (coq/Py/Prelude.v); a function body is a term of type
    `res pyval` in the exception monad;
  * statements are translated in continuation-passing style; the continuation text of an
    `if` that can fall through is duplicated into both branches (the functions are tiny);
  * `and` / `or` / `not` / chained comparisons in conditions become nested `if`s;
  * `try: ... except Exception:` becomes `catch_exception`, the body yielding a control
    value `CRet v | CNext (locals...)`;
  * raised exception *messages* are dropped: `raise TypeError(f"...")` -> `Raise TypeError`.
"""
import ast
import sys
from pathlib import Path


class Unsupported(Exception):
    pass


SCALAR_FILES = [
    ("int", "tartiflette/scalar/builtins/int.py", "ScalarInt"),
    ("float", "tartiflette/scalar/builtins/float.py", "ScalarFloat"),
    ("string", "tartiflette/scalar/builtins/string.py", "ScalarString"),
    ("boolean", "tartiflette/scalar/builtins/boolean.py", "ScalarBoolean"),
    ("id", "tartiflette/scalar/builtins/id.py", "ScalarID"),
]
VALUES_FILE = "tartiflette/utils/values.py"

CLASSES = {
    "bool": "CBool",
    "int": "CInt",
    "str": "CStr",
    "float": "CFloat",
    "list": "CList",
    "dict": "CDict",
    "IntValueNode": "CIntValueNode",
    "FloatValueNode": "CFloatValueNode",
    "StringValueNode": "CStringValueNode",
    "BooleanValueNode": "CBooleanValueNode",
}
# callables: python name -> (coq function, needs oracle record)
BUILTINS = {
    "int": "py_int",
    "float": "py_float O",
    "str": "py_str O",
    "bool": "py_bool",
    "isfinite": "py_isfinite",
    "floor": "py_floor",
}
EXC = {"TypeError", "ValueError", "OverflowError", "KeyError", "AttributeError"}


def coq_string(s):
    if any(ord(c) > 126 or ord(c) < 32 for c in s):
        raise Unsupported("non-ascii string constant %r" % s)
    return '"' + s.replace('"', '""') + '"'


class FuncTranslator:
    def __init__(self, prefix, fn, module_consts, known_funcs):
        self.prefix = prefix
        self.fn = fn
        self.consts = module_consts
        self.known_funcs = known_funcs
        self.tmp = 0
        args = [a.arg for a in fn.args.args]
        if fn.args.vararg or fn.args.kwarg or fn.args.kwonlyargs or fn.args.defaults:
            raise Unsupported("complex signature in %s" % fn.name)
        if args and args[0] == "self":
            args = args[1:]
        self.params = args
        self.locals = sorted(
            {
                n.id
                for n in ast.walk(fn)
                if isinstance(n, ast.Name) and isinstance(n.ctx, ast.Store)
            }
            - set(args)
        )

    def fresh(self):
        self.tmp += 1
        return "t%d_" % self.tmp

    # ---------------- expressions (ANF / CPS) ----------------
    def expr(self, e, k):
        """k: function from Coq term text (a pyval) to Coq term text (res X)."""
        if isinstance(e, ast.Name):
            if e.id in self.params or e.id in self.locals:
                return k("v_" + e.id)
            if e.id in self.consts:
                return k(self.consts[e.id])
            if e.id == "UNDEFINED_VALUE":
                return k("PUndef")
            raise Unsupported("name %s" % e.id)
        if isinstance(e, ast.Constant):
            v = e.value
            if v is None:
                return k("PNone")
            if v is True or v is False:
                return k("(PBool %s)" % ("true" if v else "false"))
            if isinstance(v, int):
                return k("(PInt (%d))" % v)
            if isinstance(v, str):
                return k("(PStr %s)" % coq_string(v))
            raise Unsupported("constant %r" % (v,))
        if isinstance(e, ast.UnaryOp) and isinstance(e.op, ast.USub):
            if isinstance(e.operand, ast.Constant) and isinstance(e.operand.value, int):
                return k("(PInt (-%d))" % e.operand.value)
            raise Unsupported("unary minus")
        if isinstance(e, ast.Attribute):
            if e.attr == "value":
                t = self.fresh()
                return self.expr(
                    e.value,
                    lambda v: "(bind (py_attr_value %s) (fun %s => %s))" % (v, t, k(t)),
                )
            raise Unsupported("attribute .%s" % e.attr)
        if isinstance(e, ast.Call):
            if e.keywords:
                raise Unsupported("keyword arguments")
            if isinstance(e.func, ast.Name):
                f = e.func.id
                if f == "isinstance":
                    t = self.fresh()
                    # value form of a condition
                    return self.cond(
                        e, k("(PBool true)"), k("(PBool false)")
                    )
                if f in BUILTINS and len(e.args) == 1:
                    t = self.fresh()
                    return self.expr(
                        e.args[0],
                        lambda v: "(bind (%s %s) (fun %s => %s))" % (BUILTINS[f], v, t, k(t)),
                    )
                if f in self.known_funcs and len(e.args) == 1:
                    t = self.fresh()
                    return self.expr(
                        e.args[0],
                        lambda v: "(bind (%s O %s) (fun %s => %s))"
                        % (self.known_funcs[f], v, t, k(t)),
                    )
            raise Unsupported("call %s" % ast.dump(e.func))
        if isinstance(e, ast.IfExp):
            return self.cond(e.test, self.expr(e.body, k), self.expr(e.orelse, k))
        if isinstance(e, ast.BoolOp):
            # value semantics: a and b -> a if falsy else b ; a or b -> a if truthy else b
            def go(vals):
                if len(vals) == 1:
                    return self.expr(vals[0], k)
                head, rest = vals[0], vals[1:]
                if isinstance(e.op, ast.And):
                    return self.expr(
                        head,
                        lambda v: "(if truthy %s then %s else %s)" % (v, go(rest), k(v)),
                    )
                return self.expr(
                    head,
                    lambda v: "(if truthy %s then %s else %s)" % (v, k(v), go(rest)),
                )

            return go(e.values)
        if isinstance(e, (ast.Compare,)) or (
            isinstance(e, ast.UnaryOp) and isinstance(e.op, ast.Not)
        ):
            return self.cond(e, k("(PBool true)"), k("(PBool false)"))
        raise Unsupported("expression %s" % type(e).__name__)

    # ---------------- conditions ----------------
    def cond(self, e, kt, kf):
        """kt/kf: Coq term text for the true / false continuation."""
        if isinstance(e, ast.UnaryOp) and isinstance(e.op, ast.Not):
            return self.cond(e.operand, kf, kt)
        if isinstance(e, ast.BoolOp):
            vals = e.values

            def go(i):
                if i == len(vals) - 1:
                    return self.cond(vals[i], kt, kf)
                if isinstance(e.op, ast.And):
                    return self.cond(vals[i], go(i + 1), kf)
                return self.cond(vals[i], kt, go(i + 1))

            return go(0)
        if (
            isinstance(e, ast.Call)
            and isinstance(e.func, ast.Name)
            and e.func.id == "isinstance"
            and len(e.args) == 2
        ):
            cls = e.args[1]
            names = (
                [c for c in cls.elts] if isinstance(cls, ast.Tuple) else [cls]
            )
            tests = []
            for c in names:
                if not (isinstance(c, ast.Name) and c.id in CLASSES):
                    raise Unsupported("isinstance class %s" % ast.dump(c))
                tests.append(CLASSES[c.id])

            def mk(v):
                t = " || ".join("isinstance %s %s" % (v, c) for c in tests)
                return "(if %s then %s else %s)" % (t, kt, kf)

            return self.expr(e.args[0], mk)
        if isinstance(e, ast.Compare):
            operands = [e.left] + list(e.comparators)
            ops = list(e.ops)

            def go(i, vals):
                # vals: coq terms of evaluated operands so far (len i+1)
                if i == len(ops):
                    return kt
                op = ops[i]

                def with_right(vr):
                    nxt = go(i + 1, vals + [vr])
                    vl = vals[i]
                    if isinstance(op, ast.LtE):
                        t = self.fresh()
                        return "(bind (py_le %s %s) (fun %s => if %s then %s else %s))" % (
                            vl, vr, t, t, nxt, kf)
                    if isinstance(op, ast.GtE):
                        t = self.fresh()
                        return "(bind (py_le %s %s) (fun %s => if %s then %s else %s))" % (
                            vr, vl, t, t, nxt, kf)
                    if isinstance(op, ast.Eq):
                        return "(if py_eq %s %s then %s else %s)" % (vl, vr, nxt, kf)
                    if isinstance(op, ast.NotEq):
                        return "(if py_eq %s %s then %s else %s)" % (vl, vr, kf, nxt)
                    if isinstance(op, (ast.Is, ast.IsNot)):
                        r = operands[i + 1]
                        if isinstance(r, ast.Name) and r.id == "UNDEFINED_VALUE":
                            tst = "match %s with PUndef => true | _ => false end" % vl
                        elif isinstance(r, ast.Constant) and r.value is None:
                            tst = "match %s with PNone => true | _ => false end" % vl
                        else:
                            raise Unsupported("is-comparison with %s" % ast.dump(r))
                        if isinstance(op, ast.Is):
                            return "(if %s then %s else %s)" % (tst, nxt, kf)
                        return "(if %s then %s else %s)" % (tst, kf, nxt)
                    raise Unsupported("comparison %s" % type(op).__name__)

                return self.expr(operands[i + 1], with_right)

            return self.expr(operands[0], lambda v0: go(0, [v0]))
        # generic: truthiness of the value
        return self.expr(e, lambda v: "(if truthy %s then %s else %s)" % (v, kt, kf))

    # ---------------- statements ----------------
    def always_exits(self, stmts):
        for s in stmts:
            if isinstance(s, (ast.Return, ast.Raise)):
                return True
            if isinstance(s, ast.If) and s.orelse:
                if self.always_exits(s.body) and self.always_exits(s.orelse):
                    return True
        return False

    def block(self, stmts, mode, k):
        """mode: 'fun' (res pyval) or 'try' (res ctl).  k: text for falling through."""
        if not stmts:
            return k
        s, rest = stmts[0], stmts[1:]
        if isinstance(s, ast.Expr) and isinstance(s.value, ast.Constant):
            return self.block(rest, mode, k)  # docstring
        if isinstance(s, ast.Pass):
            return self.block(rest, mode, k)
        if isinstance(s, ast.Return):
            if s.value is None:
                return self.ret("PNone", mode)
            return self.expr(s.value, lambda v: self.ret(v, mode))
        if isinstance(s, ast.Raise):
            return "(Raise %s)" % self.exc_name(s.exc)
        if isinstance(s, ast.Assign):
            if len(s.targets) != 1 or not isinstance(s.targets[0], ast.Name):
                raise Unsupported("assignment target")
            name = s.targets[0].id
            return self.expr(
                s.value,
                lambda v: "(let v_%s := %s in %s)" % (name, v, self.block(rest, mode, k)),
            )
        if isinstance(s, ast.If):
            cont = self.block(rest, mode, k)
            bt = self.block(s.body, mode, cont)
            bf = self.block(s.orelse, mode, cont) if s.orelse else cont
            return self.cond(s.test, bt, bf)
        if isinstance(s, ast.Try):
            if s.finalbody or s.orelse or len(s.handlers) != 1:
                raise Unsupported("try shape")
            h = s.handlers[0]
            if not (isinstance(h.type, ast.Name) and h.type.id == "Exception") or h.name:
                raise Unsupported("except clause other than `except Exception:`")
            nxt = "(Ok (CNext %s))" % self.locals_tuple()
            body = self.block(s.body, "try", nxt)
            handler = self.block(h.body, "try", nxt)
            cont = unpack_locals(self.locals, self.block(rest, mode, k))
            return (
                "(bind (catch_exception %s (fun _ => %s)) (fun c_ => match c_ with "
                "CRet r_ => %s | CNext l_ => %s end))"
                % (body, handler, self.ret("r_", mode), cont)
            )
        raise Unsupported("statement %s" % type(s).__name__)

    def locals_tuple(self):
        return "[" + "; ".join("v_" + l for l in self.locals) + "]"

    def ret(self, v, mode):
        if mode == "fun":
            return "(Ok %s)" % v
        return "(Ok (CRet %s))" % v

    def exc_name(self, e):
        if isinstance(e, ast.Call):
            e = e.func
        if isinstance(e, ast.Name) and e.id in EXC:
            return e.id
        raise Unsupported("raise of %s" % ast.dump(e))

    def translate(self, coq_name):
        self.unpack = ""
        fall = "(Ok PNone)"
        body = self.block(self.fn.body, "fun", fall)
        inits = "".join("let v_%s := PUndef in " % l for l in self.locals)
        params = " ".join("(v_%s : pyval)" % p for p in self.params)
        return "Definition %s (O : oracles) %s : res pyval :=\n  %s%s.\n" % (
            coq_name, params, inits, body)


def unpack_locals(locals_, body):
    out = body
    for i, l in reversed(list(enumerate(locals_))):
        out = "(let v_%s := nth %d l_ PUndef in %s)" % (l, i, out)
    return out


def translate_function(prefix, fn, consts, known):
    tr = FuncTranslator(prefix, fn, consts, known)
    return tr.translate(prefix + "_" + fn.name)


def module_constants(tree, prefix):
    consts, defs = {}, []
    for node in tree.body:
        if (
            isinstance(node, ast.Assign)
            and len(node.targets) == 1
            and isinstance(node.targets[0], ast.Name)
        ):
            name = node.targets[0].id
            v = node.value
            if isinstance(v, ast.UnaryOp) and isinstance(v.op, ast.USub) and isinstance(v.operand, ast.Constant) and isinstance(v.operand.value, int):
                val = -v.operand.value
            elif isinstance(v, ast.Constant) and isinstance(v.value, int) and not isinstance(v.value, bool):
                val = v.value
            else:
                continue
            cname = "%s_%s" % (prefix, name.lstrip("_"))
            defs.append("Definition %s : Z := (%d)%%Z.\n" % (cname, val))
            consts[name] = "(PInt %s)" % cname
    return consts, defs


def translate_repo(repo):
    repo = Path(repo)
    out = []
    out.append("(* GENERATED by harness/translate.py from the current working tree of the repository.\n"
               "   Do not edit; regenerated on every check run. *)\n")
    out.append("From Coq Require Import ZArith List String Bool SpecFloat.\n"
               "From TV Require Import Py.Prelude.\nImport ListNotations.\nOpen Scope Z_scope.\nOpen Scope string_scope.\n\n")
    out.append("Inductive ctl := CRet (v : pyval) | CNext (locals : list pyval).\n\n")
    # utils/values.py
    vt = ast.parse((repo / VALUES_FILE).read_text())
    known = {}
    for node in vt.body:
        if isinstance(node, ast.FunctionDef):
            out.append(translate_function("values", node, {}, known))
            known[node.name] = "values_" + node.name
            out.append("\n")
    for prefix, path, clsname in SCALAR_FILES:
        tree = ast.parse((repo / path).read_text())
        consts, defs = module_constants(tree, prefix)
        out.extend(defs)
        cls = [n for n in tree.body if isinstance(n, ast.ClassDef) and n.name == clsname]
        if len(cls) != 1:
            raise Unsupported("class %s not found in %s" % (clsname, path))
        if cls[0].bases:
            raise Unsupported("class %s has base classes" % clsname)
        methods = {n.name: n for n in cls[0].body if isinstance(n, ast.FunctionDef)}
        extra = set(methods) - {"coerce_output", "coerce_input", "parse_literal"}
        if extra:
            raise Unsupported("unexpected methods %s in %s" % (sorted(extra), clsname))
        for m in ("coerce_output", "coerce_input", "parse_literal"):
            if m not in methods:
                raise Unsupported("%s.%s missing" % (clsname, m))
            out.append(translate_function(prefix, methods[m], consts, known))
            out.append("\n")
        # anything else at class level besides docstring / methods is unsupported
        for n in cls[0].body:
            if isinstance(n, ast.FunctionDef):
                continue
            if isinstance(n, ast.Expr) and isinstance(n.value, ast.Constant):
                continue
            raise Unsupported("class-level statement in %s" % clsname)
    return "".join(out)


# ---------------------------------------------------------------- Date / Time / DateTime
# The three classes call library functions (strptime, isoformat) that are modelled by hand in
# coq/Model/Temporal.v; the translator checks that each method has EXACTLY the expected shape and
# extracts its parameters (the strptime format, the part of isoformat() returned).
TEMPORAL_FILES = [
    ("date", "tartiflette/scalar/builtins/date.py", "ScalarDate"),
    ("time", "tartiflette/scalar/builtins/time.py", "ScalarTime"),
    ("datetime", "tartiflette/scalar/builtins/datetime.py", "ScalarDateTime"),
]
T_INPUT = """
def coerce_input(self, value):
    try:
        result = super().coerce_input(value)
        return datetime.strptime(result, "__FMT__")
    except Exception:
        pass
    raise TypeError(__ANY__)
"""
T_LITERAL = """
def parse_literal(self, ast):
    if not isinstance(ast, StringValueNode):
        return UNDEFINED_VALUE
    try:
        return datetime.strptime(ast.value, "__FMT__")
    except Exception:
        pass
    return UNDEFINED_VALUE
"""
T_OUTPUT_PART = """
def coerce_output(self, value):
    try:
        return value.isoformat().split("T")[__IDX__]
    except Exception:
        pass
    raise TypeError(__ANY__)
"""
T_OUTPUT_WHOLE = """
def coerce_output(self, value):
    try:
        return value.isoformat()
    except Exception:
        pass
    raise TypeError(__ANY__)
"""


def _strip_doc(body):
    if body and isinstance(body[0], ast.Expr) and isinstance(body[0].value, ast.Constant) \
            and isinstance(body[0].value.value, str):
        return body[1:]
    return body


def _tmatch(t, a, holes):
    """structural comparison of template node t with actual node a; holes are filled in `holes`"""
    if isinstance(t, ast.Constant) and t.value == "__FMT__":
        if isinstance(a, ast.Constant) and isinstance(a.value, str):
            holes["fmt"] = a.value
            return True
        return False
    if isinstance(t, ast.Name) and t.id == "__IDX__":
        if isinstance(a, ast.Constant) and isinstance(a.value, int) and not isinstance(a.value, bool) and a.value >= 0:
            holes["idx"] = a.value
            return True
        return False
    if isinstance(t, ast.Name) and t.id == "__ANY__":
        return isinstance(a, ast.expr)
    if type(t) is not type(a):
        return False
    if isinstance(t, ast.arguments):
        return [x.arg for x in t.args] == [x.arg for x in a.args] and not (
            a.vararg or a.kwarg or a.kwonlyargs or a.posonlyargs or a.defaults or a.kw_defaults)
    if isinstance(t, ast.FunctionDef):
        return (t.name == a.name and not a.decorator_list and _tmatch(t.args, a.args, holes)
                and _tmatch_list(_strip_doc(t.body), _strip_doc(a.body), holes))
    for f in t._fields:
        if f in ("ctx", "kind", "type_comment"):
            continue
        tv, av = getattr(t, f, None), getattr(a, f, None)
        if isinstance(tv, list):
            if not isinstance(av, list) or not _tmatch_list(tv, av, holes):
                return False
        elif isinstance(tv, ast.AST):
            if not isinstance(av, ast.AST) or not _tmatch(tv, av, holes):
                return False
        elif tv != av:
            return False
    return True


def _tmatch_list(ts, as_, holes):
    return len(ts) == len(as_) and all(_tmatch(x, y, holes) for x, y in zip(ts, as_))


def _template(src):
    return ast.parse(src).body[0]


def translate_temporal(repo):
    repo = Path(repo)
    out = ["(* GENERATED by harness/translate.py (translate_temporal) from the current working tree.\n"
           "   Do not edit; regenerated on every check run. *)\n",
           "From Coq Require Import ZArith List String.\n"
           "From TV Require Import Py.Prelude Gen.Scalars_gen Model.Temporal.\nImport ListNotations.\n"
           "Open Scope string_scope.\n\n"]
    for prefix, path, clsname in TEMPORAL_FILES:
        tree = ast.parse((repo / path).read_text())
        imports = {}
        for n in tree.body:
            if isinstance(n, ast.ImportFrom):
                for a in n.names:
                    imports[a.asname or a.name] = (n.module, n.level, a.name)
            elif isinstance(n, ast.Import):
                for a in n.names:
                    imports[a.asname or a.name] = (a.name, 0, None)
        want = {"datetime": ("datetime", 0, "datetime"), "ScalarString": ("string", 1, "ScalarString"),
                "StringValueNode": ("tartiflette.language.ast", 0, "StringValueNode"),
                "UNDEFINED_VALUE": ("tartiflette.constants", 0, "UNDEFINED_VALUE")}
        for k, v in want.items():
            if imports.get(k) != v:
                raise Unsupported("%s: name %s is bound to %r, expected %r" % (path, k, imports.get(k), v))
        for n in tree.body:        # nothing at module level may rebind these names
            if isinstance(n, (ast.Assign, ast.AugAssign, ast.AnnAssign, ast.Delete, ast.Global)):
                raise Unsupported("%s: module-level statement %s" % (path, type(n).__name__))
        cls = [n for n in tree.body if isinstance(n, ast.ClassDef) and n.name == clsname]
        if len(cls) != 1:
            raise Unsupported("class %s not found in %s" % (clsname, path))
        c = cls[0]
        if [ast.dump(b) for b in c.bases] != [ast.dump(ast.Name(id="ScalarString", ctx=ast.Load()))] or c.keywords \
                or c.decorator_list:
            raise Unsupported("class %s: unexpected bases / decorators" % clsname)
        methods = {}
        for n in _strip_doc(c.body):
            if not isinstance(n, ast.FunctionDef) or n.name in methods:
                raise Unsupported("class-level statement in %s" % clsname)
            methods[n.name] = n
        if set(methods) != {"coerce_output", "coerce_input", "parse_literal"}:
            raise Unsupported("%s: methods %s" % (clsname, sorted(methods)))
        hi, hl, ho = {}, {}, {}
        if not _tmatch(_template(T_INPUT), methods["coerce_input"], hi):
            raise Unsupported("%s.coerce_input does not have the expected shape" % clsname)
        if not _tmatch(_template(T_LITERAL), methods["parse_literal"], hl):
            raise Unsupported("%s.parse_literal does not have the expected shape" % clsname)
        if _tmatch(_template(T_OUTPUT_PART), methods["coerce_output"], ho):
            sel = "(Some %d%%nat)" % ho["idx"]
        elif _tmatch(_template(T_OUTPUT_WHOLE), methods["coerce_output"], ho):
            sel = "None"
        else:
            raise Unsupported("%s.coerce_output does not have the expected shape" % clsname)
        out.append("Definition %s_input_format : string := %s.\n" % (prefix, coq_string(hi["fmt"])))
        out.append("Definition %s_literal_format : string := %s.\n" % (prefix, coq_string(hl["fmt"])))
        out.append("Definition %s_output_sel : option nat := %s.\n" % (prefix, sel))
        out.append("Definition %s_coerce_input := temporal_coerce_input %s_input_format.\n" % (prefix, prefix))
        out.append("Definition %s_parse_literal := temporal_parse_literal %s_literal_format.\n" % (prefix, prefix))
        out.append("Definition %s_coerce_output := temporal_coerce_output %s_output_sel.\n\n" % (prefix, prefix))
    return "".join(out)


def main():
    repo = sys.argv[1] if len(sys.argv) > 1 else "/repo"
    dest = sys.argv[2] if len(sys.argv) > 2 else "/verif/coq/Gen/Scalars_gen.v"
    try:
        text = translate_repo(repo)
    except (Unsupported, SyntaxError, OSError) as e:
        sys.stderr.write("translate: UNSUPPORTED: %s\n" % e)
        try:
            Path(dest).unlink()
        except OSError:
            pass
        return 2
    p = Path(dest)
    p.parent.mkdir(parents=True, exist_ok=True)      # a tree restored from version control has no coq/Gen yet
    if not p.exists() or p.read_text() != text:
        p.write_text(text)
    tdest = p.parent / "Temporal_gen.v"
    try:
        ttext = translate_temporal(repo)
    except (Unsupported, SyntaxError, OSError) as e:
        # fail closed for what depends on these three modules only (Properties/C10Temporal.v and the temporal
        # case files of C10 no longer compile); every other property keeps its own tie
        sys.stderr.write("translate: UNSUPPORTED (temporal): %s\n" % e)
        ttext = "(* GENERATED: the Date/Time/DateTime modules are outside the supported shape:\n   %s *)\n" % (
            str(e).replace("*)", "* )"))
    if not tdest.exists() or tdest.read_text() != ttext:
        tdest.write_text(ttext)
    return 0


if __name__ == "__main__":
    sys.exit(main())
