"""C14 — subscriptions answer every source event once, in order."""
import asyncio
import json
import random

from . import common, coqterm, gen, execgen, c01
from .c04 import fresh_schema_name
from .coqterm import coq_list, coq_string, coq_option

C14_FILES = ["Properties/C14.v", "Model/SubscribeValidated.v"]


def gen_sub_case(rng, s):
    dg = execgen.DocGen(rng, s)
    dg.make_fragments(rng.randrange(0, 3))
    flds = s["types"]["Subscription"]["fields"]
    f = rng.choice(flds)
    with_args = [x for x in flds if x.get("args")]
    if with_args and rng.random() < 0.35:
        # the source's arguments come from a variable whose RAW value differs from its coerced value: a declared
        # default with the variable omitted, a single value for a list type, a number for an ID
        f = rng.choice(with_args)
        a = rng.choice(f["args"])
        t = a["type"]
        kind = s["types"].get(gen.named_of(f["type"]), {"kind": "SCALAR"})["kind"]
        sub = " { __typename }" if kind in ("OBJECT", "INTERFACE", "UNION") else ""
        others = " ".join("%s: %s" % (b["name"], gen.lit_sdl(gen.gen_literal(rng, s, b["type"], good=True, nullable=False)))
                          for b in f["args"] if b is not a and b["type"][0] == "nonnull" and b.get("default") is None)
        inner = t[1] if t[0] == "nonnull" else t
        variables = {}
        lit = gen.gen_literal(rng, s, inner, good=True, nullable=False)
        if inner[0] == "list" and rng.random() < 0.5:
            item = inner[1][1] if inner[1][0] == "nonnull" else inner[1]
            if item[0] == "named":
                variables["v"] = gen.gen_json(rng, s, item, good=True)       # single value for a list type
                decl = "$v: %s" % gen.type_sdl(t)
            else:
                decl = "$v: %s = %s" % (gen.type_sdl(inner), gen.lit_sdl(lit))
        else:
            decl = "$v: %s = %s" % (gen.type_sdl(inner), gen.lit_sdl(lit))        # default applies: variable omitted
        if variables.get("v", 0) is None:
            variables.pop("v")
            decl = "$v: %s = %s" % (gen.type_sdl(inner), gen.lit_sdl(lit))
        q = "subscription S(%s) { %s(%s: $v %s)%s }" % (decl, f["name"], a["name"], others, sub)
        orc = execgen.Oracle(s, rng.randrange(1 << 30), 0.05, 0.0)
        events = [{f["name"]: orc.value(orc.rng_for("ev", i), f["type"], 0)} for i in range(rng.randrange(1, 4))]
        return {"query": q, "variables": variables, "opname": None, "field": f["name"], "events": events,
                "oracle_seed": rng.randrange(1 << 30)}
    body = dg.field(f, 0)
    # a root field must not be skipped for the stream to exist; keep directives only below it
    import re
    frag_texts = {n: "fragment %s on %s { %s }" % (n, c, b) for n, c, b in dg.fragments}

    def reach(text):
        used, frontier = set(), [n for n in frag_texts if re.search(r"\.\.\.%s\b" % n, text)]
        while frontier:
            n = frontier.pop()
            if n in used:
                continue
            used.add(n)
            frontier += [m for m in frag_texts if re.search(r"\.\.\.%s\b" % m, frag_texts[n])]
        return used

    used = reach(body)
    text = body + " " + " ".join(frag_texts[n] for n in used)
    names = [n for n in dg.vars if re.search(r"\$%s\b" % n, text)]
    decl = ", ".join("$%s: %s" % (n, gen.type_sdl(dg.vars[n][0])) for n in names)
    decl = "(%s)" % decl if decl else ""
    q = "subscription S%s { %s } %s" % (decl, body, " ".join(frag_texts[n] for n in used))
    variables = {n: v for n, (_t, v) in dg.vars.items() if v is not dg.ABSENT and n in names}
    if rng.random() < 0.12 and names:           # provoke a variable-coercion refusal
        variables[names[0]] = {"bad": ["value"]}
    opname = None if rng.random() < 0.8 else rng.choice(["S", "Nope"])
    # events
    orc = execgen.Oracle(s, rng.randrange(1 << 30), 0.05, 0.0)
    events = []
    for i in range(rng.randrange(0, 5)):
        r = rng.random()
        if r < 0.1:
            events.append(None)
        elif r < 0.2:
            events.append(rng.choice([{}, 5, "x", []]))
        else:
            events.append({f["name"]: orc.value(orc.rng_for("ev", i), f["type"], 0)})
    return {"query": q, "variables": variables, "opname": opname, "field": f["name"], "events": events,
            "oracle_seed": rng.randrange(1 << 30)}


async def run_schema(s, cases, schema_name):
    from tartiflette import Subscription
    rec = execgen.Recorder()
    ctx_obj = {"ctx": 1}
    oracle_ref = [None, ctx_obj]
    current = {"events": [], "started": []}
    for f in s["types"]["Subscription"]["fields"]:
        def mk(fname):
            @Subscription("Subscription." + fname, schema_name=schema_name)
            async def gen_(parent, args, ctx, info):
                current["started"].append((fname, dict(args)))
                evs = list(current["events"])          # this stream's own events, fixed when the source starts
                for ev in evs:
                    yield ev
        mk(f["name"])
    engine = await execgen.build_engine(s, schema_name, oracle_ref, rec)
    out = []
    for c in cases:
        current["events"] = [execgen.realise(e) for e in c["events"]]
        current["started"] = []
        responses, raised = [], None
        rec.clear()
        oracle_ref[0] = execgen.Oracle(s, c["oracle_seed"], 0.05, 0.08)
        per_event = []
        try:
            agen = engine.subscribe(c["query"], operation_name=c["opname"], variables=c["variables"], context=ctx_obj)
            i = 0
            while True:
                rec.clear()
                oracle_ref[0] = execgen.Oracle(s, c["oracle_seed"] + i, 0.05, 0.08)
                try:
                    resp = await agen.__anext__()
                except StopAsyncIteration:
                    break
                responses.append(resp)
                per_event.append({"calls": list(rec.calls), "tr_calls": list(rec.tr_calls)})
                i += 1
                if i > 50:
                    break
        except Exception as e:  # pylint: disable=broad-except
            raised = repr(e)
        # the engine's own answer for executing the request against each event
        direct = []
        if current["started"] and not raised:
            for i, ev in enumerate(current["events"]):
                rec.clear()
                oracle_ref[0] = execgen.Oracle(s, c["oracle_seed"] + i, 0.05, 0.08)
                direct.append(await engine.execute(c["query"], operation_name=c["opname"], variables=c["variables"],
                                                   context=ctx_obj, initial_value=ev))
        out.append({"responses": responses, "raised": raised, "started": list(current["started"]),
                    "per_event": per_event, "direct": direct})
    # interleaved consumption: two streams live at the same time on this engine (same root field when possible), the
    # one opened first ending while the other is suspended between events; each must answer as it did alone
    good = [i for i, (c, o) in enumerate(zip(cases, out)) if o["started"] and not o["raised"] and len(c["events"]) >= 1
            and len(o["responses"]) == len(c["events"])]
    pairs = []
    for i in good:
        same = [j for j in good if j != i and cases[j]["field"] == cases[i]["field"] and len(cases[j]["events"]) > len(cases[i]["events"])]
        other = [j for j in good if j != i and len(cases[j]["events"]) > len(cases[i]["events"])]
        if same:
            pairs.append((i, same[0]))
        elif other and len(pairs) < 6:
            pairs.append((i, other[0]))
    inter = []
    for i, j in pairs[:12]:
        a, b = cases[i], cases[j]
        got = {i: [], j: []}
        raised = None
        try:
            async def pull(k, c, agen):
                oracle_ref[0] = execgen.Oracle(s, c["oracle_seed"] + len(got[k]), 0.05, 0.08)
                rec.clear()
                try:
                    got[k].append(await agen.__anext__())
                    return True
                except StopAsyncIteration:
                    return False
            current["events"] = [execgen.realise(e) for e in a["events"]]
            ga = engine.subscribe(a["query"], operation_name=a["opname"], variables=a["variables"], context=ctx_obj)
            await pull(i, a, ga)
            current["events"] = [execgen.realise(e) for e in b["events"]]
            gb = engine.subscribe(b["query"], operation_name=b["opname"], variables=b["variables"], context=ctx_obj)
            await pull(j, b, gb)
            while await pull(i, a, ga):           # the first stream runs to its end (and is torn down) ...
                if len(got[i]) > 60:
                    break
            while await pull(j, b, gb):           # ... while the second was suspended between two events
                if len(got[j]) > 60:
                    break
        except Exception as e:  # pylint: disable=broad-except
            raised = repr(e)
        inter.append({"first": i, "second": j, "got_first": got[i], "got_second": got[j], "raised": raised})
    run_schema.interleaved = inter
    return out


TEMPORAL_SDL = """
input When { days: [Date!] at: DateTime tags: [String] }
type Tick { n: Int day: Date }
type Query { ping: Int }
type Subscription { ticks(days: [Date!], at: [DateTime], w: When, label: String, n: Int, on: Boolean, x: Float): Tick }
"""
# the SAME subscription text several times on one engine: each request's variables are coerced for THAT request -- a value
# that equals an earlier one in Python (True == 1 == 1.0) but has another type is refused / coerced on its own
SEQUENCE_REQUESTS = [
    ("subscription ($n: Int!) { ticks(n: $n) { n } }", {"n": 1}, False),
    ("subscription ($n: Int!) { ticks(n: $n) { n } }", {"n": True}, True),
    ("subscription ($n: Int!) { ticks(n: $n) { n } }", {"n": 1.0}, False),
    ("subscription ($n: Int!) { ticks(n: $n) { n } }", {"n": 1.5}, True),
    ("subscription ($on: Boolean!) { ticks(on: $on) { n } }", {"on": True}, False),
    ("subscription ($on: Boolean!) { ticks(on: $on) { n } }", {"on": 1}, True),
    ("subscription ($on: Boolean!) { ticks(on: $on) { n } }", {"on": False}, False),
    ("subscription ($on: Boolean!) { ticks(on: $on) { n } }", {"on": 0}, True),
    ("subscription ($x: Float!) { ticks(x: $x) { n } }", {"x": 1}, False),
    ("subscription ($x: Float!) { ticks(x: $x) { n } }", {"x": True}, True),
    ("subscription ($n: Int!) { ticks(n: $n) { n } }", {}, True),
    ("subscription ($n: Int!) { ticks(n: $n) { n } }", {"n": 1}, False),
]
TEMPORAL_REQUESTS = [
    # variables whose coerced value is NOT accepted as a raw value again (a Date is parsed from a string; the parsed
    # date is not a string): whatever the engine does with the variables per event, every event is answered like
    # executing the request against that event
    ("subscription ($d: [Date!]) { ticks(days: $d) { n day } }", {"d": ["2020-01-02", "2021-03-04"]}),
    ("subscription ($d: [Date!], $a: [DateTime]) { ticks(days: $d, at: $a) { n } }",
     {"d": ["2020-01-02"], "a": ["2020-01-02T03:04:05", None]}),
    ("subscription ($w: When) { ticks(w: $w) { n day } }", {"w": {"days": ["2019-12-31"], "at": "2020-01-02T03:04:05", "tags": ["x"]}}),
    ("subscription ($d: Date!) { ticks(days: [$d]) { n } }", {"d": "2020-02-29"}),
    ("subscription ($l: String = \"z\") { ticks(label: $l) { n } }", {}),
]


async def temporal_variable_scenario():
    """Hand schema with the library's Date / DateTime scalars in list and input-object variables."""
    import copy as _copy
    from tartiflette import create_engine, Subscription, Resolver
    name = fresh_schema_name("c14temporal")
    started = []
    events = [{"ticks": {"n": i, "day": None}} for i in range(3)]

    @Subscription("Subscription.ticks", schema_name=name)
    async def ticks(parent, args, ctx, info):      # pylint: disable=unused-variable
        started.append(repr(sorted(args.items())))
        for ev in events:
            yield ev

    @Resolver("Query.ping", schema_name=name)
    async def ping(parent, args, ctx, info):       # pylint: disable=unused-variable
        return 1

    engine = await create_engine(TEMPORAL_SDL, schema_name=name)
    problems, n = [], 0
    for q, variables in TEMPORAL_REQUESTS:
        given = _copy.deepcopy(variables)
        del started[:]
        got, raised = [], None
        try:
            async for r in engine.subscribe(q, variables=given):
                got.append(r)
                if len(got) > 10:
                    break
        except Exception as e:  # pylint: disable=broad-except
            raised = repr(e)
        want = [await engine.execute(q, variables=_copy.deepcopy(variables), initial_value=ev) for ev in events]
        n += len(events)
        if raised or len(started) != 1 or [_canon(x) for x in got] != [_canon(x) for x in want]:
            problems.append({"sdl": TEMPORAL_SDL, "query": q, "variables": variables, "events": events, "raised": raised,
                             "source_started": list(started), "responses": got,
                             "executing_the_request_against_each_event": want})
    # one text, several requests in a row
    for idx, (q, variables, must_refuse) in enumerate(SEQUENCE_REQUESTS):
        del started[:]
        got, raised = [], None
        try:
            async for r in engine.subscribe(q, variables=_copy.deepcopy(variables)):
                got.append(r)
                if len(got) > 10:
                    break
        except Exception as e:  # pylint: disable=broad-except
            raised = repr(e)
        n += 1
        if must_refuse:
            ok = not raised and not started and len(got) == 1 and got[0].get("data") is None and got[0].get("errors")
            what = "a request whose variables fail coercion must yield one errors-only response without starting the source"
        else:
            want = [await engine.execute(q, variables=_copy.deepcopy(variables), initial_value=ev) for ev in events]
            ok = not raised and len(started) == 1 and [_canon(x) for x in got] == [_canon(x) for x in want]
            what = "every event answered like executing the request against it"
        if not ok:
            problems.append({"sdl": TEMPORAL_SDL, "query": q, "variables": variables, "events": events, "raised": raised,
                             "source_started": list(started), "responses": got, "expected": what,
                             "executing_the_request_against_each_event": None,
                             "requests_before_on_this_engine": [(a, b) for a, b, _c in SEQUENCE_REQUESTS[:idx]]})
    return problems, n


async def live_state_scenario():
    """A source that keeps ONE mutable payload, updates it in place and re-yields it per event, consumed in lock step
    (seed C14-h): response k must be computed from the state at event k -- the engine may not run the source ahead of the
    response it is producing -- and when response k is handed over the source has produced exactly k+1 events."""
    from tartiflette import create_engine, Subscription, Resolver
    name = fresh_schema_name("c14live")
    progress = []

    @Subscription("Subscription.ticks", schema_name=name)
    async def ticks(parent, args, ctx, info):      # pylint: disable=unused-variable
        state = {"n": 0, "day": None}
        payload = {"ticks": state}
        for i in range(4):
            state["n"] = i
            progress.append(i)
            yield payload

    @Resolver("Query.ping", schema_name=name)
    async def ping(parent, args, ctx, info):       # pylint: disable=unused-variable
        return 1

    engine = await create_engine(TEMPORAL_SDL, schema_name=name)
    problems, n = [], 0
    for q in ("subscription { ticks { n } }", "subscription { a: ticks { n m: n } }"):
        del progress[:]
        got, seen_progress, raised = [], [], None
        try:
            async for r in engine.subscribe(q):
                got.append(json.loads(json.dumps(r)))
                seen_progress.append(list(progress))
                await asyncio.sleep(0)
        except Exception as e:  # pylint: disable=broad-except
            raised = repr(e)
        n += 4
        key = "a" if "a:" in q else "ticks"
        want = [{"data": {key: ({"n": i, "m": i} if key == "a" else {"n": i})}} for i in range(4)]
        want_progress = [list(range(k + 1)) for k in range(4)]
        if raised or got != want or seen_progress != want_progress:
            problems.append({"sdl": TEMPORAL_SDL, "query": q, "variables": {}, "raised": raised,
                             "events": "one dict updated in place and re-yielded: n = 0, 1, 2, 3",
                             "responses": got, "executing_the_request_against_each_event": want,
                             "events_the_source_had_produced_when_each_response_arrived": seen_progress,
                             "expected_progress": want_progress})
    return problems, n


def _canon(resp):
    # engine-authored texts may quote the repr of a user object: addresses differ from run to run
    import re
    return re.sub(r"0x[0-9a-fA-F]+", "0x", json.dumps(resp, sort_keys=True, default=repr))


def multi_root_cases(rng, s):
    """Subscriptions with MORE than one root field, the extra one reached directly, through inline fragments or through
    named fragments: validation must refuse them -- one errors-only response, no source started."""
    flds = [f for f in s["types"]["Subscription"]["fields"]
            if not any(a["type"][0] == "nonnull" and a.get("default") is None for a in f.get("args", []))]
    if not flds:
        return []

    def sel(f, alias=None):
        kind = s["types"].get(gen.named_of(f["type"]), {"kind": "SCALAR"})["kind"]
        sub = " { __typename }" if kind in ("OBJECT", "INTERFACE", "UNION") else ""
        return "%s%s%s" % (alias + ": " if alias else "", f["name"], sub)
    f1 = rng.choice(flds)
    f2 = rng.choice(flds)
    a, b = sel(f1, "ka"), sel(f2, "kb")
    docs = [
        "subscription { %s %s }" % (a, b),
        "subscription { %s ... on Subscription { %s } }" % (a, b),
        "subscription { ... on Subscription { %s } ... { %s } }" % (a, b),
        "subscription { ...F } fragment F on Subscription { %s ... on Subscription { %s } }" % (a, b),
        "subscription { %s ...G } fragment G on Subscription { %s }" % (a, b),
        "subscription { ... { ... { %s } } ... on Subscription { ...G } } fragment G on Subscription { %s }" % (a, b),
    ]
    orc = execgen.Oracle(s, rng.randrange(1 << 30), 0.0, 0.0)
    out = []
    for q in docs:
        events = [{f1["name"]: orc.value(orc.rng_for("ev", i), f1["type"], 0),
                   f2["name"]: orc.value(orc.rng_for("ev2", i), f2["type"], 0)} for i in range(2)]
        out.append({"query": q, "variables": {}, "opname": None, "field": f1["name"], "events": events,
                    "oracle_seed": rng.randrange(1 << 30), "must_refuse": "single-root-field"})
    return out


def main(tier_, replay=None):
    from . import engine_env
    rep = common.Report("C14")
    seed = common.seed()
    b = common.build(["Properties/C14.vo", "Model/RunExec.vo", "Model/StdScalars.vo"])
    gate = common.grep_gate()
    proofs_ok = b["ok"] and not gate
    engine_env.setup()
    rng = random.Random(seed * 31337 + 14)
    n_schemas, n_cases = (4, 25) if tier_ == "quick" else (24, 80)
    cfg = {"parent": True, "list": True, "args": "gather"}
    files, meta = [], []
    viol, total_events, total_streams, refused = [], 0, 0, 0
    distinct_events = set()
    interleaved_total = 0
    for si in range(n_schemas):
        s = execgen.gen_exec_schema(rng, with_subscription=True)
        for f in s["types"]["Subscription"]["fields"]:
            if rng.random() < 0.5:
                s["resolvers"].discard(("Subscription", f["name"]))
                s["field_type_resolvers"].discard(("Subscription", f["name"]))
        cases = [gen_sub_case(rng, s) for _ in range(n_cases)]
        cases += multi_root_cases(random.Random(seed * 977 + si), s)      # at the END: indices of the streams above stay aligned
        runs = asyncio.run(run_schema(s, cases, fresh_schema_name("c14")))
        for it in getattr(run_schema, "interleaved", []):
            interleaved_total += 1
            for k, gk in ((it["first"], it["got_first"]), (it["second"], it["got_second"])):
                solo = runs[k]["responses"]
                if it["raised"] or [_canon(x) for x in gk] != [_canon(x) for x in solo]:
                    viol.append((s, cases[k], dict(runs[k], responses=gk),
                                 "consumed interleaved with another live stream of this engine (%s), the stream yields %d "
                                 "responses %s; alone it yields %d" % (
                                     "opened first, ended while the other was suspended" if k == it["first"] else
                                     "suspended while the stream opened before it ended", len(gk), it["raised"] or "", len(solo))))
                    break
        ev_cases, ev_asts, ev_runs, streams = [], [], [], []
        all_asts = []          # number lexemes of EVERY stream's document (also streams without events) for the float() table
        for c, r in zip(cases, runs):
            total_streams += 1
            if c.get("must_refuse"):
                refused += 1
                rs = r["responses"]
                if r["raised"] or r["started"] or len(rs) != 1 or rs[0].get("data") is not None or not rs[0].get("errors"):
                    viol.append((s, c, r, "a subscription with several root fields (rule %s) was not refused with a single "
                                 "errors-only response before any source started: started=%r raised=%r" % (
                                     c["must_refuse"], r["started"], r["raised"])))
                continue
            ast = gen.parse_query(c["query"])
            all_asts.append(ast)
            started = bool(r["started"])
            if r["raised"]:
                sob = "SObsRaised"
            elif not started:
                refused += 1
                if len(r["responses"]) != 1 or r["responses"][0].get("data") is not None or not r["responses"][0].get("errors"):
                    viol.append((s, c, r, "refused request did not yield a single errors-only response"))
                    continue
                sob = "(SObsRefused %s)" % execgen.observation_coq(r["responses"][0], c01.RecView({"calls": [], "tr_calls": []}))
            else:
                if len(r["started"]) != 1:
                    viol.append((s, c, r, "source started %d times" % len(r["started"])))
                if len(r["responses"]) != len(c["events"]):
                    viol.append((s, c, r, "%d responses for %d events" % (len(r["responses"]), len(c["events"]))))
                    continue
                for i, (resp, d) in enumerate(zip(r["responses"], r["direct"])):
                    if _canon(resp) != _canon(d):
                        viol.append((s, c, r, "response #%d differs from executing the request against event #%d" % (i, i)))
                        break
                sob = "(SObsStream %s %d)" % (coq_list(["(%s, %s)" % (coq_string(k), execgen.model_value(v))
                                                         for k, v in r["started"][0][1].items()]), len(r["responses"]))
                for i, ev in enumerate(c["events"]):
                    total_events += 1
                    distinct_events.add((c["query"], json.dumps(c["variables"], sort_keys=True, default=repr), repr(ev)))
                    ev_cases.append({"query": c["query"], "variables": c["variables"], "opname": c["opname"],
                                     "root": ev, "oracle_seed": c["oracle_seed"] + i})
                    ev_asts.append(ast)
                    ev_runs.append({"response": r["responses"][i], "calls": r["per_event"][i]["calls"],
                                    "tr_calls": r["per_event"][i]["tr_calls"], "raised": None, "serialisable": True,
                                    "ctx_ok": True})
            raw = coq_list(["(%s, %s)" % (coq_string(k), execgen.model_value(v)) for k, v in c["variables"].items()])
            streams.append("(%s, %s, %s, %s, %s)" % (
                gen.document_coq(ast), coq_option(coq_string(c["opname"]) if c["opname"] else None), raw,
                coq_list([execgen.model_value(e) for e in c["events"]]), sob))
        sources = coq_list([coq_string(f["name"]) for f in s["types"]["Subscription"]["fields"]])
        sub_eval = ("Definition streams : list (document * option string * vars * list pyval * sobs) := %s.\n"
                    'Eval vm_compute in ("sub_mismatch", idx_where (fun c => match c with (doc, opn, raw, evs, ob) => '
                    "negb (sub_agree sch doc cfg %s opn raw evs ob) end) streams 0).\n") % (coq_list(streams), sources)
        step = 40
        for j in range(0, max(1, len(ev_cases)), step):
            files.append(("C14_s%d_%d_%d" % (seed, si, j),
                          c01.cases_file(s, ev_cases[j:j + step], ev_asts[j:j + step], ev_runs[j:j + step], cfg,
                                         c01.IMPL_EVAL + c01.SPEC_EVAL + (sub_eval if j == 0 else ""), extra_asts=all_asts)))
            meta.append((s, ev_cases[j:j + step], ev_runs[j:j + step], cases if j == 0 else None))
    results = common.run_coq_many(files)
    impl_mm = []
    for (s, evc, evr, cases), (ok, so, se) in zip(meta, results):
        if not ok:
            rep.violation({"property": "C14", "what": "case file failed to evaluate", "stderr": se[-1500:]}, no_input=True)
            continue
        verdicts = c01.parse_int_list(so, "verdicts") or []
        for i, v in enumerate(verdicts):
            if v & (1 | 2 | 4 | 8 | 16):
                viol.append((s, evc[i], evr[i], "per-event response violates C01/C02/C03 semantics (verdict %d)" % v))
        for i in common.parse_Z_list(so, "impl_mismatch") or []:
            impl_mm.append((s, evc[i], evr[i], "event response"))
        for i in common.parse_Z_list(so, "sub_mismatch") or []:
            impl_mm.append((s, cases[i] if cases else {}, {}, "stream shape / source arguments"))
    temporal_problems, temporal_events = asyncio.run(temporal_variable_scenario())
    live_problems, live_events = asyncio.run(live_state_scenario())
    temporal_problems = temporal_problems + live_problems
    total_events += temporal_events + live_events
    for pr in temporal_problems[:3]:
        rep.violation(dict(pr, property="C14", kind="a stream (list / input-object variables of Date / DateTime; a source re-yielding one mutable "
                           "payload) does not answer each event like executing the request against it at that event", responses=repr(pr["responses"])[:2000],
                           executing_the_request_against_each_event=repr(pr["executing_the_request_against_each_event"])[:2000]))
    for s, c, r, why in viol[:5]:
        rep.violation({"property": "C14", "kind": why, "sdl": gen.schema_sdl(s), "query": c.get("query"),
                       "variables": c.get("variables"), "opname": c.get("opname"), "events": repr(c.get("events"))[:1500],
                       "responses": repr(r.get("responses", r.get("response")))[:3000]})
    if not viol and not temporal_problems:
        if not proofs_ok:
            rep.violation({"property": "C14", "what": "proof obligation no longer checks", "file": b.get("failed_file"),
                           "theorem": b.get("failed_lemma"), "gate": gate, "log_tail": b["log"][-1500:]}, no_input=True)
        elif impl_mm:
            s, c, r, what = impl_mm[0]
            rep.violation({"property": "C14", "what": "correspondence broken (%s)" % what, "n": len(impl_mm),
                           "sdl": gen.schema_sdl(s), "query": c.get("query"), "variables": c.get("variables"),
                           "events": repr(c.get("events"))[:1000]}, no_input=True)
    nob, names = common.count_obligations(C14_FILES)
    assum = common.assumptions("Properties/C14.v") if b["ok"] else {"closed": 0, "axioms": ["build failed"]}
    common.write_evidence("C14", tier_, "proof", {
        "obligations": nob, "discharged": nob if proofs_ok else 0,
        "checker_cmd": "make Properties/C14.vo", "trusted_base": common.TRUSTED_BASE + [
            "Print Assumptions: %d theorems closed; axioms: %s" % (assum["closed"], assum["axioms"] or "none")],
        "theorems": [n for n in names if n.startswith("C14_")],
        "evaluations": total_streams + total_events, "distinct_nontrivial": len(distinct_events),
        "streams": total_streams, "events_answered": total_events, "interleaved_pairs": interleaved_total,
        "rule": "subscription documents x finite event sequences (well-formed payloads, nulls, garbage), consumed "
                "event by event; evaluations = streams opened + events answered; non-trivial = distinct (document, variables, "
                "event) triples answered and compared with execute(initial_value=event)",
        "traces_validated_against_impl": total_events, "refused_streams": refused,
        "impl_model_mismatches": len(impl_mm), "property_violations": len(viol),
        "samples": [{"query": c["query"], "events": repr(c["events"])[:300]} for c in (meta[0][3] or [])[:2]] if meta else [],
    }, rep.wall(), violations=len(rep.violations),
        assumptions_=["async-generator protocol details (aclose, cancellation) outside the model"])
    return rep.finish()
