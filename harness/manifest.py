#!/usr/bin/env python3
"""Regenerates /verif/MANIFEST.json from the table below (single source of truth)."""
import json
from pathlib import Path

VERIF = Path(__file__).resolve().parent.parent

CHECKS = {
    "C10": dict(
        technique="Coq proof over a model regenerated from source (translator) + differential correspondence",
        text="21 theorems (wire type/same value, input acceptance iff, literal=variable, idempotence) for "
             "Int/Float/String/Boolean/ID, quantified over the whole Python value universe and every "
             "float()/str() oracle, proved about Gallina definitions REGENERATED on every run from "
             "scalar/builtins/*.py and utils/values.py by a fail-closed ast translator; the prelude "
             "(semantics of isinstance/int/float/str/isfinite/floor/comparisons) is validated by running "
             "the real scalar objects on a boundary+random pool and comparing inside Coq. Date/Time/DateTime "
             "(Properties/C10Temporal.v, 17 theorems for ALL dates and times): the translator extracts the "
             "strptime formats and the isoformat() part from the three modules (strict shape match, "
             "Gen/Temporal_gen.v); Model/Temporal.v models CPython's _strptime regex alternatives, the datetime "
             "range checks, isoformat and split; proved: canonical strings of real calendar/clock values are "
             "accepted and denote them, nothing else is, output renders the canonical text, input/output are "
             "mutually inverse on produced values, literal = variable. The library model is tied by running the "
             "real scalars on canonical / invalid-calendar / near-miss spellings / foreign values (compared "
             "inside Coq) and the laws are searched for a concrete failing input on the real scalars.",
        note="Trusted: Coq kernel + vm_compute, translate.py, Py/Prelude.v, float(str)/str(value) oracles; "
             "Model/Temporal.v as a model of datetime.strptime/isoformat on ASCII input (non-ASCII decimal digits, "
             "tz-aware values, subclasses outside it).",
        design="4 C10"),
    "C04": dict(
        technique="Coq refinement proof impl-model = spec-model + differential correspondence vs real engine",
        text="Theorems (all schemas, variable definitions, raw JSON, fuel): the implementation model of "
             "coerce_variables (coercer chains folded from the peeled wrapper list, accumulator merge loops) "
             "EQUALS the specification model CoerceVariableValues (recursion on the type, declarative error "
             "collection); errors sound+complete per offending variable; value xor errors; extra variables "
             "ignored; absent stays absent; single values wrapped at every list level. The hand-written impl "
             "model is tied to /repo by running generated (types x defaults x JSON values x presence) requests "
             "through the real engine and comparing info.variable_values / error attribution inside Coq with "
             "both models; leaves are the scalar definitions regenerated from source. "
             "45 absolute leaf expectations (value -> refused / delivered value with its Python type; top level, list items, input-object fields; two orders) guard the scalar input rules at variable positions independently of the models, which take those rules from the source. "
             "Twin schemas: two engines of one process define the same type names differently (input fields of other types, other enum values, another scalar implementation) and get the same operation texts, in both orders -- each coerces by its own schema.",
        note="Trusted: Coq kernel, correspondence harness (generators, printer), parser stand-in, translator for "
             "scalar leaves; directive hooks absent from this model (C13); custom scalars are oracle triples.",
        design="4 C04"),
    "C05": dict(
        technique="Coq theorems on the impl model of argument/literal coercion + differential correspondence "
                  "with pairwise spelling comparison on the real engine",
        text="Theorems (all schemas, types, variable maps): variables are substituted as-is at every position "
             "of every type (value, or invalid when missing/null at non-null); a variable passed directly "
             "delivers its coerced value; omitted vs explicit null vs unprovided variable; schema default = "
             "same literal written explicitly; errors are local to the argument; REFINEMENT: for every argument "
             "definition, node, variable map and fuel the implementation model's argument_coercer (and the "
             "whole argument map) gives the outcome of the specification's CoerceArgumentValues written "
             "independently in Model/SpecArgs.v (no entry / this value / field error), and the literal coercer chain "
             "equals the coercion of a literal by recursion on the declared type (Model/SpecLiteral.v) for every "
             "schema, type, literal, variables, fuel. Leaf literal=variable laws "
             "are the C10 theorems. The impl model is tied to /repo by generated requests that spell one value "
             "as literal / variable / nested variable / variable default / schema default / null / omitted; "
             "the dictionaries the real resolvers receive are compared with the model inside Coq and with "
             "each other. TYPE SOUNDNESS (Properties/C05Typing.v, Model/InputTyping.v has_type): a literal coerces to a value of "
             "the declared type or to 'invalid'; coerced variables are values of their declared types; rule 5.8.5 as "
             "implemented is a sub-typing check; hence every entry of the argument dictionary is a value of the argument's "
             "declared type -- under named assumptions on the schema (scalar coercers return leaf values and never None: PROVED "
             "for the five built-in scalars as regenerated from /repo, Proofs/BuiltinLeaves.v; literals are well-formed AST values; "
             "input field names unique; nothing is assumed of input-field defaults since the repair a67e006, found by this proof) and, for "
             "variables NESTED in list/object literals, under the premise that they are well-typed for their position (the "
             "engine does not apply 5.8.5 there: known finding C07-nested-variable-usage). "
             "DIRECTIVE positions are tied to field positions on the engine: every request is also executed with its arguments moved to a FIELD directive whose hook records directive_args, and both texts a second time on the same engine with other runtime values (parse-cache hit); hook and resolver must receive the same dictionary per spelling. "
             "A list position given ONE value without brackets (with a variable inside the value) is one of the spellings.",
        note="Trusted: Coq kernel, correspondence harness, parser stand-in, scalar translator; directive "
             "argument positions use the same coerce_arguments code path and are exercised by C13's check.",
        design="4 C05"),
    "C01": dict(
        technique="Coq refinement proof implementation executor -> specification executor (data), CollectFields refinement, key "
                  "uniqueness/order/merging + spec-executor verdict and differential correspondence on the real engine",
        text="Proved for all schemas/documents/variables/user code/configurations (C01_data_refines_spec): whenever the "
             "specification's execution algorithm (CollectFields, ExecuteSelectionSet, ExecuteField, CompleteValue with the error "
             "rule of 6.4.4, transcribed in Model/SpecExec.v) yields a result, the implementation model (accumulator-passing "
             "collect_fields / collect_subfields over merged nodes, state-passing execute_fields in both sibling strategies, "
             "the folded output coercer chain, raise/catch/MultipleException merging, abstract type resolution, default "
             "resolvers) answers with exactly that data; per field at every depth (C01_field_refines_spec); collect_fields "
             "computes the grouping of the specification's traversal; response keys appear once, in first-appearance order, "
             "each holding exactly the fields selecting it. The hand-written implementation model is run against the real "
             "engine on generated requests (aliases, repeated keys, fragment DAGs with sharing, type conditions, "
             "@skip/@include incl. both on one node, variables incl. null at defaulted non-null arguments, three ways of naming "
             "the runtime type) and compared inside Coq on data, errors and the resolver call log; each observation is also "
             "judged by the specification executor. Also proved (Proofs/ExecCalls.v): the resolver invocations of a request are at pairwise different response paths (no resolver is called twice for one response key and parent), for every configuration. PARTIAL: equality of the resolver call log with the specification's is "
             "decided per run. "
             "Parents of fields without resolver come as dicts, attribute objects, subscript-only records (not Mappings: sqlite3.Row style) and attribute objects whose attribute access raises (hand witnesses and fault kinds rec_parent / attr_raises). "
             "Every request is executed a second time on the same engine and must be answered identically (response and resolver invocations).",
        note="Trusted: Coq kernel, correspondence harness + generators, parser stand-in; directive hooks other than "
             "@skip/@include absent (C13); errors and call log compared as multisets; message texts not compared.",
        design="4 C01"),
    "C02": dict(
        technique="Coq invariants by induction over the execution model + exhaustive single-fault enumeration "
                  "against the specification executor on the real engine",
        text="Proved for every user code (oracles may return or raise anything), schema, document, configuration: "
             "errors is append-only; every error recorded while the field at path p is resolved/completed is located "
             "at or below p (list indices included); raised exception lists are non-empty and located below p; a "
             "nullable field never raises and a failed one becomes null with >=1 error; a failed non-null field "
             "propagates; execute never raises; data:null always has an error. The check fails every resolver call "
             "site of fault-free runs in turn with 7 failure kinds and verifies on the engine's response: data equals "
             "the specification executor's (null propagation to the nearest nullable ancestor, nothing else changes), "
             "every failure origin is reported, no error points elsewhere, every error path leads to a null. "
             "Theorem C02_errors_are_exactly_the_specified_origins (Proofs/ExecOrigins.v, with the C01 refinement): for "
             "queries with sibling fields all executed, whenever the specification's ExecuteQuery yields (data, origins) "
             "the model returns that data -- so exactly the specification's nearest nullable positions are null and "
             "every other part is untouched -- and the paths of `errors` are exactly the origins (every origin "
             "reported, no entry elsewhere), for all inputs. PARTIAL: for mutations / sequential siblings the "
             "accounting, and for all operations the message / locations / extensions of entries, are decided per "
             "run, not proved. "
             "The fault enumeration has 15 kinds, among them a parent attribute whose ACCESS raises (property getter) and subscript-only parents.",
        note="Trusted: as C01; exceptions that are not Exception subclasses and user exceptions pre-setting their own "
             "path are outside the model.",
        design="4 C02"),
    "C03": dict(
        technique="Coq proof of conformance by induction over the execution model (all resolver outputs) + adversarial "
                  "correspondence",
        text="Theorem C03_data_conforms / C03_field_value_conforms: for EVERY resolver and type-resolver oracle over the "
             "whole Python value universe (wrong kinds, NaN/inf/huge numbers, numeric strings, opaque objects, "
             "exception instances, unknown runtime types; returning or raising), non-null data conforms: exactly the "
             "collected response keys of a possible object type, lists where declared, no null at non-null, leaves "
             "produced by the scalar serialiser (built-ins: C10 wire theorems) or declared enum values; execute never "
             "raises. The model is tied to /repo by running generated requests with adversarial resolver data (rate "
             "0.3) through the real engine; each response is also checked structurally (confb) and for JSON "
             "serialisability. Also proved (Proofs/ExecJson.v): conforming data is a JSON value whenever every scalar's "
             "serialiser produces JSON values, which the five built-in scalars as regenerated from /repo do "
             "(C03_builtin_schema_data_is_json), and their leaves have their wire type: Int within 32 bits, Float finite, "
             "String/ID text, Boolean a boolean (C03_builtin_leaves_have_their_wire_type). "
             "The adversarial universe puts values of OTHER enums (sibling enums, the introspection enums) at enum positions; the hand schema has enum fields with such witnesses.",
        note="Trusted: as C01. Numeric types outside the stated universe (Decimal, Fraction, numpy) are not generated.",
        design="4 C03"),
    "C08": dict(
        technique="Coq proof over an async calculus (every program, every pick sequence) + gated-scheduler "
                  "correspondence on the real engine under enumerated schedules and the 2x2x2 configurations",
        text="Model/Async.v: the engine's fork/join/merge logic as programs (Call = await user coroutine, Gather = "
             "asyncio.gather merged by index, Emit = append to the request's write-only state) with the scheduler "
             "semantics of the gated driver. Proved for EVERY program and pick sequence, hence for the executor written in "
             "the calculus: a complete run under any schedule returns the result of the sequential run and emits a "
             "permutation of its events (errors, invocations); any two schedules agree; every started resolver has "
             "finished, none is started more often than sequentially; no deadlock (a non-final state always has a "
             "releasable resolver) and every release strictly decreases the pending count (termination, bounded "
             "schedules). The check drives the real engine with resolvers blocked on harness futures, enumerates pick "
             "sequences systematically for small requests (incl. single/double faults) in the default configuration and "
             "by strategy in the other 7, asserts identical data across all schedules and configurations, no pending "
             "resolver / live task after execute, no double start, and compares response + started/finished sets with "
             "run_sched of the model inside Coq; each response is judged by the specification executor. Also proved: the "
             "executor written in the calculus, run with every coroutine completing at once, IS the state-passing executor of "
             "C01-C03 (same data, errors and invocations in order: Proofs/AsyncBridge.v), hence under EVERY schedule and EVERY "
             "sibling configuration a request for which the specification's algorithm has a result is answered with exactly "
             "that data, and with the errors and invocations of the sequential run up to order; under every schedule no resolver is "
             "started twice for one response path (C08_no_resolver_called_twice) (sibling and list strategies, "
             "engine-wide or per field, are part of the configuration the theorems quantify over). PARTIAL: the "
             "argument-coercion option (gather / one by one) is decided per run (the models do not distinguish it); the asyncio "
             "runtime is outside the model. "
             "Gated resolvers read info.path / info.field_name again after resuming: a ResolveInfo modified while its resolver is suspended fails that field, so the response differs between schedules. "
             "A separate engine-level scenario covers the DIRECTIVE side: documents over a schema with SDL-applied directives (valid arguments, an uncoercible argument, a missing required argument) under the eight uniform configurations, twice each -- execute must return and answer the same under every configuration.",
        note="Trusted: as C01 + the gated scheduler driver; asyncio task wake-up order beyond FIFO start, gather internals, "
             "cancellation, timeouts, thread-pool resolvers are runtime behaviour the model cannot exhibit.",
        design="4 C08"),
    "C09": dict(
        technique="Coq proof over the async calculus (sequential composition is serial under every schedule) + "
                  "gated-scheduler correspondence on mutation documents with adversarial schedules",
        text="Proved: under EVERY schedule of the nested resolvers a complete run of `first; then` is a complete run of "
             "`first` followed by a run of what follows (the whole log of a root field, with the finishes of its entire "
             "sub-selection, precedes the first start of the next); the chain of root fields continues after a contained "
             "failure and stops when a root raises (non-null); a mutation operation is executed by that serial chain (the "
             "operation-type dispatch is part of the model). THE WHOLE CHAIN (Proofs/SerialChain.v): for any number of root "
             "fields and every schedule a complete run of the chain is a serial run -- one entry per root field that ran "
             "(key, result, a complete log under a schedule of its own), the ran fields are an initial segment of the collected "
             "ones in document order, the chain's log is the concatenation of the entries' logs, it stops only at a raise, the "
             "object of a completed chain lists the keys in document order; the log of a mutation operation begins with such a "
             "serial run (C09_mutation_log_is_serial). The check runs mutation documents (several roots, aliases, "
             "root fragments, nested lists) x failure placements x pick sequences (enumerated + last-started, deepest, "
             "shallowest-last, random) in 3 configurations on the real engine -- also over a schema that declares ONE object type as "
             "query and mutation root --, checks the start/finish log for seriality "
             "and response key order, the response against the specification executor, and the run against run_sched.",
        note="Trusted: as C08.",
        design="4 C09"),
    "C15": dict(
        technique="Coq proof over the async calculus (a top-level fan-out of request programs: every interleaving yields each "
                  "request's solo response) + interleaved multi-request correspondence on one real engine",
        text="Requests in flight together are the children of one Gather over request programs; per-request mutable state "
             "lives inside each program. Proved for every interleaving: each request's response is the response of its "
             "sequential solo run; a request alone under any schedule has that response; the events of all requests are the "
             "union of the solo events (no error migrates). The check puts groups of 2-5 requests (same text with other "
             "variables / operation names / data, other documents, failing, invalid, syntactically broken) in flight on ONE "
             "engine under a cross-request gated scheduler (round-robin, last/first-issued-first, deepest, random), compares "
             "every response with the same request alone on a FRESH engine, repeats every request alone afterwards on the "
             "shared engine, fingerprints the cached DocumentNodes, and compares each in-flight request with run_sched of "
             "the model on that request alone under the projected schedule. PARTIAL: that the engine shares no other mutable "
             "state between requests is established by these runs, not by proof. "
             "The invalid / valid document family of C16 is played in several orders on one engine against references computed in a fresh INTERPRETER (state kept on process-global rule objects would corrupt an in-process reference). "
             "Every second history runs on an engine without parse cache (documents are freed between requests); the family has documents with literal arguments.",
        note="Trusted: as C08; baked schema, parse cache and parsed documents are assumed read-only by the model (checked by "
             "fingerprint and by the afterwards-runs).",
        design="4 C15"),
    "C06": dict(
        technique="Coq theorems on the implementation model of the validation walk (rule soundness) + specification "
                  "verdict evaluated in Coq on valid-by-construction documents run through the real engine",
        text="Model/ImplValidate.v transcribes the walk of transformers.py (shared mutable context, 26 rules, abort flag, "
             "rules that raise); Model/SpecValidate.v states the 25 supported rules after the specification (type-scoped "
             "recursion, independent of the walk). Proved for all schemas/documents: an acyclic fragment graph (sharing, "
             "repeated spreads, any definition order; fuel shown sufficient) is never reported as a cycle; the six uniqueness "
             "rules report nothing on distinct names (iff); an accepted document is handed to the executor unchanged; the walk "
             "is a PURE FUNCTION of the type scope (from every state of the shared context the errors appended below a "
             "selection are sel_errs scope path s, or the state ends crashed); acceptance is DECOMPOSED into the walk phase "
             "and the 11 document-level rules each being quiet; exact against the specification predicates: lone anonymous "
             "operation, fragments-must-be-used and spread-target-defined (the spread list the rules read is the document's), "
             "values of correct type at every depth (nested induction, self-referential input types), argument names, "
             "required arguments, directive locations, field-exists / leaf-selection, type conditions, and the whole field "
             "node; and ACCEPTANCE CHARACTERISED (accepted_characterised): accepted <-> every node of every selection tree "
             "satisfies the specification's node predicates with the scope handed down /\\ acyclic /\\ unique names /\\ lone "
             "anonymous /\\ spread targets defined /\\ fragments used /\\ five rule functions quiet; single root field "
             "(Proofs/SingleRoot.v): a subscription whose reachable root fields -- through inline fragments and spreads, "
             "however often written -- share ONE response key is not refused; possible spreads (Proofs/ValidateSpreads.v): what the "
             "walk records of inline fragments and spreads is a pure function of the document and rule 5.5.2.3 reports nothing "
             "exactly when each can apply in its scope; the per-operation / per-fragment books the three variable rules read are a "
             "pure function of the document (Proofs/ValidateScopes.v), hence ACCEPTANCE IS A PREDICATE OF THE DOCUMENT: no conjunct "
             "of its characterisation mentions the shared walk context any more (C06_acceptance_is_a_predicate_of_the_document). The check "
             "generates structured valid documents (fragment DAGs with sharing, several named operations reaching shared "
             "fragments by different routes, variables only inside fragments, directives in all 7 executable locations, "
             "meta-fields and introspection selections, identical repeated fields, one-key subscriptions) on generated schemas; "
             "inside Coq every document must satisfy all 25 specification predicates (else the generator is at fault) and the "
             "implementation model's error set must equal the engine's; the engine must not answer with any rule-tagged or "
             "generic validation error. PARTIAL: what remains between this characterisation and the specification's own predicates (Model/SpecValidate.v): the node predicates' field lookup (= the specification's except `__typename` in interface scopes: recorded finding); decided per document by the specification verdict evaluated in Coq.",
        note="Trusted: Coq kernel, generators, parser stand-in (which texts parse, locations), scalar translator for literal "
             "leaves. Field-selection-merging (5.3.2) is not implemented by the engine; generated documents satisfy it by "
             "construction.",
        design="4 C06"),
    "C07": dict(
        technique="Coq theorems (refusal runs nothing; completeness of the uniqueness rules) + catalogue of violation-injecting "
                  "rewrites judged by the specification model in Coq and run through the real engine with call counters",
        text="Proved for every schema, document, user code, configuration: when the validation walk reports an error or a rule "
             "raises, the response has data:null, non-empty errors and the executor is not reached (no user code); a repeated "
             "operation / fragment / variable / argument / directive / input-field name is always reported. The check applies "
             "~45 rewrite operators (one or more per supported rule: operation level, nested selections, inside fragments, "
             "directive arguments, nested input values, variable defaults, second subscription operation, back edges closing "
             "fragment cycles through nested selections, impossible inline and named spreads, wrong declared variable types) at "
             "the applicable nodes of valid documents; the specification model (evaluated in Coq) says which rules each rewritten "
             "document breaks; when it breaks one, the engine must refuse and no resolver, type resolver or directive hook may "
             "have run; the implementation model must report the engine's error set (tags, paths, locations for 19 rules). Also "
             "proved: the fragment-cycle rule answers `no error` EXACTLY for acyclic fragment graphs (sound and complete for every "
             "graph with distinct names, fuel shown sufficient), a cyclic graph puts the walk in a refusing state and no later "
             "rule undoes a refusal; and, re-checked against the CURRENT source on every run (harness/wiring.py -> "
             "Gen/Wiring_gen.v -> Proofs/Wiring.v), every supported rule is registered in RULE_SET and invoked from exactly the "
             "call sites the model transcribes, only the cycle rule aborting. Also proved complete against the "
             "specification: lone-anonymous, fragments-must-be-used, spread-target-defined, values of correct type at every "
             "depth (a rejected literal makes the rule raise or report and the walk refuse), unknown argument, missing "
             "required argument, misplaced directive; acceptance is the conjunction of all rules being quiet; and "
             "C07_violating_document_refused: a document with any node violating a node predicate at any depth, a cyclic "
             "fragment graph, a repeated name, a second anonymous operation, an undefined spread target or an unused fragment "
             "is not accepted; a subscription reaching two different root response keys through fields and inline fragments at "
             "any nesting is reported by single-root-field and the document is not accepted (C07_two_root_keys_refused); an inline "
             "fragment or a spread of a defined fragment that cannot apply in its scope, wherever it sits, makes the document "
             "not accepted (rule 5.5.2.3 EXACT: C07_possible_spreads_rule_exact, `applies_in` = the specification's); the three "
             "variable rules are EXACT (Proofs/ValidateVars.v): an operation sees what is recorded in its own tree and in every "
             "fragment reachable through spreads, so an undeclared, an unused or a wrongly typed directly-used variable -- in "
             "the operation, a nested selection, a directive argument or a fragment reached through any chain of spreads -- makes "
             "the document not accepted. Two "
             "recorded findings (known_findings.json) are attributed by Coq-evaluated region predicates. single-root-field is EXACT "
             "through fragment spreads too (Proofs/SingleRootSpreads.v: the visited-set traversal collects every reachable root "
             "key, cyclic spread graphs included). PARTIAL: the link between the node predicates' field lookup and the "
             "specification's (differs for `__typename` in interface scopes: recorded finding) is decided per document. "
             "The two recorded findings are themselves theorems about the model (Properties/C07Findings.v, refuted-by-witness: "
             "a document the specification refuses and the implementation model accepts, by vm_compute) -- the same two "
             "documents are the replays of known_findings.json on the real engine. "
             "Generated schemas give implementations additional nullable arguments on interface fields; using such an argument through the interface is one of the rewrites (and a hand witness).",
        note="Trusted: as C06. Documents with non-executable definitions are outside the document model (engine side only).",
        design="4 C07"),
    "C11": dict(
        technique="Coq theorems on the model of what the built schema object reports + round trip model -> SDL (4 ways) -> real "
                  "engine -> introspection compared inside Coq",
        text="Model/Introspect.v computes from the schema object of the build model (definitions, merged extensions, built-ins) "
             "what __schema / __type report. Proved for every SDL model that builds: reported type names are exactly the declared "
             "ones plus the built-in scalars (nothing missing, nothing extra, no meta type); __type(name:) returns the entry of "
             "__schema.types and null for unknown names; includeDeprecated filters exactly the deprecated members; possibleTypes "
             "of an interface are exactly the objects declaring it (extensions included, any declaration order); reported fields "
             "are exactly the declared and extension-added fields that are neither injected `__` fields nor hidden by "
             "@nonIntrospectable; the interface field-type check of the build IS IsValidImplementationFieldType (covariant "
             "implementations build); what an extension adds is reported (Proofs/IntrospectExt.v: the extended type's entry "
             "carries the added enum values / union members / interfaces / fields after the declared ones). The check "
             "prints generated models (all kinds, wrappers, defaults, several implementers "
             "declared before/after the interface, covariant implementations, unions, extensions of every kind incl. `extend "
             "schema` without operations, @deprecated with/without reason, @nonIntrospectable) as SDL supplied as string, file, "
             "list of files and directory (with/without trailing newline, ending in comment lines), runs the standard "
             "introspection query on the real engine and compares the whole result with the model inside Coq; on the engine "
             "alone: the four ways agree, __type agrees with __schema.types, includeDeprecated:false is the filtered list, "
             "reasons match, a @nonIntrospectable schema refuses introspection. PARTIAL: lark grammar/transformers, file "
             "handling and the executor walking schema objects are exercised, not modelled. Default values are compared as "
             "VALUES: the reported defaultValue text, parsed back, must be the declared default (every schema carries an input "
             "type with defaults of every kind, strings needing escapes included). "
             "String defaults and @deprecated reasons contain an escaped backslash in front of every escape letter and of uXXXX (this exposed and now guards the repaired defect e460bec). "
             "Generated models contain objects that gain an interface through an extension without field block.",
        note="Trusted: Coq kernel, generators, SDL printer. __typename = concrete object type is covered by C01's check.",
        design="4 C11"),
    "C12": dict(
        technique="Coq theorems on the model of the schema build (completeness of the validators, soundness of the interface "
                  "type check) + SDL-level violation catalogue judged by specification predicates in Coq and run through "
                  "create_engine",
        text="Model/SchemaBuild.v transcribes schema_from_document (redefinitions refused), _validate_extensions, the extension "
             "merge and the ten validators of _validate in the order GraphQLSchema.bake runs them; Model/SpecSchema.v states the "
             "property's rules. Proved for every SDL model: duplicate type/directive definitions (built-ins included) are "
             "refused; after the extensions are merged, a field of undefined type, an argument/input field whose type is "
             "undefined or not an input type (field or directive, behind any wrappers, also when added by an extension), a "
             "missing/undefined root, an object without fields, a union containing itself (also through an extension), a "
             "repeated enum value, a scalar without implementation, a non-awaitable directive hook each make the build fail; the "
             "engine's interface field-type check is exactly IsValidImplementationFieldType; an object that does not honour "
             "a declared interface (missing field, invalid field type, missing / retyped interface argument, additional "
             "required argument, undefined or non-interface `implements`) is refused (Proofs/SchemaInterfaces.v); an extension the "
             "specification predicate refuses (unknown target, another kind, a member that exists already, a directive already "
             "carried, a schema directive already there) is refused (Proofs/SchemaExtensions.v). The check rewrites "
             "valid schema models (all type kinds, several interfaces/implementers, unions, input objects, custom and "
             "type-system directives, extensions of every kind, with/without schema definition) with ~45 SDL-level violations; "
             "create_engine must raise and leave no usable engine; the build model must predict built/rejected AND the set of "
             "error kinds (29 message families); the specification predicates must confirm the rewritten model breaks a rule. The "
             "validator lists of _validate / _validate_extensions and the order of the steps of bake() are extracted from the "
             "CURRENT source on every run and proved equal to the ones the model transcribes (Proofs/Wiring.v). "
             "`extend schema` naming an operation whose root type is already defined is refused "
             "(C12_schema_operation_redefinition_refused). "
             "Syntax rewrites include the productions that demand at least one element: extensions adding nothing (every kind, first / last in the document), bare `extend schema` / `extend scalar`, empty value / field / argument / location lists. "
             "Every generated model starts its extensions with one directive-only extension per kind: what follows must still be merged and validated.",
        note="Trusted: Coq kernel, generators, SDL printer; the lark grammar (syntax verdicts) and inspect (awaitability) are "
             "oracles.",
        design="4 C12"),
    "C13": dict(
        technique="Coq theorems on wraps_with_directives for arbitrary hook implementations + literal=variable theorem for "
                  "tagging hooks + correspondence of delivered values / results / invocation logs on the real engine",
        text="Model/Directives.v transcribes wraps_with_directives (the reversed loop of partial applications) for ARBITRARY hook "
             "implementations taking the next stage as a continuation, and the wiring of the input / literal / argument / field / "
             "output directive coercers. Proved: several directives on one element nest in declaration order, first declared "
             "outermost, instances without the hook skipped (every implementation); query-side field directives wrap the "
             "schema-side ones which wrap the resolver; with tagging hooks each applicable hook of each instance is invoked "
             "exactly once per value, in order, with its own argument, and each hook sees what the previous returned; a value "
             "spelled as a literal, as a whole-argument variable or with variables nested at any depth in list/object literals "
             "is delivered identically (type-level hooks skipped on the literal path exactly where they already ran at variable "
             "coercion; input-field hooks not). OUTPUT SIDE (Model/DirectivesOut.v): object / list / leaf positions annotated "
             "with directive instances; executing the coercers with logging hooks equals the pure view for every annotated type "
             "(abstract positions: the abstract type's hooks, then the runtime object type's, then the fields = the object run over the "
             "concatenated instances, Proofs/DirectiveAbstract.v; interface / union positions are executed and compared per run) "
             "and value; a type's on_pre_output_coercion hooks meet every value at a position of that type exactly once, null "
             "results and null list items included (compared inside Coq with the engine's data and invocation log for nested "
             "object / list fields). The check decorates scalar, input objects, input fields, arguments, field "
             "definitions, object type, enum and enum value with 0-3 non-commuting tagging directive instances (random hook "
             "subsets, distinct arguments) and compares inside Coq the values resolvers receive, the field result and the "
             "multiset of post-input-coercion invocations; field / argument hooks exactly-once and the object/field/scalar "
             "output chain are checked per request. PARTIAL: the per-type bake() wiring is transcribed (tied by the "
             "correspondence); enum output positions (a field and a list field of an enum type) are judged on the engine's "
             "invocation log per request -- the enum type's on_pre_output_coercion hooks once per value of the position, "
             "null list items included, the enum value's once per occurrence -- but are not in the Coq model; "
             "abstract-type output hooks are exercised at bake time only. "
             "A probe field with SDL defaults on every argument: omitted = the default literals written out = declared unprovided variables, two aliases in one request, and the whole set executed three times in a row on one engine with identical values and hook logs.",
        note="Trusted: Coq kernel, harness (tagging hooks, generators); the order between enum-value and enum-type output hooks "
             "is not fixed by the property and not compared.",
        design="4 C13"),
    "C14": dict(
        technique="Coq theorems on the model of Engine.subscribe + event-by-event correspondence on the real engine",
        text="Proved for every finite event sequence of the source: the responses are exactly the map of "
             "`execute against this event as root value` over the events (one per event, in order, pointwise "
             "independent, so a field failure inside one response cannot end or alter the stream); a request failing "
             "operation selection or variable coercion yields a single errors-only response and no stream. The check "
             "consumes the real async stream event by event for generated subscription documents x event sequences "
             "(well-formed payloads, nulls, garbage), compares each response with the engine's own execute("
             "initial_value=event), with the implementation model, with the specification executor, and checks the "
             "source is started once with the model's coerced arguments. Validation in front of the executor (Model/SubscribeValidated.v): a document the walk refuses -- e.g. two different root response keys through fields and inline fragments -- is answered with one errors-only response and no stream is created; an accepted one is executed unchanged. PARTIAL: aclose/cancellation are runtime. "
             "A hand scenario uses the library's Date / DateTime scalars (coercion not idempotent) in list and input-object variables: every event must be answered like execute(initial_value=event) with a fresh copy of the variables. "
             "A sequence of requests over the same subscription texts on one engine uses values that are equal in Python but of another type (True / 1 / 1.0): each is refused or answered on its own.",
        note="Trusted: as C01; the async-generator protocol is outside the model.",
        design="4 C14"),
    "C18": dict(
        technique="Coq theorems on the total model of Engine.execute (parser as oracle) + envelope predicate on arbitrary "
                  "inputs through the real engine",
        text="engine_execute is a total Gallina function into `envelope` (nothing can escape: the catch-all of "
             "Engine.execute is its last branch). Proved for every parser verdict, operation name, variables, user code "
             "and total error coercer: `errors` present iff non-empty; errors = map coercer (errors awaited), i.e. the "
             "coercer is awaited exactly once per reported error, in order, and its return value is what appears; "
             "parse failures, failed operation selection and refused variables give data:null and run nothing. "
             "Locations (Proofs/ExecLocations.v, Properties/C18Locations.v): the executor never invents a location -- "
             "for ANY predicate P on line/column pairs that holds of the locations the parser attached to the document's "
             "nodes (field nodes, the outermost value node of each argument, variable definitions), P holds of every "
             "location of every entry handed to the error coercer (invariant through collect_fields with fragments, "
             "argument coercion, located_error / handle_field_error, list items, abstract types, the per-field "
             "sequential/concurrent passes, variable coercion); instantiated with `a positive pair inside the request "
             "text` (in_text). The "
             "check feeds arbitrary text/bytes (random, mutated valid documents, deep nesting, unicode, NUL, lone "
             "surrogates), operation-name variants, variables of any JSON shape and a recording coercer to the real "
             "engine and judges each observation with the envelope predicate (never raises; data present; errors "
             "well-formed; locations positive and inside the text; extensions only when set; coercer called once per "
             "error); parsing+valid requests are also compared with the execution model inside Coq. "
             "A third engine uses a BLANKING error coercer (returns None, {}, 0, \"\", dicts): `errors` must be exactly the list of its return values and present iff it was awaited.",
        note="Trusted: parser stand-in (which texts are syntax errors, reported locations), Coq kernel, harness.",
        design="4 C18"),
    "C16": dict(
        technique="Coq invariant proof over the cache state machine (all histories, all configurations) + differential "
                  "histories against a fresh uncached engine",
        text="Cache.v models functools.lru_cache in front of parse_and_validate_query (disabled / unbounded / capacity n "
             "with LRU eviction). Invariant `every cached entry is what parsing its key returns` proved for init and "
             "preserved by every call; lifted by induction over the request list: any history through any configuration "
             "returns, position by position, what the uncached function returns, also after any earlier history; hence "
             "responses are a function of the uncached parse. The hypothesis (equal keys denote the same text+schema, "
             "documents are not mutated) is tied to /repo by sending request histories (valid, invalid, broken, same "
             "text with other variables/operation names, multi-operation documents with different variable "
             "signatures, str/bytes) to engines with 5 cache configurations and comparing every position with a fresh "
             "uncached engine, plus a structural fingerprint of the cached DocumentNode before/after every request. "
             "The document family includes documents sharing their operation text with different fragments behind it (variables used / defined only through the fragments, unknown field, nested spreads).",
        note="Trusted: Coq kernel, harness; GraphQLSchema.__eq__/__hash__ and lru_cache itself are not verified.",
        design="4 C16"),
    "C17": dict(
        technique="Coq projection theorem over the registry state machine (all interleavings) + fresh-process differential",
        text="Registry.v models SchemaRegistry (process-global dict keyed by schema name; per-kind registration with "
             "duplicate refusal; register_sdl; cook reads the entry of its name). Theorem C17_projection, by induction "
             "on the operation history: what the operations about name n observe (registration errors, the "
             "implementations and SDL cook reads) equals what they observe when every other name's operations are "
             "removed -- for every finite history and interleaving. Tied to /repo by registering and cooking 2-4 "
             "bundles with overlapping type/field/scalar/directive/subscription names in every interleaving (exhaustive "
             "for pairs in thorough, sampled otherwise), each in a fresh process, and comparing each co-resident "
             "engine's answers (queries, introspection, a subscription, two rounds) and its registry entry with the "
             "same bundle built alone in a fresh process. PARTIAL: import caching of user modules is runtime. "
             "Bundles differ in definitions under the same names: an argument mandatory in one bundle and optional in another (on a field and on a directive), an enum with other values. "
             "Twin bundles: two schema names cooked from byte-identical SDL whose extensions of every kind carry a directive.",
        note="Trusted: Coq kernel, harness; state kept on type objects outside the registry is covered only by the "
             "differential runs.",
        design="4 C17"),
}

NOT_YET = {
}


def main():
    props = [json.loads(l) for l in (VERIF / "properties.jsonl").read_text().splitlines() if l.strip()]
    checks, na = [], []
    for p in props:
        pid = p["id"]
        if pid in CHECKS:
            c = CHECKS[pid]
            checks.append({
                "property_id": pid,
                "quick_cmd": "./check %s --tier quick" % pid,
                "thorough_cmd": "./check %s --tier thorough" % pid,
                "evidence_file": "evidence/%s.json" % pid,
                "replay_cmd_template": "./check %s --replay {path}" % pid,
                "engine": "coq-proof+correspondence",
                "level_claimed": {"category": "proof", "text": c["text"],
                                  "design_ref": "DESIGN.md section " + c["design"]},
                "level_note": c["note"],
                "technique": c["technique"],
            })
        else:
            na.append({"property_id": pid,
                       "reason": NOT_YET.get(pid, "check not built yet in this revision (model and "
                                                  "theorems planned in DESIGN.md section 4); not claimed")})
    m = {
        "version": 1,
        "setup_cmd": "./setup.sh",
        "hooks": {
            "guard": "TARTIFLETTE_VERIF",
            "enable": "no guarded hooks exist in /repo: the parser stand-in, recording resolvers and "
                      "schedulers live in the harness process",
            "baseline_off_cmd": "cd /repo && /venv/bin/python -m pytest -ra -q -p no:cacheprovider "
                                "--timeout=900 --continue-on-collection-errors",
            "source_commits": [],
            "add_only": True,
        },
        "engines": [{
            "name": "coq-proof+correspondence",
            "path": "coq/ harness/ check",
            "serves_properties": [c["property_id"] for c in checks],
            "kind_free_text": "Coq 8.16.1 theorems about an executable Gallina model; model tied to /repo by a "
                              "source translator (scalars, wiring) and by a differential correspondence "
                              "check against the real engine evaluated with vm_compute",
        }],
        "checks": checks,
        "not_applicable": na,
        "notes": "See DESIGN.md. Fix commits in /repo are listed in known_findings.json (fixed: entries).",
    }
    (VERIF / "MANIFEST.json").write_text(json.dumps(m, indent=1) + "\n")


if __name__ == "__main__":
    main()
