#!/bin/sh
# Runs every registered quick check on the current tree; prints one line per property.
cd "$(dirname "$0")"
for p in $(python3 -c "import json; print(' '.join(c['property_id'] for c in json.load(open('MANIFEST.json'))['checks']))"); do
  start=$(date +%s)
  out=$(./check $p --tier ${1:-quick} 2>&1); rc=$?
  end=$(date +%s)
  echo "$p rc=$rc $((end-start))s $(echo "$out" | grep -c VIOLATION) violations"
done
